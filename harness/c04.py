"""C04 — inline variable / function / parameter preserves behaviour or is refused.

Streams (all random choices from ctx.rng):
  method    generated project: one inlineable function `f` in mod0 (1-4 parameters, defaults, body printing every
            parameter, optionally returning a value, optionally reading a global of mod0), 1-6 call sites spread over
            1-3 modules (positional / keyword / default mixes in different orders; module level or inside a host
            function; host names colliding with the function's names), remove in {True, False}, only_current.
            Through the real inline.create_inline(...).get_changes(...) with _DefinitionGenerator._calculate_header
            wrapped: per call site the header bindings and the generator's definition_params are compared inside Coq
            with coq/C04/Inline.v (variant alias=false: the parameter dict is copied per site), the spec `bind` with
            inspect.signature(...).bind.  Oracle: the entry module is executed before and after in a subprocess
            (stdout and exit status equal), every module parses, after remove=True the name is referenced nowhere.
            Further method-kind streams: "rich-layout" (the function returns an object; call layouts spanning several
            physical lines; the value used through trailers .attr / .method(...) / [i] / operator after the closing
            parenthesis, also when the call starts its statement, on the right of assignments, as arguments) and
            "method-call" (a method of a class inlined at call sites whose receivers are attribute chains of depth
            1-4; CallInfo.read's argument list is compared inside Coq with Receiver.read_args).
            The body may read names of the defining module: a constant, a helper function, names bound by imports
            inside try/except or if/else; client modules may already import such a name from the defining module,
            under its own name or under an alias.  References other than calls (`hh = f`, stored, passed along) in the
            defining or the current module, mostly with only_current (+ remove): must be refused.
  variable  (also: functions above the assignment read the variable textually before it; oracle only)
            straight-line modules over  x = e / print(e, ...)  with sums, products, parentheses; the variable is read
            in different operand positions, its operands are sometimes reassigned, it is sometimes assigned twice
            (refusal); the module after the change is parsed back and compared inside Coq with Expr.inline_variable;
            the side conditions of C04_variable_subst are evaluated in Coq and by a Python mirror; same oracle.
  parameter InlineParameter (ArgumentDefaultInliner through create_inline on a parameter): oracle only.
"""
import ast
import json
import re
import traceback

from harness.common import g_N, g_bool, g_list, g_opt, g_text
from harness import c04_lib as L

PROPERTY = "C04"
FNAME = "f"
DEFMOD = "mod0"
PARAMS = ["a", "b", "c", "d"]
HOSTV = ["x", "y", "z"]
HOSTVAL = {"x": 2, "y": 3, "z": 5}

DEFECT_BINDERS = ["nested-return", "plain-import", "from-import"]
MALFORMED = ["star-def", "kwonly-def", "kwstar-def", "recursive", "non-call", "return-not-last", "dead-after-used-return",
             "star-call", "kwstar-call"]
SIG_ALIAS = "method:a later call site relies on a default after an earlier site of the same generator passed that parameter explicitly"
SIG_IMPORT_ONLY = "remove=True and a module in which no occurrence is rewritten imports the inlined name by name"
SIG_NOCHANGE = "method:remove=False and no call site is rewritten in the defining module"
SIG_CAPTURE = "method:an argument mentions a name that is also a parameter or local of the inlined function"
SIG_REASSIGN = "method:the body assigns a parameter (known bug 1 at the top of inline.py)"
SIG_MPREC = "method:an argument is a sum and the parameter is read in a product or after a minus sign (known bug 2 at the top of inline.py)"
SIG_IMPORT_CAPTURE = "a client module binds a name that the inlined code reads as a global of the defining module (the added import is shadowed or shadows)"
SIG_NESTED_RETURN = "method:the body contains a nested function with a return statement"
SIG_IMPORT_RENAMED = "method:the body imports a name without `as` and the guest names are renamed because of a conflict with the host scope"
SIG_CLASSMETHOD_INSTANCE = "method:a classmethod is called through an instance"
SIG_STAR_CALL = "a call site passes *args or **kwargs"
SIG_RETURN_NOT_LAST = "method:the body has a return that is not its last statement and a call site does not use the value"
SIG_VDEP = "variable:an operand of the inlined right-hand side is reassigned between the definition and a read"
SIG_VPREC = "variable:the right-hand side is a sum and a read sits in a product or after a minus sign"


def fname(obj):
    return obj.get("fname", FNAME)


def obj_sites(obj, src):
    """call sites of the inlined function / method in a module (textual order)"""
    out = L.call_sites(src, fname(obj), DEFMOD, method=obj.get("method", False))
    if obj.get("mkind") == "staticmethod":
        for x in out:
            x["args"] = x["args"][1:]        # Python passes no receiver to a staticmethod
    return out


# ============================================================================= method stream: generator
def gen_atom_arg(rng, site_no, j):
    k = rng.random()
    if k < 0.45:
        return [(False, [("n", 10 * (site_no + 1) + j)])]
    if k < 0.75:
        return [(False, [("v", rng.choice(HOSTV))])]
    return [(False, [("v", rng.choice(HOSTV)), ("n", rng.randint(2, 4))])]


def gen_body_sum(rng, names, depth=0):
    s = []
    for i in range(rng.randint(1, 3)):
        p = []
        for _ in range(rng.randint(1, 2)):
            k = rng.random()
            if k < 0.6:
                p.append(("v", rng.choice(names)))
            elif k < 0.85 or depth >= 1:
                p.append(("n", rng.randint(2, 9)))
            else:
                p.append(("p", gen_body_sum(rng, names, depth + 1)))
        s.append((i > 0 and rng.random() < 0.4, p))
    return s


def gen_site(rng, params, site_no, rel_default=0.5):
    """a well-formed call: (positional sums, [(kw, sum)])"""
    k = len(params)
    npos = rng.randint(0, k)
    pos = [gen_atom_arg(rng, site_no, j) for j in range(npos)]
    kws = []
    for j in range(npos, k):
        name, dflt = params[j]
        if dflt is not None and rng.random() < rel_default:
            continue
        kws.append((name, gen_atom_arg(rng, site_no, j)))
    rng.shuffle(kws)
    return pos, kws


def fmt_call(func, pos, kws):
    parts = [L.show_sum(e) for e in pos] + ["%s=%s" % (n, L.show_sum(e)) for n, e in kws]
    return "%s(%s)" % (func, ", ".join(parts))


DECOS = """def d1(fn):
    fn.tag = getattr(fn, 'tag', 0) + 1
    return fn


def d2(fn):
    fn.tag = getattr(fn, 'tag', 0) + 10
    return fn


def d3(fn):
    fn.tag = getattr(fn, 'tag', 0) + 100
    return fn
"""

CTX = """class Ctx:
    def __enter__(self):
        return 7

    def __exit__(self, *exc):
        return False
"""

# constructs of the inlined body that bind a name other than by assignment: (bound name, body lines using parameter P)
BINDERS = {
    "def": ("hh", ["def hh(v):", "    print(v + 1)", "hh(P)"]),
    "class": ("CC", ["class CC:", "    w = 3", "print(CC.w + P)"]),
    "import-as": ("mm", ["import math as mm", "print(mm.floor(P))"]),
    "for": ("ii", ["for ii in (1, 2):", "    print(ii + P)"]),
    "with": ("ww", ["with Ctx() as ww:", "    print(ww + P)"]),
    "except": ("ee", ["try:", "    raise ValueError(P)", "except ValueError as ee:", "    print(ee.args)"]),
    # known defect shapes (see findings): a nested def that returns; an import without `as`
    "nested-return": ("hh", ["def hh(v):", "    return v + 1", "print(hh(P))"]),
    "plain-import": ("math", ["import math", "print(math.floor(P))"]),
    "from-import": ("floor", ["from math import floor", "print(floor(P))"]),
}
CLEAN_BINDERS = ["def", "class", "import-as", "for", "with", "except"]

BOX = """class Box:
    def __init__(self, v):
        self.v = v

    def show(self, tag):
        print(tag, self.v)
        return self

    def __getitem__(self, i):
        print('item', i, self.v)
        return self

    def __add__(self, o):
        print('add', self.v, o)
        return self
"""


def layout_call(rng, func, pos, kws, multiline):
    """the call text; multiline: the argument list is spread over several physical lines in one of a few styles"""
    parts = [L.show_sum(e) for e in pos] + ["%s=%s" % (n, L.show_sum(e)) for n, e in kws]
    if not multiline:
        return "%s(%s)" % (func, ", ".join(parts))
    style = rng.randrange(3)
    if style == 0 or not parts:       # one argument per line, closing parenthesis on its own line
        return "%s(\n%s)" % (func, "".join("    %s,\n" % x for x in parts))
    if style == 1:                    # hanging: first argument after the parenthesis
        return "%s(%s)" % (func, (",\n" + " " * (len(func) + 1)).join(parts))
    return "%s(\n        %s\n    )" % (func, ", ".join(parts))


def site_statements(rng, s, call, uses_value, rich):
    """the statements of call site number s.  rich (the function returns a Box): the value is used through
    trailers (.attr, .method(...), [i], binary operator) after the closing parenthesis, also when the call starts
    its statement; otherwise assignment / argument / bare statement."""
    if rich:
        form = rng.choice(["stmt", "assign", "arg", "trail-stmt", "trail-stmt", "trail-assign", "trail-arg"])
        if form == "stmt":
            return [call]
        if form == "assign":
            return ["v%d = %s" % (s, call), "print('s%d', v%d.v)" % (s, s)]
        if form == "arg":
            return ["print('s%d', type(%s).__name__)" % (s, call)]
        if form == "trail-stmt":
            return [call + rng.choice([".show('s%d')" % s, "[%d]" % s, " + %d" % s, ".show('s%d').show('again')" % s])]
        if form == "trail-assign":
            return ["v%d = %s.v" % (s, call), "print('s%d', v%d)" % (s, s)]
        return ["print('s%d', %s.v + 1)" % (s, call)]
    if uses_value:
        if rng.random() < 0.5:
            return ["v%d = %s" % (s, call), "print('s%d', v%d)" % (s, s)]
        return ["print('s%d', %s)" % (s, call)]
    return [call]


def indent_block(stmts, pad="    "):
    return [pad + line for st in stmts for line in st.split("\n")]


def gen_method(rng, force_sites=None, shape=None, rich=False, current_in_client=False, current_remove=False):
    """shape: None (main stream: arguments are single products over host names that are not names of the
    function, parameters are not reassigned), or one of the known defect shapes
    "capture" (an argument mentions a parameter/local name of the function), "reassign" (the body assigns a
    parameter), "precedence" (an argument is a sum)."""
    k = rng.choice([1, 2, 2, 3, 3, 4])
    names = PARAMS[:k]
    ndef = min(rng.choice([0, 1, 1, 2, 2, k]), k)
    params = [(n, None) for n in names[:k - ndef]] + [(n, str(50 + j)) for j, n in enumerate(names[k - ndef:])]
    if shape == "star-def":
        # (a *args parameter after defaulted parameters is misparsed by DefinitionInfo: recorded under C06)
        params = [(n, None) for n, _ in params]
    returns = rng.random() < 0.4
    if shape == "return-not-last":
        returns = False
    if shape == "dead-after-used-return" or rich:
        returns = True
    use_global = rng.random() < 0.45 or shape == "import-capture"
    local = rng.random() < 0.4
    body = []
    if shape == "reassign":
        p = rng.choice(names)
        body.append("%s = %s * 10" % (p, p))
    body.append("print(%s)" % ", ".join(["100"] + names))
    if rng.random() < 0.6 or shape == "precedence":
        body.append("print(%s)" % L.show_sum(gen_body_sum(rng, names)))
    if local:
        body.append("t = %s" % L.show_sum(gen_body_sum(rng, names)))
        body.append("print(t)")
    # names of the defining module that the body reads: a constant, a helper function, a name bound by an import
    # that is not a plain top-level statement (inside try/except, inside if/else)
    gnames = []
    if use_global:
        pool = ["K"] if shape == "import-capture" else ["K", "hp", "jj", "mth"]
        gnames = ["K"] if rng.random() < 0.4 else rng.sample(pool, rng.choice([1, 1, 2]) if len(pool) > 1 else 1)
        if shape == "import-capture" and "K" not in gnames:
            gnames.append("K")
        for g in gnames:
            p = rng.choice(names)
            body.append({"K": "print(%s + K)", "hp": "print(hp(%s))", "jj": "print(jj.dumps([%s]))",
                         "mth": "print(mth.floor(%s))"}[g] % p)
    bound = []
    if shape == "binders":
        for kind in rng.sample(CLEAN_BINDERS, rng.choice([1, 1, 2])):
            bound.append(BINDERS[kind][0])
            body += [l.replace("P", rng.choice(names)) for l in BINDERS[kind][1]]
    elif shape in ("nested-return", "plain-import", "from-import"):
        bound.append(BINDERS[shape][0])
        body += [l.replace("P", rng.choice(names)) for l in BINDERS[shape][1]]
    ndeco = rng.choice([0, 0, 1, 2, 3]) if shape in (None, "binders") else 0
    if returns:
        ret = L.show_sum(gen_body_sum(rng, names + (["t"] if local else [])))
        body.append("return Box(%s)" % ret if rich else "return %s" % ret)
    if shape == "return-not-last":
        if rng.random() < 0.5:
            body += ["return 7", "print(999)"]
        else:
            body = ["if %s > 1:" % names[0], "    return 7"] + body
    if shape == "dead-after-used-return":
        body.append("print(999)")
    if shape == "recursive":
        body += ["if False:", "    %s(%s)" % (FNAME, ", ".join(names))]
    nmod = rng.choice([1, 1, 2, 2, 3]) if shape != "import-capture" else rng.choice([2, 3])
    nsites = force_sites or rng.randint(1, 6)
    if current_in_client:          # several call sites in a module that imports the function, one of them inlined
        nmod, nsites = max(nmod, 2), max(nsites, 3)
    sites_of = [[] for _ in range(nmod)]
    for s in range(nsites):
        sites_of[1 if (current_in_client and s < 2) else rng.randrange(nmod)].append(s)
    files = {}
    collide = rng.random() < 0.3
    if shape == "non-call" and (current_remove or rng.random() < 0.6):
        nsites = 1
        sites_of = [[] for _ in range(nmod)]
        sites_of[rng.randrange(nmod)].append(0)
    # the module holding the non-call reference: the defining one or one with a call site
    noncall_mod = rng.choice([0] + [m for m in range(nmod) if sites_of[m]]) if shape == "non-call" else None
    for m in range(nmod):
        lines = []
        style = None
        galias = {}
        if m == 0:
            lines += ["K = 9"] + (BOX.split("\n") if rich else []) + (CTX.split("\n") if "ww" in bound else [])
            lines += DECOS.split("\n") if ndeco else []
            if "hp" in gnames:
                lines += ["def hp(v):", "    return v + 1000", ""]
            if "jj" in gnames:
                lines += ["try:", "    import json as jj", "except ImportError:", "    jj = None"]
            if "mth" in gnames:
                lines += ["if K:", "    import math as mth", "else:", "    mth = None"]
        else:
            # a module without call sites rarely imports the function by name (see SIG_IMPORT_ONLY)
            style = rng.choice(["from", "import"]) if (sites_of[m] or rng.random() < 0.15) else "import"
            imported = [FNAME] if style == "from" else []
            # the client may already import, from the same module, a name the inlined body is going to need:
            # under its own name or under an alias (used by the client itself below)
            for g in gnames:
                r = rng.random()
                if shape is None and r < 0.25:
                    imported.append(g)
                    galias[g] = g
                elif shape is None and r < 0.6:
                    imported.append("%s as %s_x" % (g, g))
                    galias[g] = g + "_x"
            lines += ["from %s import %s" % (DEFMOD, ", ".join(imported))] if imported else []
            lines += ["import %s" % DEFMOD] if style == "import" else []
        lines += ["%s = %d" % (v, HOSTVAL[v]) for v in HOSTV]
        if shape == "import-capture" and m > 0:
            lines += ["K = 1"]
        cvar = None
        if collide or shape == "capture":
            cvar = rng.choice(names + ["t"])
            lines += ["%s = %d" % (cvar, 600 + m)]
        # host names equal to the names the body binds by def / class / import / for / with / except
        # (a name the body binds by import is hoisted into client modules by moving_code_with_imports and is then
        #  shadowed by a client binding: that is the recorded import-capture defect; collide only in the defining module)
        hbound = [b for b in bound if m == 0 or b not in ("mm", "math", "floor")]
        lines += ["%s = %d" % (b, 700 + m) for b in hbound]
        if m == 0:
            extra = {"star-def": ", *rr", "kwonly-def": ", *, kk=1", "kwstar-def": ", **kk"}.get(shape, "")
            lines += ["", ""] + ["@d%d" % j for j in rng.sample([1, 2, 3], ndeco)]
            lines += ["def %s(%s%s):" % (FNAME, ", ".join(n if d is None else "%s=%s" % (n, d) for n, d in params), extra)]
            lines += ["    " + b for b in body] + ["", ""]
            # the definition is followed by another one (what is left of a removed definition would land on it)
            lines += ["def after_f():", "    print('after')", "", ""]
        func = FNAME if (m == 0 or style == "from") else "%s.%s" % (DEFMOD, FNAME)
        if shape == "non-call" and m == noncall_mod:
            # the function is also referenced other than by a call: bound to another name, stored, passed along
            lines += [rng.choice(["hh = %s", "hh = [%s]", "print(callable(%s))", "hh = dict(cb=%s)"]) % func]
        prev_args, prev_wrap = None, False
        for s in sites_of[m]:
            pos, kws = gen_site(rng, params, s)
            repeated = prev_args is not None and shape is None and rng.random() < 0.3
            if repeated:
                pos, kws = prev_args        # the same call text again, in the other kind of scope of the module
            prev_args = (list(pos), list(kws))
            if shape != "capture" and cvar in names and rng.random() < 0.6:
                # identity binding: the host variable named like a parameter is passed to that parameter
                j = names.index(cvar)
                ident = [(False, [("v", cvar)])]
                if j < len(pos):
                    pos[j] = ident
                else:
                    kws = [(n, ident if n == cvar else e) for n, e in kws]
            if shape == "capture" and cvar:
                # the colliding host variable is passed as (part of) an argument of another parameter
                tgt = [j for j in range(len(pos)) if params[j][0] != cvar] + [len(pos) + j for j, (n, _) in enumerate(kws) if n != cvar]
                if tgt:
                    j = rng.choice(tgt)
                    e = [(False, [("v", cvar)])] + ([(False, [("n", 1)])] if rng.random() < 0.5 else [])
                    if j < len(pos):
                        pos[j] = e
                    else:
                        kws[j - len(pos)] = (kws[j - len(pos)][0], e)
            if shape == "precedence" and (pos or kws):
                e = [(False, [("v", rng.choice(HOSTV))]), (rng.random() < 0.5, [("n", 1 + s)])]
                if pos:
                    pos[rng.randrange(len(pos))] = e
                else:
                    kws[0] = (kws[0][0], e)
            call = layout_call(rng, func, pos, kws, multiline=(shape is None and rng.random() < (0.6 if rich else 0.25)))
            if shape == "star-call" and s == sites_of[m][0]:
                lines += ["tt = (%s)" % "".join("%d, " % (7 + j) for j in range(len(params)))]
                call = "%s(*tt)" % func
            if shape == "kwstar-call" and s == sites_of[m][0]:
                lines += ["dd = {%s}" % ", ".join("'%s': %d" % (n, 7 + j) for j, (n, _) in enumerate(params))]
                call = "%s(**dd)" % func
            stmts = site_statements(rng, s, call, returns, rich)
            wrap = (not prev_wrap) if repeated else rng.random() < (0.5 if bound else 0.3)
            prev_wrap = wrap
            if wrap:
                # host function; its own locals named like the names bound in the body are used after the call
                pre = ["%s = %d" % (b, 70 + s) for b in hbound]
                post = ["print('hl', %s)" % ", ".join(hbound)] if hbound else []
                lines += ["", "", "def g%d():" % s] + indent_block(pre + stmts + post) + ["", "", "g%d()" % s]
            else:
                lines += stmts
        if cvar:
            lines += ["print('%s', %s)" % (cvar, cvar)]
        for g, al in sorted(galias.items()):      # the client uses what it imported itself
            lines += [{"K": "print('own', %s)", "hp": "print('own', %s(1))", "jj": "print('own', %s.dumps(1))",
                       "mth": "print('own', %s.floor(1.5))"}[g] % al]
        if hbound:
            lines += ["print('hm', %s)" % ", ".join(hbound)]
        if m == 0:
            lines += ["after_f()", "print('tag', getattr(after_f, 'tag', 0))"]
        files["mod%d.py" % m] = "\n".join(lines) + "\n"
    files["main.py"] = "".join("import mod%d\n" % m for m in range(nmod))
    remove = rng.random() < (0.8 if ndeco else 0.6)
    obj = {"kind": "method", "files": files, "entry": "main.py", "remove": remove, "only_current": False,
           "at": ["mod0.py", files["mod0.py"].index("def %s(" % FNAME) + 4]}
    if rng.random() < (0.6 if shape == "non-call" else 0.2) or current_in_client or current_remove:
        # only the current occurrence; the definition may go only when it is the only one
        cands = [(fn, s) for fn in sorted(files) if fn != "main.py" for s in obj_sites(obj, files[fn])]
        # prefer a module in which other call sites stay behind (they keep needing the definition and its import)
        crowded = [(fn, s) for fn, s in cands if sum(1 for f2, _ in cands if f2 == fn) >= 2
                   and (fn != "mod0.py" or not current_in_client)]
        fn, s = rng.choice(crowded if crowded and (current_in_client or rng.random() < 0.6) else cands)
        obj["only_current"] = True
        obj["at"] = [fn, s["name_offset"]]
        obj["remove"] = remove and len(cands) == 1
        if shape == "non-call" and len(cands) == 1:
            # the other reference is in the defining module or in the current one: both are visited when remove is set
            obj["remove"] = (current_remove or rng.random() < 0.8) and (noncall_mod == 0 or "mod%d.py" % noncall_mod == fn)
    return obj


def gen_splice(rng):
    """a one-module straight-line host with one call site, `f(args)` or `v = f(args)`: the whole module after
    InlineMethod(remove=True) is compared with Splice.inline_host; host variables named like the function's
    parameters / locals exercise the renaming and the frame condition of C04_call_preserves"""
    k = rng.choice([1, 2, 2, 3])
    names = PARAMS[:k]
    ndef = min(rng.choice([0, 1, 1, 2]), k)
    params = [(n, None) for n in names[:k - ndef]] + [(n, str(50 + j)) for j, n in enumerate(names[k - ndef:])]
    local = rng.random() < 0.6
    returns = rng.random() < 0.6
    body = []
    if local:
        body.append("t = %s" % L.show_sum(gen_body_sum(rng, names)))
    body.append("print(%s)" % ", ".join(["100"] + names + (["t"] if local else [])))
    if rng.random() < 0.4:
        body.append("print(%s)" % L.show_sum(gen_body_sum(rng, names + (["t"] if local else []))))
    if returns:
        body.append("return %s" % L.show_sum(gen_body_sum(rng, names + (["t"] if local else []))))
    lines = ["%s = %d" % (v, HOSTVAL[v]) for v in HOSTV]
    cvars = rng.sample(names + ["t"], rng.choice([0, 1, 1, 2]))
    lines += ["%s = %d" % (c, 600 + j) for j, c in enumerate(cvars)]
    lines += ["", "", "def %s(%s):" % (FNAME, ", ".join(n if d is None else "%s=%s" % (n, d) for n, d in params))]
    lines += ["    " + b for b in body] + ["", ""]
    if rng.random() < 0.5:
        lines.append("print(%s)" % L.show_sum(gen_body_sum(rng, HOSTV)))
    pos, kws = gen_site(rng, params, 0)
    for c in cvars:
        if c in names and rng.random() < 0.5:        # identity binding of a colliding host variable
            j = names.index(c)
            ident = [(False, [("v", c)])]
            if j < len(pos):
                pos[j] = ident
            else:
                kws = [(n, ident if n == c else e) for n, e in kws]
    call = fmt_call(FNAME, pos, kws)
    if returns and rng.random() < 0.7:
        lines += ["v = %s" % call, "print(v)"]
    else:
        lines += [call]
    lines.append("print(%s)" % ", ".join(HOSTV + cvars))
    src = "\n".join(lines) + "\n"
    return {"kind": "method", "splice": True, "files": {"mod0.py": src, "main.py": "import mod0\n"}, "entry": "main.py",
            "remove": True, "only_current": False, "at": ["mod0.py", src.index("def %s(" % FNAME) + 4]}


def splice_case(I, obj, res, entries):
    """Gallina scase for a gen_splice object (None if something is outside the grammar)"""
    src = obj["files"]["mod0.py"]
    d = L.find_def(src, FNAME)
    node = d["node"]
    lines = src.split("\n")
    host_text = "\n".join(lines[:node.lineno - 1] + lines[node.end_lineno:])
    marked = re.sub(r"^v = %s\(.*\)$" % FNAME, "CALLSITE = 0", host_text, flags=re.M)
    marked = re.sub(r"^%s\(.*\)$" % FNAME, "print(987654321)", marked, flags=re.M)
    host = L.parse_program(marked)
    if host is None or len(entries) != 1:
        return None
    e, hdr, site = entries[0]
    ia = [i for i, st in enumerate(host) if st[0] == "assign" and st[1] == "CALLSITE"]
    ib = [i for i, st in enumerate(host) if st == ("print", [[(False, [("n", 987654321)])]])]
    if len(ia) + len(ib) != 1:
        return None
    k = (ia + ib)[0]
    pre, post, kind = host[:k], host[k + 1:], ("(KAssign %s)" % g_N(I("v")) if ia else "KStmt")
    body_lines = [l for l in e["body"].split("\n") if l.strip()]
    ret = None
    if body_lines and body_lines[-1].startswith("return "):
        ret = L.parse_sum(body_lines[-1][len("return "):])
        body_lines = body_lines[:-1]
        if ret is None:
            return None
    body = L.parse_program("\n".join(body_lines))
    exprs = {v: L.parse_sum(v) for _, v in hdr}
    # an expression statement (what is left of `return e` at a statement-level call) has no effect: dropped, as
    # in Splice.inline_site, provided it is an expression of the grammar
    kept_lines = []
    for line in res["files"]["mod0.py"].split("\n"):
        if line.strip() and not re.match(r"print\(|[A-Za-z_][A-Za-z_0-9]*\s*=(?!=)", line):
            if L.parse_sum(line) is not None:
                continue
        kept_lines.append(line)
    result = L.parse_program("\n".join(kept_lines))
    if body is None or any(x is None for x in exprs.values()):
        return None
    assigned = [st[1] for st in body if st[0] == "assign"]
    m = PREFIX.search(res["files"]["mod0.py"])
    pfx = m.group(0) if m else "__0__"
    ptbl = [(n, pfx + n) for n in dict.fromkeys([h for h, _ in hdr] + assigned)]
    gtbl = g_list(["(%s, %s)" % (g_N(I(v)), L.g_sum(I, x)) for v, x in exprs.items()])
    return "(mkS %s %s %s %s %s %s %s %s %s %s)" % (
        L.g_prog(I, pre), kind, L.g_prog(I, post), gtbl, L.g_pairs(I, hdr), L.g_prog(I, body),
        g_opt(None if ret is None else L.g_sum(I, ret)), g_list([g_N(I(n)) for n in site["host"]]), L.g_pairs(I, ptbl),
        g_opt(None if result is None else L.g_prog(I, result)))


MNAME = "get"


def gen_methodcall(rng, mkind=None):
    """a method `Store.get` inlined at call sites whose receivers are attribute chains of depth 1-3 (`s`, `app.store`,
    `app.hub.store`; one more level through `mod0.` in modules that import the module); every object on a chain
    has its own `base`, so a receiver cut short reads another object's attribute.
    mkind: "method" | "staticmethod" | "classmethod" (called through the class; "classmethod-instance": through an
    instance, a recorded defect); 0-3 decorators on the definition, which is followed by another method."""
    mkind = mkind or rng.choice(["method", "method", "method", "staticmethod", "classmethod"])
    via_instance = mkind == "classmethod-instance"
    if via_instance:
        mkind = "classmethod"
    k = rng.choice([1, 2, 2, 3])
    names = PARAMS[:k]
    ndef = min(rng.choice([0, 1, 1, 2]), k)
    params = [(n, None) for n in names[:k - ndef]] + [(n, str(50 + j)) for j, n in enumerate(names[k - ndef:])]
    returns = rng.random() < 0.5
    first = {"method": "self", "classmethod": "cls", "staticmethod": None}[mkind]
    base = {"method": "self.base", "classmethod": "cls.base", "staticmethod": "7"}[mkind]
    body = ["print(%s)" % ", ".join(["100", base] + names)]
    if rng.random() < 0.5:
        body.append("print(%s + %s)" % (base, L.show_sum(gen_body_sum(rng, names))))
    if returns:
        body.append("return %s * 2 + %s" % (base, names[0]))
    host_method = rng.random() < 0.3 and mkind == "method"
    sig = ", ".join(([first] if first else []) + [n if d is None else "%s=%s" % (n, d) for n, d in params])
    decos = ["@d%d" % j for j in rng.sample([1, 2, 3], rng.choice([0, 0, 1, 2]))]
    if mkind != "method":
        decos.insert(rng.randint(0, len(decos)), "@" + mkind)
    lines = DECOS.split("\n") + ["class Store:", "    base = 9", "", "    def __init__(self, base):", "        self.base = base", ""]
    lines += ["    " + d for d in decos] + ["    def %s(%s):" % (MNAME, sig)] + ["        " + b for b in body] + [""]
    # the definition is followed by another method
    lines += ["    def other(self):", "        print('other', self.base)", ""]
    if host_method:
        pos, kws = gen_site(rng, params, 8)
        lines += ["    def twice(self):"] + indent_block(
            site_statements(rng, 8, layout_call(rng, "self." + MNAME, pos, kws, rng.random() < 0.3), returns, False), "        ") + [""]
    lines += ["", "class Hub:", "    def __init__(self):", "        self.base = 2000", "        self.store = Store(20)", "", "",
              "class App:", "    def __init__(self):", "        self.base = 1000", "        self.store = Store(10)",
              "        self.hub = Hub()", "", "", "s = Store(5)", "app = App()"]
    lines += ["%s = %d" % (v, HOSTVAL[v]) for v in HOSTV]
    nmod = rng.choice([1, 2, 2, 3])
    nsites = rng.randint(1, 6)
    sites_of = [[] for _ in range(nmod)]
    for i in range(nsites):
        sites_of[rng.randrange(nmod)].append(i)
    files = {}
    for m in range(nmod):
        if m > 0:
            style = rng.choice(["from", "import"])
            lines = ["from %s import s, app, Store" % DEFMOD if style == "from" else "import %s" % DEFMOD]
            lines += ["%s = %d" % (v, HOSTVAL[v]) for v in HOSTV]
            prefix = "" if style == "from" else DEFMOD + "."
        else:
            prefix = ""
        for i in sites_of[m]:
            if mkind == "classmethod" and not via_instance:
                recvs = ["Store"]                       # a classmethod is called through the class
            elif mkind == "staticmethod":
                recvs = ["s", "app.store", "app.hub.store", "Store"]
            else:
                recvs = ["s", "app.store", "app.store", "app.hub.store", "app.hub.store"]
            recv = prefix + rng.choice(recvs)
            pos, kws = gen_site(rng, params, i)
            call = layout_call(rng, "%s.%s" % (recv, MNAME), pos, kws, rng.random() < 0.3)
            stmts = site_statements(rng, i, call, returns, False)
            if rng.random() < 0.25:
                lines += ["", "", "def g%d():" % i] + indent_block(stmts) + ["", "", "g%d()" % i]
            else:
                lines += stmts
        if m == 0 and host_method:
            lines += ["s.twice()", "app.hub.store.twice()"]
        if m == 0:
            lines += ["s.other()", "print('tag', getattr(Store.other, 'tag', 0), isinstance(Store.__dict__['other'], (staticmethod, classmethod)))"]
        files["mod%d.py" % m] = "\n".join(lines) + "\n"
    files["main.py"] = "".join("import mod%d\n" % m for m in range(nmod))
    obj = {"kind": "method", "method": True, "mkind": mkind, "fname": MNAME, "files": files, "entry": "main.py",
           "remove": rng.random() < 0.65, "only_current": False,
           "at": ["mod0.py", files["mod0.py"].index("def %s(" % MNAME) + 4]}
    if rng.random() < 0.15:
        cands = [(fn, x) for fn in sorted(files) if fn != "main.py" for x in obj_sites(obj, files[fn])]
        if cands:
            fn, x = rng.choice(cands)
            obj.update({"only_current": True, "at": [fn, x["name_offset"]], "remove": False})
    return obj


# ============================================================================= running rope
class Observer:
    """wraps _DefinitionGenerator._calculate_header / _calculate_definition for the duration of one refactoring"""

    def __init__(self):
        self.log = []

    def __enter__(self):
        from rope.refactor import inline
        self.inline = inline
        self.orig = inline._DefinitionGenerator._calculate_header
        self.orig_def = inline._DefinitionGenerator._calculate_definition
        self.fu = inline.functionutils
        self.orig_read = self.fu.CallInfo.read
        self.last_read = None
        obs = self

        def wrapped_read(primary, pyname, definition_info, code):
            ci = obs.orig_read(primary, pyname, definition_info, code)
            obs.last_read = {"args": list(ci.args), "implicit": bool(ci.implicit_arg), "constructor": bool(ci.constructor)}
            return ci

        def wrapped(gen, primary, pyname, call):
            obs.last_read = None
            header, tbi = obs.orig(gen, primary, pyname, call)
            obs.log.append({"gen": id(gen), "call": call, "header": header, "tbi": list(tbi),
                            "after": list(gen.definition_params.items()), "read": obs.last_read})
            return header, tbi

        def wrapped_def(gen, primary, pyname, call, host_vars, returns):
            n0 = len(obs.log)
            out = obs.orig_def(gen, primary, pyname, call, host_vars, returns)
            if len(obs.log) == n0 + 1:
                obs.log[-1].update({"definition": out[0], "returned": out[1], "returns": returns, "body": gen.body,
                                    "host_vars": sorted(host_vars)})
            return out

        inline._DefinitionGenerator._calculate_header = wrapped
        inline._DefinitionGenerator._calculate_definition = wrapped_def
        self.fu.CallInfo.read = staticmethod(wrapped_read)
        return self

    def __exit__(self, *a):
        self.fu.CallInfo.read = staticmethod(self.orig_read)
        self.inline._DefinitionGenerator._calculate_header = self.orig
        self.inline._DefinitionGenerator._calculate_definition = self.orig_def


def run_rope(obj):
    """performs the refactoring of obj on a scratch project; returns everything observed"""
    from rope.base.project import Project
    from rope.base import exceptions
    from rope.refactor import inline
    files = obj["files"]
    d = L.make_project(files)
    res = {"refused": None, "log": [], "inits": None, "kind": None}
    try:
        res["before"] = L.run_entry(d, obj["entry"])
        project = Project(d, ropefolder=None)
        try:
            res["order"] = [r.path for r in project.get_python_files()]
            resource = project.get_resource(obj["at"][0])
            with Observer() as obs:
                try:
                    ref = inline.create_inline(project, resource, obj["at"][1])
                    res["kind"] = ref.get_kind()
                    if res["kind"] == "method":
                        res["inits"] = {
                            "normal": (id(ref.normal_generator), list(ref.normal_generator.definition_params.items())),
                            "others": (id(ref.others_generator), list(ref.others_generator.definition_params.items()))}
                        changes = ref.get_changes(remove=obj["remove"], only_current=obj["only_current"])
                    elif res["kind"] == "variable":
                        changes = ref.get_changes(remove=obj["remove"], only_current=obj["only_current"])
                    else:
                        changes = ref.get_changes()
                    res["changed"] = sorted(r.path for r in changes.get_changed_resources())
                    project.do(changes)
                except exceptions.RefactoringError as e:
                    res["refused"] = ("RefactoringError", str(e))
                except Exception as e:  # a crash is counted separately from a refusal
                    res["refused"] = (type(e).__name__, str(e)[:200])
                    res["crash"] = traceback.format_exc()[-1500:]
                res["log"] = obs.log
        finally:
            project.close()
        res["files"] = L.read_files(d, sorted(files))
        res["after"] = L.run_entry(d, obj["entry"]) if res["refused"] is None else res["before"]
    finally:
        L.cleanup(d)
    return res


def oracle(obj, res, removed_name=None):
    """independent check of the result; returns None or a description of the failure"""
    if res["before"][0] != 0:
        return None  # the generated program itself does not run: not a case (counted by the caller)
    if star_site_processed(obj):
        # /repo f0e7f38: a processed call site that passes *args or **kwargs cannot be mapped: RefactoringError
        if res["refused"] is None:
            return "a call site passing *args / **kwargs was not refused"
        if res["refused"][0] != "RefactoringError":
            return "a call site passing *args / **kwargs: %s instead of a RefactoringError" % res["refused"][0]
    if res["refused"] is not None:
        # refused (or crashed before/while performing): the project must be exactly as it was
        for fn, src in res["files"].items():
            if src != obj["files"][fn]:
                return "%s raised but %s was modified" % (res["refused"][0], fn)
        if res["refused"][0] != "RefactoringError":
            return "crash: %s %s instead of a result or a RefactoringError" % (res["refused"][0], res["refused"][1][:80])
        return None
    for fn, src in res["files"].items():
        try:
            ast.parse(src)
        except SyntaxError as e:
            return "%s does not parse after the change: %s" % (fn, e.msg)
    if res["after"][0] != res["before"][0]:
        return "exit status %d -> %d (%s)" % (res["before"][0], res["after"][0], res["after"][2])
    if res["after"][1] != res["before"][1]:
        return "output changes: %r -> %r" % (first_diff(res["before"][1], res["after"][1]))
    if removed_name and obj["remove"]:
        for fn, src in res["files"].items():
            if removed_name in L.names_in(src):
                return "%s still references the removed definition %s" % (fn, removed_name)
    if removed_name and obj["kind"] == "method":
        # decorator lines: those of the removed definition go with it, all others stay where they were
        def decos(src, skip=None):
            return sorted((n.name, len(n.decorator_list)) for n in ast.walk(ast.parse(src))
                          if isinstance(n, (ast.FunctionDef, ast.ClassDef)) and n.name != skip and n.decorator_list)
        dm = DEFMOD + ".py"
        gone = removed_name if obj["remove"] else None
        if decos(obj["files"][dm], gone) != decos(res["files"][dm], gone):
            return "decorators of other definitions change: %r -> %r" % (decos(obj["files"][dm], gone), decos(res["files"][dm], gone))
    return None


def first_diff(a, b):
    la, lb = a.split("\n"), b.split("\n")
    for i in range(max(len(la), len(lb))):
        x = la[i] if i < len(la) else None
        y = lb[i] if i < len(lb) else None
        if x != y:
            return (x, y)
    return (None, None)


# ============================================================================= method stream: abstraction
def parse_header(header):
    out = []
    for line in header.split("\n"):
        if line:
            n, v = line.split(" = ", 1)
            out.append((n, v))
    return out


def expected_groups(obj, order, per_mod):
    """the call sites each generator handles, in processing order: mirrors the resource loop of
    InlineMethod.get_changes (with only_current the defining file is visited twice when it is also the
    original file and remove is set)"""
    dm = DEFMOD + ".py"
    if obj["only_current"]:
        resources = [obj["at"][0]] + ([dm] if obj["remove"] else [])
    else:
        resources = list(order)
    normal, others = [], []
    off = obj["at"][1]

    def aimed(sites):
        return [s for s in sites if s["offset"] <= off <= s["offset"] + len(s["text"])]

    for fn in resources:
        sites = per_mod.get(fn, [])
        if fn == dm:
            if obj["only_current"]:
                sites = aimed(sites) if obj["at"][0] == dm else []
            normal += sites
        else:
            if obj["only_current"] and obj["at"][0] == fn:
                sites = aimed(sites)
            others += sites
    return normal, others


STAR_MSG = "Cannot inline functions with list and keyword arguments."


def method_case(obj, res):
    """-> (Gallina term | None, problem | None, info)"""
    files = obj["files"]
    d = L.find_def(files[DEFMOD + ".py"], fname(obj))
    I = L.Intern()
    for n, _ in d["params"]:
        I(n)
    gparams = list(d["params"])
    if obj.get("mkind") == "classmethod" and gparams:
        # _get_definition_params: paramdict[first parameter] = name of the class.  The class name is presented to the
        # model as the default of the first parameter (the state is a name -> value map; `bind` never uses it because
        # the receiver is always passed)
        gparams[0] = (gparams[0][0], "Store")
    gdef = "(mkDef %s %s %s)" % (L.g_state(I, gparams), g_bool(d["star"]), g_bool(d["kwstar"]))
    info = {"nsites": 0, "params": d["params"]}
    if res["refused"] is not None:
        if res["refused"][1] == STAR_MSG:
            return "(mkM %s true [])" % gdef, None, info
        return None, None, info          # other refusals are outside this model
    per_mod = {fn: obj_sites(obj, src) for fn, src in files.items() if fn != obj["entry"]}
    for fn, ss in per_mod.items():
        for x in ss:
            x["module"] = fn
    normal, others = expected_groups(obj, res["order"], per_mod)
    groups = []
    for key, sites in (("normal", normal), ("others", others)):
        gid, init = res["inits"][key]
        obs = [e for e in res["log"] if e["gen"] == gid]
        if [e["call"] for e in obs] != [s["text"] for s in sites]:
            return None, "call sites seen by the %s generator %r differ from the sites in the sources %r" % (
                key, [e["call"] for e in obs], [s["text"] for s in sites]), info
        gs = []
        for s, e in zip(sites, obs):
            hdr = parse_header(e["header"])
            if [n for n, _ in hdr] != e["tbi"]:
                return None, "to_be_inlined %r is not the list of header names %r" % (e["tbi"], hdr), info
            pb = None if (s["star"] or s["kwstar"]) else L.py_bind(d["params"], s["args"], s["kws"])
            gs.append("(mkSite (mkCall %s %s %s) %s %s %s)" % (
                g_list([g_N(I(a)) for a in s["args"]]), L.g_pairs(I, s["kws"]), g_bool(s["star"] or s["kwstar"]),
                L.g_pairs(I, hdr), L.g_state(I, e["after"]), g_opt(None if pb is None else L.g_pairs(I, pb))))
            info["nsites"] += 1
            info.setdefault("entries", []).append((e, hdr, s))
            if "host_vars" in e:
                s["host"] = L.host_scope_names(files[s["module"]], s["lineno"])
                if s["host"] != e["host_vars"]:
                    return None, "names of the scope of the call site %s: rope %r, CPython symtable %r" % (
                        s["text"], sorted(set(e["host_vars"]) - set(s["host"] or [])), sorted(set(s["host"] or []) - set(e["host_vars"]))), info
            if e.get("read") and not (s["star"] or s["kwstar"]) and not e["read"]["constructor"]:
                pos_src = s["args"][1:] if (obj.get("method") and obj.get("mkind") != "staticmethod") else s["args"]
                info.setdefault("rcases", []).append("(mkR %s %s %s %s)" % (
                    g_text(s["head"]), g_bool(e["read"]["implicit"]), g_list([g_text(a) for a in pos_src]),
                    g_list([g_text(a) for a in e["read"]["args"]])))
        groups.append("(mkGroup %s %s)" % (L.g_state(I, init), g_list(gs)))
    info["dcases"] = definition_cases(I, info.get("entries", []))
    if obj.get("splice"):
        info["scase"] = splice_case(I, obj, res, info.get("entries", []))
    return "(mkM %s false %s)" % (gdef, g_list(groups)), None, info


PREFIX = re.compile(r"__\d+__")


def body_program(text):
    """function body (dedented source) -> program of Expr.v, `return e` as a last print; None outside the grammar"""
    lines = []
    for line in text.split("\n"):
        if not line.strip():
            continue
        m = re.match(r"return\s+(.*)$", line)
        lines.append("print(%s)" % m.group(1) if m else line)
    return L.parse_program("\n".join(lines))


def definition_program(e):
    """the text _calculate_definition produced for a site -> program (`__N__x` is an ordinary identifier)"""
    lines = []
    for line in e["definition"].split("\n"):
        if not line.strip():
            continue
        if re.match(r"print\(|[A-Za-z_][A-Za-z_0-9]*\s*=(?!=)", line):
            lines.append(line)
        else:
            lines.append("print(%s)" % line)          # what is left of `return e` at a statement-level call
    if e["returns"] and e["returned"] is not None:
        lines.append("print(%s)" % e["returned"])
    return L.parse_program("\n".join(lines))


def definition_cases(I, entries):
    """[(Gallina dcase, [entry...])] grouped by generator body; sites outside the grammar are skipped"""
    by_body = {}
    for e, hdr, site in entries:
        if "definition" in e:
            by_body.setdefault(e["body"], []).append((e, hdr, site))
    out = []
    for body_text, es in by_body.items():
        body = body_program(body_text)
        if body is None:
            continue
        assigned = [st[1] for st in body if st[0] == "assign"]
        tbl, sites, kept = {}, [], []
        for e, hdr, site in es:
            exprs = {v: L.parse_sum(v) for _, v in hdr}
            result = definition_program(e)
            if any(x is None for x in exprs.values()) or result is None:
                continue
            tbl.update(exprs)
            # the spelling of the prefixed guest names: "__N__" + name, N read off the produced text (0 if none)
            m = PREFIX.search(e["definition"] + (e["returned"] or ""))
            pfx = m.group(0) if m else "__0__"
            ptbl = [(n, pfx + n) for n in dict.fromkeys([h for h, _ in hdr] + assigned)]
            sites.append("(mkD %s %s %s (Some %s))" % (
                L.g_pairs(I, hdr), g_list([g_N(I(n)) for n in site["host"]]), L.g_pairs(I, ptbl), L.g_prog(I, result)))
            kept.append(e)
        if sites:
            gtbl = g_list(["(%s, %s)" % (g_N(I(v)), L.g_sum(I, x)) for v, x in tbl.items()])
            out.append(("(mkDC %s %s %s)" % (gtbl, L.g_prog(I, body), g_list(sites)), kept))
    return out


def prefix_problem(e, hdr):
    """the names rope prefixed in the definition text must be names the guest module defines"""
    guest = {n for n, _ in hdr} | set(L.bound_names(e["body"]) or [])
    text = e["definition"] + "\n" + (e["returned"] or "")
    pref = set(re.findall(r"(__\d+__)([A-Za-z_][A-Za-z_0-9]*)", text))
    if len({p for p, _ in pref}) > 1:
        return "two different prefixes in one definition"
    bad = sorted(n for _, n in pref if n not in guest)
    return ("prefixed names %r are not defined by the inlined function" % bad) if bad else None


def alias_shape(obj, order=None):
    """within the sites handled by one generator (defining module; all other modules in processing order) a
    later site omits a defaulted parameter that an earlier site passed with a text other than the default"""
    files = obj["files"]
    d = L.find_def(files[DEFMOD + ".py"], fname(obj))
    if d is None or obj.get("only_current"):
        return False
    names = [n for n, _ in d["params"]]
    dflt = dict(d["params"])
    mods = [fn for fn in (order or sorted(files)) if fn in files and fn != obj["entry"]]
    per_mod = {fn: obj_sites(obj, files[fn]) for fn in mods}
    groups = [per_mod.get(DEFMOD + ".py", []), [s for fn in mods if fn != DEFMOD + ".py" for s in per_mod[fn]]]
    for g in groups:
        passed = {}
        for s in g:
            given = dict(zip(names, s["args"]))
            given.update({k: v for k, v in s["kws"] if k in names})
            for n in names:
                if n not in given and n in passed and dflt.get(n) is not None and passed[n] != dflt[n]:
                    return True
            passed.update(given)
    return False


def guest_shapes(obj):
    """{"capture", "reassign", "precedence"}: structural, from the sources"""
    files = obj["files"]
    src = files[DEFMOD + ".py"]
    d = L.find_def(src, fname(obj))
    if d is None:
        return set()
    node = d["node"]
    body_text = "\n".join(l[4:] if l.startswith("    ") else l for l in
                          "\n".join(src.split("\n")[node.body[0].lineno - 1:node.end_lineno]).split("\n"))
    body = body_program(body_text)
    if body is None:
        # statements outside the grammar (calls of helpers, attribute access, blocks) are skipped, the others kept
        body = [st for line in body_text.split("\n") for st in (body_program(line) or [])]
    names = [n for n, _ in d["params"]]
    assigned = {st[1] for st in body if st[0] == "assign"}
    guest = set(names) | assigned
    shapes = set()
    if assigned & set(names):
        shapes.add("reassign")
    for fn, msrc in files.items():
        if fn == obj["entry"]:
            continue
        for s in obj_sites(obj, msrc):
            b = L.py_bind(d["params"], s["args"], s["kws"]) if not (s["star"] or s["kwstar"]) else None
            for p, v in b or []:
                if v == p:
                    continue
                e = L.parse_sum(v)
                if e is None:
                    continue
                if set(L.vars_sum(e)) & guest:
                    shapes.add("capture")
                if any(not L.prec_ok(p, e, x) for st in body for x in L.stmt_sums(st)):
                    shapes.add("precedence")
    return shapes


def body_node(obj):
    d = L.find_def(obj["files"][DEFMOD + ".py"], fname(obj))
    return d["node"] if d else None


def nested_return_shape(obj):
    """the body contains a nested function (def or lambda excluded) with a return statement"""
    node = body_node(obj)
    if node is None:
        return False
    return any(isinstance(n, ast.FunctionDef) and n is not node and any(isinstance(r, ast.Return) for r in ast.walk(n))
               for n in ast.walk(node))


def import_renamed_shape(obj):
    """the body binds a name by an import without `as`"""
    node = body_node(obj)
    if node is None:
        return False
    return any(isinstance(n, (ast.Import, ast.ImportFrom)) and any(a.asname is None for a in n.names) for n in ast.walk(node))


def classmethod_instance_shape(obj):
    """a classmethod is called through something other than the class name"""
    if obj.get("mkind") != "classmethod":
        return False
    return any(x["recv"].split(".")[-1] != "Store" for fn, src in obj["files"].items() if fn != obj["entry"]
               for x in obj_sites(obj, src))


def star_site_processed(obj):
    """some call site that the refactoring processes passes *args or **kwargs (inline parameter processes every
    call; inline method with only_current only the aimed one)"""
    if obj.get("kind") not in ("method", "parameter") or DEFMOD + ".py" not in obj["files"]:
        return False
    try:
        per = {fn: obj_sites(obj, src) for fn, src in obj["files"].items() if fn != obj["entry"]}
    except SyntaxError:
        return False
    if obj["kind"] == "method" and obj.get("only_current"):
        off = obj["at"][1]
        return any((x["star"] or x["kwstar"]) and x["offset"] <= off <= x["offset"] + len(x["text"])
                   for x in per.get(obj["at"][0], []))
    return any(x["star"] or x["kwstar"] for ss in per.values() for x in ss)


def star_call_shape(obj):
    return any(s["star"] or s["kwstar"] for fn, src in obj["files"].items() if fn != obj["entry"]
               for s in obj_sites(obj, src))


def return_not_last_shape(obj):
    """the body contains a return that is not its last statement and some call site does not use the value"""
    d = L.find_def(obj["files"][DEFMOD + ".py"], fname(obj))
    if d is None:
        return False
    node = d["node"]
    rets = [n for n in ast.walk(node) if isinstance(n, ast.Return)]
    if not any(r is not node.body[-1] for r in rets):
        return False
    for fn, src in obj["files"].items():
        if fn == obj["entry"]:
            continue
        for n in ast.walk(ast.parse(src)):
            if isinstance(n, ast.Expr) and isinstance(n.value, ast.Call):
                f = n.value.func
                if (isinstance(f, ast.Name) and f.id == fname(obj)) or (isinstance(f, ast.Attribute) and f.attr == fname(obj)):
                    return True
    return False


def nochange_shape(obj):
    """remove=False, the defining module is visited and none of its call sites is rewritten"""
    if obj.get("remove"):
        return False
    dm = DEFMOD + ".py"
    if obj.get("only_current"):
        return False
    return not obj_sites(obj, obj["files"][dm])


def import_only_shape(obj):
    """remove=True and a module in which no occurrence is rewritten imports the inlined name by name"""
    if not obj.get("remove"):
        return False
    name = fname(obj) if obj["kind"] == "method" else obj.get("name")
    for fn, src in obj["files"].items():
        if fn in (obj["entry"], DEFMOD + ".py"):
            continue
        tree = ast.parse(src)
        imports_name = any(isinstance(n, ast.ImportFrom) and n.module == DEFMOD and any(a.name == name for a in n.names)
                           for n in ast.walk(tree))
        if obj["kind"] == "method":
            handled = bool(obj_sites(obj, src)) and not (obj.get("only_current") and obj["at"][0] != fn)
        else:
            handled = any((isinstance(n, ast.Name) and n.id == name and isinstance(n.ctx, ast.Load))
                          or (isinstance(n, ast.Attribute) and n.attr == name) for n in ast.walk(tree))
        if imports_name and not handled:
            return True
    return False


# ============================================================================= variable stream
VPOOL = ["b", "c", "d", "e"]
VX = "a"


def gen_vsum(rng, names, depth=0, nterms=None):
    s = []
    for i in range(nterms or rng.choice([1, 1, 2, 2, 3])):
        p = []
        for _ in range(rng.choice([1, 1, 2, 3])):
            k = rng.random()
            if k < 0.55:
                p.append(("v", rng.choice(names)))
            elif k < 0.85 or depth >= 2:
                p.append(("n", rng.randint(0, 9)))
            else:
                p.append(("p", gen_vsum(rng, names, depth + 1)))
        s.append((i > 0 and rng.random() < 0.4, p))
    return s


def gen_variable(rng, client=None, only_current=False):
    """shapes are drawn with a bias and classified afterwards by the side conditions (Coq + Python mirror);
    client: None | "plain" | "import-capture": a second module that reads the variable"""
    mode = rng.random()
    prog = [("assign", v, [(False, [("n", 3 + i)])]) for i, v in enumerate(VPOOL)]
    for _ in range(rng.randint(0, 2)):
        prog.append(rng.choice([("assign", rng.choice(VPOOL), gen_vsum(rng, VPOOL)), ("print", [gen_vsum(rng, VPOOL)])]))
    rhs = gen_vsum(rng, VPOOL, nterms=1 if mode < 0.45 else None)
    prog.append(("assign", VX, rhs))
    deps = set(L.vars_sum(rhs))
    stable = mode < 0.75
    for _ in range(rng.randint(1, 5)):
        k = rng.random()
        if k < 0.55:
            prog.append(("print", [gen_vsum(rng, VPOOL + [VX, VX]) for _ in range(rng.randint(1, 2))]))
        elif k < 0.9:
            targets = [v for v in VPOOL if not (stable and v in deps)]
            if targets:
                prog.append(("assign", rng.choice(targets), gen_vsum(rng, VPOOL + [VX])))
        elif rng.random() < 0.5:
            prog.append(("assign", VX, gen_vsum(rng, VPOOL)))     # second assignment: refusal
    prog.append(("print", [[(False, [("v", v)])] for v in VPOOL]))
    src = L.show_program(prog, tight=rng.random() < 0.2)
    obj = {"kind": "variable", "files": {"mod0.py": src}, "entry": "mod0.py", "remove": rng.random() < 0.75,
           "only_current": False, "at": ["mod0.py", src.index("\n%s = " % VX) + 1], "name": VX}
    if only_current:
        reads = [m.start() for m in re.finditer(r"\b%s\b" % VX, src) if m.start() > obj["at"][1] + 2]
        if reads:
            obj.update({"only_current": True, "remove": False, "at": ["mod0.py", rng.choice(reads)]})
        return obj
    if client:
        # a second module reads the variable: imports are added there for the names of the right-hand side
        style = rng.choice(["from", "import"])
        ref = VX if style == "from" else "%s.%s" % (DEFMOD, VX)
        lines = ["from %s import %s" % (DEFMOD, VX) if style == "from" else "import %s" % DEFMOD]
        lines.append("w = 70")
        if client == "import-capture" and deps:
            lines.append("%s = 71" % rng.choice(sorted(deps)))
        e = L.show_sum(gen_vsum(rng, ["w", "QQ", "QQ"], nterms=rng.choice([1, 2])))
        if "QQ" not in e and rng.random() < 0.8:
            e += " + QQ"
        lines.append("print(%s)" % e.replace("QQ", ref))
        obj["files"]["mod1.py"] = "\n".join(lines) + "\n"
        obj["files"]["main.py"] = "import mod0\nimport mod1\n"
        obj["entry"] = "main.py"
    return obj


def gen_variable_early(rng):
    """a once-assigned module-level variable that is read, textually BEFORE its assignment, in functions defined
    above it (called after it); the value is a single product, so every read position is safe; oracle only"""
    prog = ["%s = %d" % (v, 3 + i) for i, v in enumerate(VPOOL)]
    nf = rng.choice([1, 1, 2])
    for j in range(nf):
        e = L.show_sum(gen_vsum(rng, VPOOL + [VX, VX, "k"], nterms=rng.choice([1, 2])))
        if VX not in re.findall(r"[a-z]+", e):
            e += " + " + VX
        prog += ["", "", "def early%d(k):" % j, "    return %s" % e] if rng.random() < 0.6 else \
                ["", "", "def early%d(k):" % j, "    print(%s)" % e, "    return k"]
    prog += ["", ""]
    rhs = L.show_sum(gen_vsum(rng, VPOOL, nterms=1))
    if rng.random() < 0.3:
        rhs = str(rng.randint(10, 999))
    prog.append("%s = %s" % (VX, rhs))
    for j in range(nf):
        prog.append("print(early%d(%d))" % (j, 2 + j))
    if rng.random() < 0.6:
        prog.append("print(%s)" % L.show_sum(gen_vsum(rng, VPOOL + [VX], nterms=2)))
    prog.append("print(%s)" % ", ".join(VPOOL))
    src = "\n".join(prog) + "\n"
    return {"kind": "variable", "early": True, "files": {"mod0.py": src}, "entry": "mod0.py", "remove": rng.random() < 0.75,
            "only_current": False, "at": ["mod0.py", src.index("\n%s = " % VX) + 1], "name": VX}


def client_reads(obj):
    """the print expressions of the client module with the imported variable written as a plain name"""
    src = obj["files"].get("mod1.py")
    if src is None:
        return []
    prog = L.parse_program("\n".join(l.replace("%s.%s" % (DEFMOD, obj["name"]), obj["name"]) for l in src.split("\n")
                                     if not l.startswith(("import ", "from "))))
    return prog or []


def import_capture_shape(obj):
    """a client module binds at module level a name that the inlined code reads as a global of the defining module"""
    files = obj["files"]
    dsrc = files[DEFMOD + ".py"]
    if obj["kind"] == "variable":
        prog = L.parse_program(dsrc) or []
        sp = L.split_def(obj["name"], prog)
        free = set(L.vars_sum(sp[1])) if sp else set()
    else:
        d = L.find_def(dsrc, fname(obj))
        if d is None:
            return False
        bound = {n for n, _ in d["params"]}
        free = set()
        for st in d["node"].body:
            for n in ast.walk(st):
                if isinstance(n, ast.Name):
                    (bound if isinstance(n.ctx, ast.Store) else free).add(n.id)
        free -= bound | {"print"}
    for fn, src in files.items():
        if fn in (obj["entry"], DEFMOD + ".py"):
            continue
        assigned = {t.id for n in ast.parse(src).body if isinstance(n, ast.Assign) for t in n.targets if isinstance(t, ast.Name)}
        if obj["kind"] == "method":
            touched = bool(obj_sites(obj, src)) and not (obj.get("only_current") and obj["at"][0] != fn)
        else:
            touched = any((isinstance(n, ast.Name) and n.id == obj["name"]) or (isinstance(n, ast.Attribute) and n.attr == obj["name"])
                          for n in ast.walk(ast.parse(src)) if not isinstance(n, ast.alias))
        if assigned & free and touched:
            return True
    return False


def variable_case(obj, res):
    prog = L.parse_program(obj["files"]["mod0.py"])
    I = L.Intern()
    I(obj["name"])
    result = None
    problem = None
    if res["refused"] is None:
        result = L.parse_program(res["files"]["mod0.py"])
        if result is None:
            problem = "module after the change is outside the modelled grammar: %r" % res["files"]["mod0.py"]
    elif res["refused"][0] != "RefactoringError":
        problem = "crash %s" % (res["refused"],)
    term = "(mkV %s %s %s %s)" % (g_N(I(obj["name"])), g_bool(obj["remove"]), L.g_prog(I, prog),
                                  g_opt(None if result is None else L.g_prog(I, result)))
    return term, problem, prog


def variable_signature(obj):
    prog = L.parse_program(obj["files"]["mod0.py"])
    if prog is None:
        return None
    once, deps, prec = L.conds(obj["name"], prog + client_reads(obj))
    if once and not deps:
        return SIG_VDEP
    if once and not prec:
        return SIG_VPREC
    return None


# ============================================================================= parameter stream (oracle only)
def gen_parameter(rng, shape=None):
    if shape:        # a call site passing *args / **kwargs: the default cannot be placed (recorded finding / refusal)
        obj = gen_method(rng, shape=shape)
        obj["shape"] = shape
    else:
        obj = gen_methodcall(rng) if rng.random() < 0.4 else gen_method(rng, rich=rng.random() < 0.3)
    src = obj["files"]["mod0.py"]
    d = L.find_def(src, fname(obj))
    with_default = [n for n, dv in d["params"] if dv is not None]
    if not with_default:
        return None
    n = rng.choice(with_default)
    m = re.compile(r"[(,]\s*(%s)\b" % n).search(src, src.index("def %s(" % fname(obj)))
    obj.update({"kind": "parameter", "at": ["mod0.py", m.start(1)], "remove": False, "only_current": False, "name": n})
    return obj


# ============================================================================= signatures / replay
def signature(obj):
    """structural shape of the input, confirmed by the class of the observed failure"""
    kind = obj.get("kind")
    obs = obj.get("observed") or ""
    if obj.get("mismatch"):
        return None          # a known finding is accepted only when rope's result is what the model predicts
    if kind in ("variable", "method") and "cannot import name" in obs and "cannot import name '__" not in obs \
            and import_only_shape(obj):
        return SIG_IMPORT_ONLY
    if kind in ("variable", "method") and (obs.startswith("output changes") or obs.startswith("exit status")) \
            and "cannot import name" not in obs and import_capture_shape(obj):
        return SIG_IMPORT_CAPTURE
    if kind == "variable":
        return variable_signature(obj) if obs.startswith("output changes") else None
    if kind == "parameter":
        return None
    if kind == "method":
        # (the shapes alias_shape / nochange_shape belong to defects fixed in /repo 45cf20a, 8da5e8e: they are not
        #  accepted as known any more; their replays are in corpus/C04)
        if import_renamed_shape(obj) and ("ModuleNotFoundError: No module named '__" in obs or "cannot import name '__" in obs):
            return SIG_IMPORT_RENAMED
        if nested_return_shape(obj) and (obs.startswith("output changes") or obs.startswith("exit status")):
            return SIG_NESTED_RETURN
        if classmethod_instance_shape(obj) and obs.startswith("output changes"):
            return SIG_CLASSMETHOD_INSTANCE
        # (call sites passing *args / **kwargs: fixed in /repo f0e7f38, they must be refused -- see oracle)
        if return_not_last_shape(obj) and (obs.startswith("output changes") or "does not parse" in obs or "exit status" in obs):
            return SIG_RETURN_NOT_LAST
        if obs.startswith("output changes") or "NameError" in obs or "UnboundLocalError" in obs:
            shapes = guest_shapes(obj)
            model = obj.get("model")
            if model and model["sites"] and model["compared"] == model["sites"] and not model["outside_domain"]:
                # every call site was compared with Rename.calculate_definition and lies inside the domain of
                # C04_definition_preserves: the model predicts NO behaviour change, so this is not one of these
                # (kept: "reassign" -- a reassigned parameter bound to a host variable of the same name has no header
                #  line; inside a host FUNCTION the inlined assignment makes the name local (UnboundLocalError), a
                #  scoping effect the flat environment of the model does not have)
                shapes &= {"reassign"}
            for key, sig in (("capture", SIG_CAPTURE), ("reassign", SIG_REASSIGN), ("precedence", SIG_MPREC)):
                if key in shapes and (key != "precedence" or obs.startswith("output changes")):
                    return sig
    return None


def replay(ctx, obj):
    """True = the property fails on this input on the current tree"""
    res = run_rope(obj)
    if res["before"][0] != 0:
        return False
    return oracle(obj, res, removed_name=fname(obj) if obj["kind"] == "method" else None) is not None


# ============================================================================= checking
HEADER = ("From Coq Require Import List NArith ZArith Bool.\nImport ListNotations.\n"
          "From RopeVerif.C04 Require Import Inline Expr Call Rename Splice Receiver Runner.\n")

VARIANTS = {
    "aliased": "REGRESSION: self.definition_params is updated in place by every call site (model variant alias=true)",
    "copied": "the parameter dict is copied per call site (model variant alias=false, the expected behaviour; "
              "C04_state_invariant / C04_sites_independent / C04_sites_bind apply)"}
MCODES = {1: "header bindings differ from the model", 2: "generator state after the site differs from the model",
          3: "specification bind differs from inspect.signature.bind", 4: "refusal differs from the model",
          5: "initial generator state differs from the model"}


def report(ctx, obj, res, mismatch, ofail):
    replay_obj = {k: obj[k] for k in ("kind", "files", "entry", "remove", "only_current", "at", "name", "order", "method", "mkind", "fname", "shape", "early", "splice") if k in obj}
    replay_obj["result"] = res.get("files")
    if res.get("model"):
        replay_obj["model"] = res["model"]
    if res.get("refused"):
        replay_obj["refused"] = list(res["refused"])
    if ofail:
        replay_obj["observed"] = ofail
        if mismatch:
            replay_obj["mismatch"] = mismatch
        ctx.violation(replay_obj, "C04 %s: %s%s" % (obj["kind"], ofail, (" [" + mismatch + "]") if mismatch else ""))
    else:
        replay_obj["mismatch"] = mismatch
        replay_obj["broken"] = ("correspondence RopeVerif.C04.Runner.%s between coq/C04 and rope/refactor/inline.py: the "
                                "theorems of coq/Props/C04.v no longer speak about the code"
                                % ("run_mcase" if obj["kind"] == "method" else "run_vcase"))
        ctx.violation(replay_obj, "C04 %s: %s (the oracle passes on this input)" % (obj["kind"], mismatch), no_input=True)


def check_methods(ctx, objs):
    runs = []
    for obj in objs:
        res = run_rope(obj)
        obj["order"] = res.get("order")
        runs.append(res)
    terms, idx_of, all_infos = [], [], {}
    for i, (obj, res) in enumerate(zip(objs, runs)):
        res["oracle"] = oracle(obj, res, removed_name=fname(obj))
        if res["before"][0] != 0:
            ctx.count("method:generated program does not run (skipped)")
            continue
        try:
            term, problem, info = method_case(obj, res)
        except Exception:
            term, problem, info = None, "abstraction failed: " + traceback.format_exc()[-400:], {}
        all_infos[i] = info
        ctx.count("method:stream=%s" % (obj.get("shape") or "main"))
        if res["refused"] is not None:
            ctx.count("method:refused:%s:%s" % (res["refused"][0], res["refused"][1][:60]))
        else:
            ctx.count("method:inlined")
        ctx.count("method:remove=%s,only_current=%s" % (obj["remove"], obj["only_current"]))
        ctx.count("method:modules=%d" % (len(obj["files"]) - 1))
        ctx.count("method:sites=%d" % info.get("nsites", 0))
        canon = json.dumps(obj["files"], sort_keys=True) + repr((obj["remove"], obj["only_current"], obj["at"]))
        ctx.case(("method", canon), nontrivial=info.get("nsites", 0) >= 2)
        if problem:
            report(ctx, obj, res, "model/observation problem: " + problem, res["oracle"])
        elif term is not None:
            terms.append(term)
            idx_of.append(i)
            ctx.traces += info.get("nsites", 0)
        elif res["oracle"]:
            report(ctx, obj, res, None, res["oracle"])
    mt, mf, flags = {}, {}, {}
    shard = 150
    bodies = [HEADER + "Definition cases : list mcase := %s.\nEval vm_compute in (mismatches true cases).\n"
              "Eval vm_compute in (mismatches false cases).\nEval vm_compute in (all_mflags cases).\n"
              % g_list(terms[s:s + shard]).replace("; (mkM", ";\n (mkM") for s in range(0, len(terms), shard)]
    # definition-level cases (parameters inlined into the body), one list over all projects
    dterms, downer = [], []
    for i in idx_of:
        for term, kept in all_infos[i].get("dcases", []):
            dterms.append(term)
            downer.extend([i] * len(kept))
    dshard = 150
    dbodies = [HEADER + "Definition dcases : list dcase := %s.\nEval vm_compute in (dresults dcases).\n"
               % g_list(dterms[s:s + dshard]).replace("; (mkDC", ";\n (mkDC") for s in range(0, len(dterms), dshard)]
    sterms, sowner = [], []
    for i in idx_of:
        if all_infos[i].get("scase"):
            sterms.append(all_infos[i]["scase"])
            sowner.append(i)
        elif objs[i].get("splice"):
            ctx.count("method:splice cases outside the modelled grammar (oracle only)")
    scodes = {}
    if sterms:
        out = ctx.coq_file(HEADER + "Definition scases : list scase := %s.\nEval vm_compute in (sresults scases).\n"
                           % g_list(sterms).replace("; (mkS", ";\n (mkS"))
        for (k, c) in ctx.parse_pairs(out)[0]:
            scodes[sowner[k]] = c
    ctx.count("method:whole host modules compared with Splice.inline_host", len(sterms))
    ctx.count("method:host modules in the domain of C04_call_preserves", sum(1 for c in scodes.values() if c // 10 == 3))
    rterms, rowner = [], []
    for i in idx_of:
        for t in all_infos[i].get("rcases", []):
            rterms.append(t)
            rowner.append(i)
    rshard = 400
    rbodies = [HEADER + "Definition rcases : list rcase := %s.\nEval vm_compute in (rresults rcases).\n"
               % g_list(rterms[s:s + rshard]).replace("; (mkR", ";\n (mkR") for s in range(0, len(rterms), rshard)]
    outs = ctx.coq_files_parallel(bodies + dbodies + rbodies) if bodies else []
    rbad = set()
    for si, out in enumerate(outs[len(bodies) + len(dbodies):]):
        for (k, c) in ctx.parse_pairs(out)[0]:
            rbad.add(rowner[si * rshard + k])
    outs = outs[:len(bodies) + len(dbodies)]
    ctx.count("method:CallInfo.read argument lists compared with Receiver.read_args", len(rterms))
    for si, out in enumerate(outs[:len(bodies)]):
        pairs = ctx.parse_pairs(out)
        assert len(pairs) == 3, out[-2000:]
        for tgt, pl in zip((mt, mf, flags), pairs):
            for (k, c) in pl:
                tgt[idx_of[si * shard + k]] = c
    dcodes = {}
    pos = 0
    for out in outs[len(bodies):]:
        pairs = ctx.parse_pairs(out)
        for (k, c) in pairs[0]:
            dcodes.setdefault(downer[pos + k], []).append(c)
        pos += len(pairs[0])
    assert pos == len(downer), (pos, len(downer))
    # The code is expected to implement the copying variant (alias=false; /repo 45cf20a): every case is compared
    # with it.  The aliased variant is evaluated only to name the regression when the comparison fails.
    matches_alias_only = [i for i in idx_of if i not in mt and i in mf]
    variant = "aliased" if matches_alias_only else "copied"
    ctx.extra["definition_params_variant"] = VARIANTS[variant]
    ctx.count("method:definition_params variant implemented by the code: " + variant)
    for i in idx_of:
        obj, res = objs[i], runs[i]
        fl = flags.get(i, 0)
        code = mf.get(i, 0)
        if code and i not in mt:
            regress = " (the code matches the ALIASED variant: definition_params is shared between call sites again)"
        else:
            regress = ""
        if fl & 1:
            ctx.count("method:all sites well-formed (domain of C04_sites_bind)")
            if not fl & 2:
                ctx.count("method:a site relies on a default after an earlier site passed it (C04_sites_independent exercised)")
        if fl & 4:
            ctx.count("method:the two variants differ in a header")
        dc = dcodes.get(i, [])
        nsites = all_infos[i].get("nsites", 0)
        ctx.count("method:definition texts compared with Rename.calculate_definition", len(dc))
        ctx.count("method:definition texts outside the modelled grammar (oracle only)", nsites - len(dc))
        ctx.count("method:sites in the domain of C04_definition_preserves", sum(1 for c in dc if (c // 10) % 2 == 1))
        ctx.count("method:sites whose guest names are renamed (conflict with the host scope)", sum(1 for c in dc if c // 20 == 1))
        ctx.count("method:renamed sites in the domain of C04_definition_preserves", sum(1 for c in dc if c // 10 == 3))
        res["model"] = {"compared": len(dc), "sites": nsites, "outside_domain": sum(1 for c in dc if (c // 10) % 2 == 0)}
        pp = [x for x in (prefix_problem(e, hdr) for e, hdr, _ in all_infos[i].get("entries", []) if "definition" in e) if x]
        if i in rbad:
            report(ctx, obj, res, "CallInfo.read: argument list (implicit receiver) differs from Receiver.read_args", res["oracle"])
        elif scodes.get(i, 0) % 10:
            report(ctx, obj, res, "module after the change differs from Splice.inline_host", res["oracle"])
        elif scodes.get(i, 0) // 10 == 3 and res["oracle"]:
            report(ctx, obj, res, "inside the domain of C04_call_preserves but the behaviour changes: the reference "
                                  "semantics of Splice.v does not describe Python", res["oracle"])
        elif code:
            report(ctx, obj, res, MCODES.get(code, "code %d" % code) + regress, res["oracle"])
        elif any(c % 10 for c in dc):
            report(ctx, obj, res, "definition text of a call site differs from Rename.calculate_definition", res["oracle"])
        elif pp:
            report(ctx, obj, res, "renaming on name conflict: " + pp[0], res["oracle"])
        elif res["oracle"]:
            report(ctx, obj, res, None, res["oracle"])
        if ctx.too_many(40):
            break
    for obj, res in list(zip(objs, runs))[1:3]:
        ctx.sample({"kind": "method", "files": obj["files"], "remove": obj["remove"], "only_current": obj["only_current"],
                    "result": res.get("files"), "sites": [(e["call"], e["header"]) for e in res["log"]]})
    return variant


def check_variables(ctx, objs):
    runs = [run_rope(o) for o in objs]
    terms, idx_of, progs = [], [], {}
    for i, (obj, res) in enumerate(zip(objs, runs)):
        res["oracle"] = oracle(obj, res)
        if res["before"][0] != 0:
            ctx.count("variable:generated program does not run (skipped)")
            continue
        if obj.get("early"):
            # not modelled (functions above the assignment read the variable): oracle + every read is replaced and
            # exactly the assignment line goes (or stays)
            ctx.count("variable:read textually before the assignment (oracle only)")
            ctx.case(("variable-early", obj["files"]["mod0.py"], obj["remove"]), nontrivial=res["refused"] is None)
            ofail = res["oracle"]
            if ofail is None and res["refused"] is None:
                na = len(re.findall(r"\b%s\b" % obj["name"], res["files"]["mod0.py"]))
                if na != (0 if obj["remove"] else 1):
                    ofail = "%d occurrences of the name are left (remove=%s)" % (na, obj["remove"])
                elif len(res["files"]["mod0.py"].split("\n")) != len(obj["files"]["mod0.py"].split("\n")) - (1 if obj["remove"] else 0):
                    ofail = "number of lines changes by other than the assignment line"
            if ofail:
                report(ctx, obj, res, None, ofail)
            continue
        term, problem, prog = variable_case(obj, res)
        progs[i] = prog
        if obj["only_current"]:
            # not modelled: oracle + exactly the aimed read is replaced
            ctx.count("variable:only_current (oracle only)")
            ctx.case(("variable-current", obj["files"]["mod0.py"], obj["at"][1]), nontrivial=res["refused"] is None)
            ofail = res["oracle"]
            if ofail is None and res["refused"] is None:
                nb = len(re.findall(r"\b%s\b" % obj["name"], obj["files"]["mod0.py"]))
                na = len(re.findall(r"\b%s\b" % obj["name"], res["files"]["mod0.py"]))
                if na != nb - 1:
                    ofail = "only_current: %d occurrences of the name before, %d after (expected one fewer)" % (nb, na)
            if ofail:
                report(ctx, obj, res, None, ofail)
            continue
        ctx.count("variable:" + ("refused" if res["refused"] else "inlined"))
        ctx.count("variable:remove=%s" % obj["remove"])
        ctx.case(("variable", obj["files"]["mod0.py"], obj["remove"]), nontrivial=res["refused"] is None)
        ctx.traces += 1
        if problem:
            report(ctx, obj, res, problem, res["oracle"])
            continue
        terms.append(term)
        idx_of.append(i)
    shard = 300
    bodies = [HEADER + "Definition cases : list vcase := %s.\nEval vm_compute in (vresults cases).\n"
              % g_list(terms[s:s + shard]).replace("; (mkV", ";\n (mkV") for s in range(0, len(terms), shard)]
    outs = ctx.coq_files_parallel(bodies) if bodies else []
    for si, out in enumerate(outs):
        pairs = ctx.parse_pairs(out)
        for (k, code) in pairs[0]:
            i = idx_of[si * shard + k]
            obj, res = objs[i], runs[i]
            mism, fl = code % 10, code // 10
            coq_conds = (bool(fl & 1), bool(fl & 2), bool(fl & 4))
            if coq_conds != L.conds(obj["name"], progs[i]):
                report(ctx, obj, res, "side conditions computed by the harness %r differ from Coq's %r" % (
                    L.conds(obj["name"], progs[i]), coq_conds), None)
                continue
            once, deps, prec = coq_conds
            dom = once and deps and prec
            if "mod1.py" in obj["files"]:
                ctx.count("variable:read in a second module")
                dom = False      # the theorem speaks about a one-module program
            ctx.count("variable:side_variable=%s" % dom)
            if once and not (deps and prec):
                ctx.count("variable:outside the domain:%s%s" % ("" if deps else " operand reassigned", "" if prec else " precedence"))
            ofail = res["oracle"]
            if mism:
                report(ctx, obj, res, "module after the change differs from Expr.inline_variable", ofail)
            elif ofail and dom:
                ctx.violation({"kind": "variable-domain", "files": obj["files"], "observed": ofail, "remove": obj["remove"],
                               "broken": "C04_variable_subst: a case inside side_variable changes behaviour when executed: "
                                         "the semantics of coq/C04/Expr.v does not describe Python"},
                              "C04 variable: theorem domain contradicted by execution: " + ofail, no_input=True)
            elif ofail:
                report(ctx, obj, res, None, ofail)
            if ctx.too_many(40):
                break
    for obj, res in list(zip(objs, runs))[:2]:
        ctx.sample({"kind": "variable", "source": obj["files"]["mod0.py"], "remove": obj["remove"],
                    "result": res.get("files", {}).get("mod0.py"), "refused": res["refused"]})


def check_parameters(ctx, objs):
    for obj in objs:
        res = run_rope(obj)
        if res["before"][0] != 0:
            continue
        ctx.count("parameter:" + ("refused" if res["refused"] else "inlined") + (":method" if obj.get("method") else ""))
        ctx.case(("parameter", json.dumps(obj["files"], sort_keys=True), obj["at"]), nontrivial=True)
        ofail = oracle(obj, res)
        if ofail is None and res["refused"] is None:
            # every call now passes the parameter explicitly
            d = L.find_def(obj["files"]["mod0.py"], fname(obj))
            names = [n for n, _ in d["params"]]
            for fn, src in res["files"].items():
                if fn == obj["entry"]:
                    continue
                for s in obj_sites(obj, src):
                    given = set(names[:len(s["args"])]) | {k for k, _ in s["kws"]}
                    if obj["name"] not in given:
                        ofail = "%s: call %s still relies on the default of %s" % (fn, s["text"], obj["name"])
                # the callee expression (receiver included) of every call is what it was
                heads_before = [x["head"] for x in obj_sites(obj, obj["files"][fn])]
                heads_after = [x["head"] for x in obj_sites(obj, src)]
                if heads_before != heads_after and ofail is None:
                    ofail = "%s: callee expressions change: %r -> %r" % (fn, heads_before, heads_after)
        if ofail:
            report(ctx, obj, res, None, ofail)


def fixed_alias_case():
    src = "def f(a, b=5):\n    print(a, b)\n\n\nf(1, b=2)\nf(3)\n"
    return {"kind": "method", "files": {"mod0.py": src, "main.py": "import mod0\n"}, "entry": "main.py", "remove": True,
            "only_current": False, "at": ["mod0.py", 4]}


def run(ctx):
    ctx.rule = ("method: projects generated from one PRNG (1-4 parameters, 0-4 defaults, 1-6 call sites over 1-3 modules, "
                "positional/keyword/default mixes, sites at module level or in host functions, colliding host names, "
                "remove/only_current); non-trivial = at least two call sites; distinct by sources+options. "
                "variable: straight-line modules over sums/products/parentheses, reads in all operand positions, operand "
                "reassignment, double assignment; non-trivial = not refused. parameter: default inlined through create_inline.")
    rng = ctx.rng
    nm = ctx.scale(120, 1500)
    nv = ctx.scale(250, 3000)
    np_ = ctx.scale(25, 300)
    mobjs = [fixed_alias_case()]
    for shape in MALFORMED + DEFECT_BINDERS:          # one of each kind on every run
        o = gen_method(rng, shape=shape)
        o["shape"] = shape
        mobjs.append(o)
    for _ in range(3):
        mobjs.append(gen_method(rng, current_in_client=True))
        mobjs[-1]["shape"] = "current-in-client"
    for _ in range(3):               # references other than calls, mostly with only_current (+ remove)
        mobjs.append(gen_method(rng, shape="non-call", current_remove=True))
        mobjs[-1]["shape"] = "non-call"
    mobjs.append(gen_methodcall(rng, mkind="classmethod-instance"))
    mobjs[-1]["shape"] = "classmethod-instance"
    for _ in range(nm):
        k = rng.random()
        if k < 0.18:
            mobjs.append(gen_methodcall(rng))
            mobjs[-1]["shape"] = "method-call"
            continue
        if k < 0.36:
            mobjs.append(gen_method(rng, rich=True))
            mobjs[-1]["shape"] = "rich-layout"
            continue
        if k < 0.48:
            mobjs.append(gen_method(rng, shape="binders"))
            mobjs[-1]["shape"] = "binders"
            continue
        if k < 0.60:
            mobjs.append(gen_splice(rng))
            mobjs[-1]["shape"] = "splice"
            continue
        k = (k - 0.60) / 0.40
        shape = (None if k < 0.70 else "capture" if k < 0.75 else "reassign" if k < 0.79 else "precedence" if k < 0.85
                 else "import-capture" if k < 0.88 else
                 rng.choice(MALFORMED))
        o = gen_method(rng, shape=shape)
        o["shape"] = shape
        mobjs.append(o)
    check_methods(ctx, mobjs)
    vobjs = []
    for _ in range(nv):
        k = rng.random()
        if k < 0.08:
            vobjs.append(gen_variable(rng, only_current=True))
            continue
        if k < 0.18:
            vobjs.append(gen_variable_early(rng))
            continue
        vobjs.append(gen_variable(rng, client=None if k < 0.75 else "plain" if k < 0.93 else "import-capture"))
    check_variables(ctx, vobjs)
    pobjs = [gen_parameter(rng) for _ in range(np_)]
    pobjs += [gen_parameter(rng, shape=sh) for sh in ("star-call", "kwstar-call") for _ in range(ctx.scale(2, 10))]
    check_parameters(ctx, [o for o in pobjs if o is not None])
