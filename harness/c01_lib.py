"""C01 helpers: project observation (tokens, translation with ONE interning table for the whole project), the rope
driver (Rename for a token, reduced to token edits and resource moves), the independent oracle (re-parse, token
skeleton, CPython-symtable binding map before / after = alpha-equivalence, execution before / after) and the
Gallina printer of the case files.

The binding keys of the oracle come from harness/c02_lib.oracle (symtable through harness/c15.observe_python plus a
static resolver over `ast`; neither rope nor the Coq model is involved) and are made project-wide here:
    ("var", module, scope path, name) | ("builtin", name) | ("mod", module) | ("ext", module, name) | None | "U"
Imports are transparent: a name bound only by `from a import y [as k]` denotes what y denotes at module level of a;
`a.y` with `a` bound only by `import a` likewise.
"""
import ast
import builtins
import io
import keyword
import os
import shutil
import subprocess
import sys
import tempfile
import token as _token
import tokenize

from harness import c02_lib, c15_gen

PY = "/venv/bin/python"
BUILTINS = set(dir(builtins))


class Obj:
    pass


# ============================================================================ files
def write_tree(root, files):
    for p, s in files.items():
        full = os.path.join(root, p)
        os.makedirs(os.path.dirname(full), exist_ok=True)
        with open(full, "w", newline="") as f:
            f.write(s)


def read_tree(root):
    out = {}
    for dp, dn, fn in os.walk(root):
        dn[:] = [d for d in dn if d not in (".ropeproject", "__pycache__")]
        for f in fn:
            full = os.path.join(dp, f)
            with open(full, newline="") as fh:
                out[os.path.relpath(full, root).replace(os.sep, "/")] = fh.read()
    return out


def modname_of(path):
    """dotted module name of a project file (packages through __init__.py)"""
    if not path.endswith(".py"):
        return None
    parts = path[:-3].split("/")
    if parts[-1] == "__init__":
        parts = parts[:-1]
    return ".".join(parts)


# ============================================================================ translation with a shared interning table
class Shared:
    def __init__(self):
        self.idents = []
        self._index = {}

    def intern(self, s):
        i = self._index.get(s)
        if i is None:
            i = len(self.idents)
            self._index[s] = i
            self.idents.append(s)
        return i

    def g(self, s):
        return "%d%%N" % self.intern(s)

    def gl(self, names):
        return "[" + "; ".join(self.g(n) for n in names) + "]"


def translate(source, shared):
    """harness/c15_gen.to_gallina with the interning table of the project"""
    try:
        tree = ast.parse(source)
    except (SyntaxError, ValueError, RecursionError):
        return None
    tr = c15_gen.Translation(source)
    tr.idents = shared.idents
    tr._index = shared._index
    tr.tree = tree
    try:
        t = c15_gen._Tr(tr, source)
        tr.prog = t.stmts(tree.body)
    except (c15_gen.Unsupported, tokenize.TokenError, IndentationError, KeyError):
        return None
    return tr


def name_tokens(src):
    """[(index in the token stream, string, offset, is an identifier)] of every NAME token"""
    ls = c02_lib.line_starts(src)
    out = []
    for i, t in enumerate(tokenize.generate_tokens(io.StringIO(src).readline)):
        if t.type == _token.NAME:
            out.append((i, t.string, ls[t.start[0] - 1] + t.start[1]))
    return out


def observe_module(path, src, shared):
    m = Obj()
    m.path = path
    m.name = modname_of(path)
    m.src = src
    m.tr = translate(src, shared)
    if m.tr is None:
        return None
    m.tokens = c02_lib.tokens_of(m.tr, src)
    m.by_id = {t.id: t for t in m.tokens}
    m.kwlike = c02_lib.kwlike_ids(src) & set(m.by_id)
    m.skip = c02_lib.skip_ids(src, m.tr, m.tokens, m.kwlike)
    m.flat = "/" not in path and not path.endswith("__init__.py")
    return m


def observe_project(files):
    """None when some module is outside the representable syntax"""
    p = Obj()
    p.files = dict(files)
    p.shared = Shared()
    p.mods = []
    for path in sorted(files):
        if not path.endswith(".py"):
            continue
        m = observe_module(path, files[path], p.shared)
        if m is None:
            return None
        p.mods.append(m)
    p.flat = [m for m in p.mods if m.flat]          # the modules the Coq model knows, in this order
    for i, m in enumerate(p.flat):
        m.index = i
    p.by_path = {m.path: m for m in p.mods}
    return p


def fresh_name(files, rng=None):
    used = set()
    for s in files.values():
        try:
            for t in tokenize.generate_tokens(io.StringIO(s).readline):
                if t.type == _token.NAME:
                    used.add(t.string)
        except (tokenize.TokenError, IndentationError, SyntaxError):
            pass
    for p in files:
        used.update(p[:-3].split("/") if p.endswith(".py") else [])
    k = 0
    while True:
        n = "qq%d" % k if k else "qq"
        if n not in used and not keyword.iskeyword(n) and n not in BUILTINS:
            return n
        k += 1


# ============================================================================ rope
def splice_tokens(src, toks, changed, new):
    """src with the NAME tokens whose stream index is in `changed` respelled `new`"""
    out, last = [], 0
    for (i, s, off) in toks:
        if i in changed:
            out.append(src[last:off])
            out.append(new)
            last = off + len(s)
    out.append(src[last:])
    return "".join(out)


def reduce_contents(old, new, old_name, new_name):
    """(set of changed token stream indices, None) when `new` is `old` with whole NAME tokens spelled old_name
    respelled new_name; (None, reason) otherwise"""
    toks = name_tokens(old)
    try:
        ntoks = name_tokens(new)
    except (tokenize.TokenError, IndentationError, SyntaxError) as e:
        return None, "the new text does not tokenize: %s" % type(e).__name__
    if len(toks) != len(ntoks):
        return None, "the number of NAME tokens changed (%d -> %d)" % (len(toks), len(ntoks))
    changed = set()
    for (i, s, off), (j, s2, off2) in zip(toks, ntoks):
        if s != s2:
            if i != j or s != old_name or s2 != new_name:
                return None, "token %d: %r became %r" % (i, s, s2)
            changed.add(i)
    if splice_tokens(old, toks, changed, new_name) != new:
        return None, "the new text is not the old text with the renamed tokens respelled"
    return changed, None


class RopeProject:
    """one scratch project on disk; rename(module path, offset, new name) -> observation; the project is put back
    (history.undo) after each performed rename"""

    def __init__(self, files):
        from rope.base.project import Project
        self.files = dict(files)
        self.dir = tempfile.mkdtemp(prefix="ropeverif-c01-")
        write_tree(self.dir, files)
        self.project = Project(self.dir, ropefolder=None)
        self.performed = {}

    def close(self):
        try:
            self.project.close()
        finally:
            shutil.rmtree(self.dir, ignore_errors=True)

    def commit(self, path, offset, new_name):
        """performs a rename and KEEPS it (a step of a session); returns the new tree or None when rope refuses"""
        from rope.refactor import rename as rmod
        try:
            res = self.project.get_resource(path)
            changes = rmod.Rename(self.project, res, offset).get_changes(new_name)
            self.project.do(changes)
        except Exception:  # noqa: BLE001
            return None
        self.files = read_tree(self.dir)
        self.performed = {}
        self.steps = getattr(self, "steps", []) + [(path, offset, new_name)]
        return dict(self.files)

    def reopen(self):
        """a fresh rope project on the same tree: what rope inferred while answering earlier queries (it can go
        stale or be overwritten: findings C02-answer-depends-on-query-history, C02-stale-attribute-after-edit) must
        not decide the answer to the next one; sessions, whose subject is exactly such state, do not reopen"""
        from rope.base.project import Project
        self.project.close()
        self.project = Project(self.dir, ropefolder=None)

    def rename(self, path, offset, new_name, perform=True):
        """dict: kind = refused | raised | changes ; for changes: local, contents {path: new text}, moves
        [(old path, new path)], after {path: text} = the tree on disk after project.do, restored = undo gave the
        original tree back"""
        from rope.base import exceptions
        from rope.base.change import ChangeContents, MoveResource
        from rope.refactor import rename as rmod
        if not getattr(self, "steps", None):
            self.reopen()
        res = self.project.get_resource(path) if path is not None else None
        o = {}
        try:
            r = rmod.Rename(self.project, res, offset)
            o["old_name"] = r.get_old_name()
            try:
                o["local"] = bool(rmod._is_local(r.old_pyname))
            except Exception as e:  # noqa: BLE001
                o["local"] = "EXC:" + type(e).__name__
            changes = r.get_changes(new_name)
        except exceptions.RefactoringError as e:
            o["kind"] = "refused"
            o["exc"] = type(e).__name__
            return o
        except exceptions.BadIdentifierError as e:
            o["kind"] = "refused"
            o["exc"] = type(e).__name__
            return o
        except Exception as e:  # noqa: BLE001 - the kind of failure is the observation
            o["kind"] = "raised"
            o["exc"] = type(e).__name__
            o["msg"] = str(e)[:200]
            return o
        o["kind"] = "changes"
        o["contents"], o["moves"], o["other"] = {}, [], []
        for c in changes.changes:
            if isinstance(c, ChangeContents):
                o["contents"][c.resource.path] = c.new_contents
            elif isinstance(c, MoveResource):
                o["moves"].append((c.resource.path, c.new_resource.path))
            else:
                o["other"].append(type(c).__name__)
        key = (tuple(sorted(o["contents"].items())), tuple(o["moves"]), tuple(o["other"]))
        done = self.performed.get(key)
        if perform and not o["contents"] and not o["moves"] and not o["other"]:
            # an empty change set: nothing to perform (project.do would not even record it)
            o["after"], o["restored"] = dict(self.files), True
        elif perform and done is not None:
            # the same change set was performed before (another token of the same binding): same effect
            o["after"], o["restored"] = done
            o["performed"] = "as-before"
        elif perform:
            try:
                self.project.do(changes)
                o["after"] = read_tree(self.dir)
                self.project.history.undo()
                o["restored"] = read_tree(self.dir) == self.files
                self.performed[key] = (o["after"], o["restored"])
            except Exception as e:  # noqa: BLE001
                o["perform_exc"] = "%s: %s" % (type(e).__name__, str(e)[:200])
                # put the tree back by hand
                for p in list(read_tree(self.dir)):
                    os.remove(os.path.join(self.dir, p))
                write_tree(self.dir, self.files)
                self.project.validate(self.project.root)
                o["restored"] = True
        return o


def predicted_after(files, o):
    """the tree the change set describes: contents replaced, then resources moved (files and folders)"""
    out = dict(files)
    for p, s in o["contents"].items():
        out[p] = s
    for (a, b) in o["moves"]:
        if a in out:
            out[b] = out.pop(a)
        else:
            for p in [p for p in out if p.startswith(a + "/")]:
                out[b + p[len(a):]] = out.pop(p)
    return out


def path_after(path, moves):
    for (a, b) in moves:
        if path == a:
            return b
        if path.startswith(a + "/"):
            return b + path[len(a):]
    return path


# ============================================================================ oracle: binding keys
def module_level_binders(tree):
    """{name: [("import", entity) | ("other",)]} of the statements executed at module level"""
    out = {}

    def add(n, what):
        out.setdefault(n, []).append(what)

    def targets(t):
        if isinstance(t, ast.Name):
            add(t.id, ("other",))
        elif isinstance(t, (ast.Tuple, ast.List)):
            for e in t.elts:
                targets(e)
        elif isinstance(t, ast.Starred):
            targets(t.value)

    def walk_expr(e):
        for n in ast.walk(e):
            if isinstance(n, ast.NamedExpr):
                targets(n.target)

    def stmts(body):
        for s in body:
            if isinstance(s, (ast.FunctionDef, ast.AsyncFunctionDef, ast.ClassDef)):
                add(s.name, ("other",))
                continue
            if isinstance(s, ast.Import):
                for a in s.names:
                    if a.asname:
                        add(a.asname, ("import", ("mod", a.name)))
                    else:
                        add(a.name.split(".")[0], ("import", ("mod", a.name.split(".")[0])))
                continue
            if isinstance(s, ast.ImportFrom):
                for a in s.names:
                    if a.name != "*":
                        add(a.asname or a.name, ("import", ("name", s.level or 0, s.module or "", a.name)))
                    else:
                        add("*", ("other",))
                continue
            if isinstance(s, ast.Assign):
                for t in s.targets:
                    targets(t)
            elif isinstance(s, (ast.AugAssign, ast.AnnAssign)):
                targets(s.target)
            elif isinstance(s, (ast.For, ast.AsyncFor)):
                targets(s.target)
            elif isinstance(s, (ast.With, ast.AsyncWith)):
                for it in s.items:
                    if it.optional_vars is not None:
                        targets(it.optional_vars)
            elif isinstance(s, ast.Delete):
                for t in s.targets:
                    targets(t)
            for f in ("body", "orelse", "finalbody"):
                b = getattr(s, f, None)
                if isinstance(b, list) and b and isinstance(b[0], ast.stmt):
                    stmts(b)
            for h in getattr(s, "handlers", []) or []:
                if h.name:
                    add(h.name, ("other",))
                stmts(h.body)
            for f, v in ast.iter_fields(s):
                if isinstance(v, ast.expr):
                    walk_expr(v)
                elif isinstance(v, list):
                    for e in v:
                        if isinstance(e, ast.expr):
                            walk_expr(e)

    stmts(tree.body)
    # a function that declares the name global and binds it adds a binder of the other kind
    for n in ast.walk(tree):
        if isinstance(n, (ast.FunctionDef, ast.AsyncFunctionDef, ast.ClassDef)):
            gl = set()
            for s in ast.walk(n):
                if isinstance(s, ast.Global):
                    gl.update(s.names)
            if gl:
                for s in ast.walk(n):
                    if isinstance(s, ast.Name) and isinstance(s.ctx, (ast.Store, ast.Del)) and s.id in gl:
                        add(s.id, ("other",))
    return out


_MODULE_CACHE = {}      # (path, source) -> per-module analysis of the oracle (independent of the other modules)


def project_keys(files):
    """{(path, token id): key} for every identifier token of every module, and {path: module observation};
    None when a module cannot be analysed"""
    mods = {}
    for path in sorted(files):
        if not path.endswith(".py"):
            continue
        m = _MODULE_CACHE.get((path, files[path]))
        if m is None:
            m = observe_module(path, files[path], Shared())
            if m is not None:
                try:
                    m.key, m.cat, m.info = c02_lib.oracle(files[path], m.tr, m.tokens)
                except (SyntaxError, AssertionError, KeyError, ValueError):
                    m = None
            if m is not None:
                m.binders = module_level_binders(m.tr.tree)
                m.varkey = c02_lib.scoping_keys(m)      # plain symtable resolution, imports not looked through
                m.aliased = set()
                for n in ast.walk(m.tr.tree):
                    if isinstance(n, (ast.Import, ast.ImportFrom)):
                        m.aliased.update(a.asname for a in n.names if a.asname)
            if len(_MODULE_CACHE) > 4000:
                _MODULE_CACHE.clear()
            _MODULE_CACHE[(path, files[path])] = m if m is not None else False
        if not m:
            return None
        mods[path] = m
    by_name = {m.name: m for m in mods.values()}

    def modkey(a):
        return ("mod", a) if a in by_name else ("extmod", a)

    def entity(e, fuel=8):
        if e[0] == "mod":
            return modkey(e[1])
        if e[0] == "name":
            level, a, y = e[1], e[2], e[3]
            if level:
                return "U"
            return name_in(a, y, fuel)
        return "U"

    def name_in(a, y, fuel=8):
        if fuel <= 0:
            return "U"
        m = by_name.get(a)
        if m is None:
            return ("ext", a, y)
        if "*" in m.binders:
            return "U"
        bs = m.binders.get(y)
        if not bs:
            if (a + "." + y) in by_name:
                return ("mod", a + "." + y)
            return ("noattr", a, y)
        imps = [b[1] for b in bs if b[0] == "import"]
        if imps and len(imps) == len(bs) and len(set(imps)) == 1:
            e = imps[0]
            imported = e[1].split(".")[0] if e[0] == "mod" else e[3]
            if imported != y:
                return ("var", a, (), y)        # an alias: a binding of module a in its own right
            if y in m.aliased:
                return "U"
            return entity(e, fuel - 1)
        if imps:
            # bound by an import and by something else (try: from m import y / except ImportError: y = None):
            # one variable of the module that is ALSO the imported name when there is one un-aliased import
            e = imps[0]
            if len(set(imps)) == 1 and e[0] == "name" and e[3] == y and y not in m.aliased:
                return entity(e, fuel - 1)
            return "U"
        return ("var", a, (), y)

    keys = {}
    for path, m in mods.items():
        for t in m.tokens:
            k = m.key[t.id]
            if k == "U" or k is None:
                g = k
            elif k == ("builtin",):
                g = ("builtin", t.name)
            elif k[0] == "var":
                g = ("var", m.name, tuple(k[1]), t.name)
                if (tuple(k[1]), t.name) in m.info.mixed:
                    g = name_in(m.name, t.name) if tuple(k[1]) == () else "U"
            elif k[0] == "ent":
                # the token denotes something bound by an import statement.  It is the imported entity itself when
                # the statement has no alias (module and importer must agree on the spelling: one binding for the
                # purposes of renaming) or when the token is the name after `import` of an aliased from-import;
                # otherwise it is the importer's own alias binding
                e = k[1]
                imported = e[2].split(".")[0] if e[0] == "mod" else e[3]
                ent = entity(("mod", e[2])) if e[0] == "mod" else entity(("name", e[1], e[2], e[3]))
                if t.kind == "KImportName" or (t.name == imported and t.name not in m.aliased):
                    g = ent
                elif t.name != imported:
                    vk = m.varkey.get(t.id)
                    g = ("var", m.name, tuple(vk[1]), t.name) if isinstance(vk, tuple) and vk[0] == "var" else "U"
                else:
                    g = "U"
            else:
                g = "U"
            keys[(path, t.id)] = g
        # attributes of modules: a.y with a bound only by `import a`
        for t in m.tokens:
            if t.kind == "KAttr" and keys[(path, t.id)] == "U":
                b = m.info.base_of.get(t.id)
                if b is not None:
                    kb = keys.get((path, b))
                    if isinstance(kb, tuple) and kb[0] == "mod":
                        keys[(path, t.id)] = name_in(kb[1], t.name)
    return keys, mods


def shape_of(k, mod_map):
    """what must be preserved of a binding key by an alpha-renaming: everything but the name of a variable
    (the module part follows the resource moves)"""
    def mm(a):
        for old, new in mod_map.items():
            if a == old:
                return new
            if a.startswith(old + "."):
                return new + a[len(old):]
        return a
    if not isinstance(k, tuple):
        return k
    if k[0] == "var":
        return ("var", mm(k[1]), k[2])
    if k[0] == "mod":
        return ("mod", mm(k[1]))
    if k[0] == "noattr":
        return ("noattr", mm(k[1]), k[2])
    return k


def alpha_check(old_keys, new_files, target, new_name, moves):
    """list of verdicts (strings) - empty when the new project is an alpha-renaming of the old one in which the
    target binding carries the new name:
      * there is ONE map phi from the old bindings to the new ones such that every token that denoted b denotes
        phi(b) (same definition as before), phi is injective (nothing captured, nothing merged), phi keeps the owner
        scope of a variable and maps builtins, external names and `unbound` to themselves;
      * phi(target) is spelled new_name.
    old_keys: project_keys of the old tree (keys dict, mods)."""
    keys0, mods0 = old_keys
    r = project_keys(new_files)
    if r is None:
        return ["the renamed project cannot be analysed (it does not compile / is outside the syntax)"]
    keys1, mods1 = r
    mod_map = {}
    for (a, b) in moves:
        if a.endswith(".py"):
            mod_map[modname_of(a)] = modname_of(b)
        else:
            mod_map[a.replace("/", ".")] = b.replace("/", ".")
    out = []
    phi, inv = {}, {}
    for (path, tid), k0 in sorted(keys0.items()):
        p1 = path_after(path, moves)
        t = mods0[path].by_id[tid]
        where = "%s:%d:%d %r" % (path, t.line, t.col, t.name)
        if (p1, tid) not in keys1:
            out.append("%s has no counterpart in the renamed project" % where)
            continue
        k1 = keys1[(p1, tid)]
        if k1 == "U" and k0 != "U" and t.kind in ("KKwArg", "KAttr"):
            # the keyword named a parameter of a known callee / the attribute an attribute of a known class or
            # module, and does so no more
            out.append("%s: denoted %r, now names nothing that can be determined" % (where, k0))
            continue
        if k0 == "U" or k1 == "U":
            continue
        if shape_of(k0, mod_map) != shape_of(k1, {}):
            out.append("%s: denoted %r, now denotes %r" % (where, k0, k1))
            continue
        if k0 in phi and phi[k0] != k1:
            out.append("%s: the binding %r is split: %r and %r" % (where, k0, phi[k0], k1))
            continue
        if k1 in inv and inv[k1] != k0:
            out.append("%s: the bindings %r and %r are merged into %r" % (where, inv[k1], k0, k1))
            continue
        phi[k0] = k1
        inv[k1] = k0
    if target in phi:
        k1 = phi[target]
        if target[0] == "var" and k1[3] != new_name:
            out.append("the renamed binding %r is still spelled %r" % (target, k1[3]))
        if target[0] == "mod" and k1[1].split(".")[-1] != new_name:
            out.append("the renamed module %r is now %r" % (target, k1[1]))
    return out


# ============================================================================ oracle: execution
RUNNER = ("import sys, runpy\nsys.path.insert(0, sys.argv[1])\nsys.setrecursionlimit(200)\n"
          "runpy.run_path(sys.argv[2], run_name='__main__')\n")


def run_entry(files, entry, timeout=10):
    """(exit status, stdout, last line of stderr) of running the entry module in a fresh interpreter"""
    d = tempfile.mkdtemp(prefix="ropeverif-c01-run-")
    try:
        write_tree(d, files)
        try:
            r = subprocess.run([PY, "-I", "-c", RUNNER, d, os.path.join(d, entry)], capture_output=True, text=True,
                               timeout=timeout, cwd=d)
        except subprocess.TimeoutExpired:
            return ("timeout", "", "")
        err = r.stderr.strip().split("\n")[-1] if r.stderr.strip() else ""
        return (r.returncode, r.stdout, err.split(":")[0])
    finally:
        shutil.rmtree(d, ignore_errors=True)


# ============================================================================ Gallina
def g_ids(ids):
    return "[" + "; ".join("%d%%N" % i for i in sorted(ids)) + "]"


def g_module(p, m):
    return "{| pm_name := %s; pm_prog := %s; pm_nlines := %d%%N; pm_kwlike := %s; pm_skip := %s |}" % (
        p.shared.g(m.name), m.tr.prog, m.tr.nlines, g_ids(m.kwlike), g_ids(m.skip))


def g_obs(o):
    if o["kind"] == "refused":
        return "ORefused"
    if o["kind"] == "raised":
        return "ORaised"
    edits = "; ".join("(%d%%N, %s)" % (j, g_ids(ids)) for j, ids in sorted(o["edits"].items()) if ids)
    return "(OChanges %s [%s] %s)" % ("true" if o["local"] is True else "false", edits, g_ids(o["moved"]))


def g_case(p, queries, fresh="qq"):
    """queries: [(module index, token id, new name is a keyword, reduced observation)]"""
    idents = sorted({t.name for m in p.mods for t in m.tokens} | {"len", "__init__", "__call__", "staticmethod",
                                                                  "classmethod", "property"} | {m.name for m in p.flat})
    bi = [x for x in idents if x in BUILTINS]
    seen = set()
    items = []
    for (j, tid, kw, o) in queries:
        # the alpha theorem is evaluated once per distinct change set (the tokens of one binding give the same one)
        key = None
        if not kw and o["kind"] == "changes":
            key = (tuple(sorted((a, tuple(b)) for a, b in o["edits"].items())), tuple(o["moved"]))
        ev = key is not None and key not in seen
        if ev:
            seen.add(key)
        items.append("{| q_mod := %d%%N; q_tok := %d%%N; q_kw := %s; q_alpha := %s; q_obs := %s |}" % (
            j, tid, "true" if kw else "false", "true" if ev else "false", g_obs(o)))
    qs = ";\n  ".join(items)
    mods = ";\n  ".join(g_module(p, m) for m in p.flat)
    # interning must be complete before the numbers are printed
    sh = p.shared
    special = (sh.g("__init__"), sh.g("__call__"), sh.gl(["staticmethod", "classmethod"]))
    return ("{| c_mods := [\n  %s];\n c_builtins := %s; c_idents := %s;\n c_init := %s; c_call := %s; c_odd := %s;\n"
            " c_prop := %s; c_fresh := %s;\n c_queries := [\n  %s] |}" % (mods, sh.gl(bi), sh.gl(idents), special[0], special[1],
                                                                      special[2], sh.g("property"), sh.g(fresh), qs))


HEADER = ("From Coq Require Import List NArith Bool.\nImport ListNotations.\n"
          "From RopeVerif.C15 Require Import Syntax Scoping RopeScopes Fragment.\n"
          "From RopeVerif.C02 Require Import Occurrences.\n"
          "From RopeVerif.C01 Require Import Collector Rename OccTree AlphaSpec Runner.\n")
