"""C08 — extra fixed sources: statements ending / starting with string literals next to each other inside nested
blocks (the end limit of implicit string concatenation, _find_next_statement_start), and f-strings whose
literal text contains the other quote character doubled / tripled (start/end quote detection of _JoinedStr)."""

EXTRA = [
    "def f():\n    x = 'a'\n    'b'\ny = 1\n",
    "class A:\n    'doc'\n    x = 'a'\n    'b' 'c'\n    def g(self):\n        \"d\"\n        return 'e'\n'f'\n",
    "if a:\n    if b:\n        x = 'a'\n        'b'\n    'c'\n'd'\n",
    "for i in j:\n    print('a')\n    'b'\nelse:\n    x = \"c\"\n    \"d\"\nz = 0\n",
    "x = f'say \"\"\"{x}\"\"\"'\n",
    "x = f\"{a}'''\"\n",
    "x = f'{a}\"\"' + f\"''{b}'\"\n",
    "x = f'\"\"\"{a}' if f\"'{b}''\" else f'{c}\"'\n",
    "def f():\n    return f'{a}\"\"\"'\n    'b'\ny = 1\n",
]
