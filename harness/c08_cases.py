"""C08 — extra fixed sources: statements ending / starting with string literals next to each other inside nested
blocks (the end limit of implicit string concatenation, _find_next_statement_start), and f-strings whose
literal text contains the other quote character doubled / tripled (start/end quote detection of _JoinedStr)."""

EXTRA = [
    "def f():\n    x = 'a'\n    'b'\ny = 1\n",
    "class A:\n    'doc'\n    x = 'a'\n    'b' 'c'\n    def g(self):\n        \"d\"\n        return 'e'\n'f'\n",
    "if a:\n    if b:\n        x = 'a'\n        'b'\n    'c'\n'd'\n",
    "for i in j:\n    print('a')\n    'b'\nelse:\n    x = \"c\"\n    \"d\"\nz = 0\n",
    "x = f'say \"\"\"{x}\"\"\"'\n",
    "x = f\"{a}'''\"\n",
    "x = f'{a}\"\"' + f\"''{b}'\"\n",
    "x = f'\"\"\"{a}' if f\"'{b}''\" else f'{c}\"'\n",
    "def f():\n    return f'{a}\"\"\"'\n    'b'\ny = 1\n",
]

# characters that str.splitlines() treats as line boundaries but the interpreter does not (form feed, \x1c-\x1e,
# \x85, U+2028, U+2029) in front of if/elif chains and of statements with string literals: every line-number based
# offset computation of the walker (_is_elif, _find_next_statement_start) must still count lines as CPython does
EXTRA += [
    "import os\n\x0c\nif a:\n    pass\nelif b:\n    x = 'a'\n    'b'\ny = 1\n",
    "# sep \x85 \u2028 x \u2029\nif a:\n    pass\nelif b:\n    pass\nelse:\n    pass\n",
    "s = 'a\x1cb\x1d\x1e'\nif a:\n    x = 'c'\n    'd'\nelif b:\n    pass\nz = 0\n",
    "\x0c\ndef f():\n    '''doc\x0c\x85'''\n    x = 'a'\n    'b'\n\x0c\nclass A:\n    if a:\n        pass\n    elif b:\n        pass\n",
    "x = 1  # \x0b\x0c\x1c\nwhile a:\n    if b:\n        y = 'p' 'q'\n        'r'\n    elif c:\n        pass\nw = 2\n",
]
