"""C20, the part that is decided by exhaustive execution (no theorem): at EVERY offset of a module, and for
every truncation of the cursor's line at the cursor (rest of the file kept), with maxfixes in {0, 1, 3} and
both later_locals values, the five entry points of rope.contrib.codeassist return or refuse in a documented
way.

Allowed outcomes
  * a value;
  * rope.base.exceptions.ModuleSyntaxError when the text is not valid Python (the repair heuristic gave up);
  * for get_definition_location / get_doc / get_calltip only: BadIdentifierError when the offset is not on an
    identifier token of a valid module (rope's documented refusal for "nothing resolvable selected").
Everything else is an internal error: any exception that is not one of these two, ModuleSyntaxError on valid
text, BadIdentifierError out of code_assist, BadIdentifierError on an identifier of a valid module.

Each internal error gets a structural signature  exc:<entry>:<Exception>@<innermost rope frame>[:<context>]
(see `signature_of`).  The sweep is run in worker processes (one scratch project each)."""
import ast
import io
import keyword
import os
import re
import shutil
import signal
import sys
import tempfile
import token as _token
import tokenize
import traceback
import warnings

warnings.filterwarnings("ignore", category=SyntaxWarning)

MAXFIXES = (0, 1, 3)
CALL_TIMEOUT = float(os.environ.get("VERIF_C20_CALL_TIMEOUT", "8"))     # seconds; a normal call takes milliseconds


class ScratchGone(Exception):
    """the scratch project directory was removed from outside (concurrent clean-up of /tmp): not an answer of rope"""


class HangError(Exception):
    """raised by the alarm when one call of an entry point does not return in time"""


class time_limit:
    """with time_limit(): ...   (main thread of the process only)"""

    def __init__(self, seconds=None):
        self.seconds = CALL_TIMEOUT if seconds is None else seconds

    def _fire(self, signum, frame):
        raise HangError("no answer within %.0f s" % self.seconds)

    def __enter__(self):
        self.old = signal.signal(signal.SIGALRM, self._fire)
        signal.setitimer(signal.ITIMER_REAL, self.seconds)

    def __exit__(self, *exc):
        signal.setitimer(signal.ITIMER_REAL, 0)
        signal.signal(signal.SIGALRM, self.old)
        return False
ENTRIES = ("code_assist", "code_assist_nolater", "get_definition_location", "find_definition", "get_doc",
           "get_calltip", "starting_offset")


def is_valid(text):
    try:
        ast.parse(text)
        return True
    except (SyntaxError, ValueError, RecursionError, MemoryError):
        return False


def identifier_offsets(text):
    """offsets covered by NAME tokens that are not keywords (valid text only)"""
    out = set()
    starts = [0]
    for line in text.split("\n"):
        starts.append(starts[-1] + len(line) + 1)
    try:
        for t in tokenize.generate_tokens(io.StringIO(text).readline):
            if t.type == _token.NAME and not keyword.iskeyword(t.string) and t.start[0] == t.end[0]:
                base = starts[t.start[0] - 1]
                out.update(range(base + t.start[1], base + t.end[1]))
    except (tokenize.TokenError, IndentationError, SyntaxError):
        pass
    return out


def cursor_context(text, offset):
    """structural description of the text just before the cursor (part of the signature)"""
    ls = text.rfind("\n", 0, offset) + 1
    before = text[ls:offset]
    if re.search(r"[\w\)\]]\s*\.\s*\w+[ \t]+$", before):
        return "space-after-dotted-name"
    if re.search(r"\.\s*$", before):
        return "after-dot"
    if re.search(r"\.\s*\w+$", before):
        return "in-attribute-name"
    if re.search(r"\w$", before):
        return "in-word"
    if before.strip() == "":
        return "line-start"
    return "other"


def rope_frame(tb):
    """innermost frame inside the rope package: 'file.function'"""
    frames = traceback.extract_tb(tb)
    if len(frames) > 200:
        # runaway recursion: the frame that repeats
        seen = {}
        for fr in frames:
            k = (fr.filename, fr.name)
            seen[k] = seen.get(k, 0) + 1
        fn, name = max(seen, key=seen.get)
        return "%s.%s" % (os.path.basename(fn)[:-3], name)
    for fr in reversed(frames):
        fn = fr.filename.replace("\\", "/")
        if "/rope/base/oi/" in fn:
            return "oi.type-inference"         # rope.base.oi is modelled-not-verified everywhere in /verif
        if "/rope/" in fn:
            return "%s.%s" % (os.path.basename(fn)[:-3], fr.name)
    fr = frames[-1]
    return "%s.%s" % (os.path.basename(fr.filename)[:-3], fr.name)


def _parsed(text, offset, origin):
    """an ast of the text, of the text with the cursor's line replaced by `pass`, or of the module the text was cut
    from (the shapes below are properties of the module around the cursor line)"""
    for t in (text, replaced_by_pass(text, offset) if offset is not None else None, origin):
        if t is None:
            continue
        try:
            return ast.parse(t)
        except (SyntaxError, ValueError, RecursionError, MemoryError):
            continue
    return None


def has_signature_syntax(tree):
    """what C08-signature-syntax is about: a def with annotations, a return annotation, keyword-only or
    positional-only parameters; a class with keywords"""
    if tree is None:
        return False
    for n in ast.walk(tree):
        if isinstance(n, (ast.FunctionDef, ast.AsyncFunctionDef, ast.Lambda)):
            a = n.args
            every = a.posonlyargs + a.args + a.kwonlyargs + [x for x in (a.vararg, a.kwarg) if x]
            if a.posonlyargs or a.kwonlyargs or any(x.annotation is not None for x in every) \
                    or getattr(n, "returns", None) is not None:
                return True
        if isinstance(n, ast.ClassDef) and n.keywords:
            return True
    return False


def has_rebound_base(tree):
    """a class one of whose base names is bound again inside that class (its own name, a nested class, an assignment
    in its body): rope's superclass / parameter inference then walks a hierarchy that refers to itself"""
    if tree is None:
        return False
    for c in ast.walk(tree):
        if not isinstance(c, ast.ClassDef):
            continue
        bases = {b.id for b in c.bases if isinstance(b, ast.Name)}
        if not bases:
            continue
        inside = {c.name}
        for n in ast.walk(c):
            if n is c:
                continue
            if isinstance(n, ast.ClassDef):
                inside.add(n.name)
            elif isinstance(n, ast.Name) and isinstance(n.ctx, ast.Store):
                inside.add(n.id)
        if bases & inside:
            return True
    return False


def has_assigned_over_inherited_definition(tree):
    """a class C with a base that names a class B of the module, where C assigns a name that B binds by a def, a
    class or an import: the inheritance hint provider of rope.base.oi then reads `.assignments` of B's attribute,
    which is not an AssignedName"""
    if tree is None:
        return False
    classes = {}
    for c in ast.walk(tree):
        if isinstance(c, ast.ClassDef):
            classes.setdefault(c.name, []).append(c)
    for c in ast.walk(tree):
        if not isinstance(c, ast.ClassDef):
            continue
        assigned = {n.id for n in ast.walk(c) if isinstance(n, ast.Name) and isinstance(n.ctx, ast.Store)}
        for b in c.bases:
            if not isinstance(b, ast.Name):
                continue
            for B in classes.get(b.id, []):
                defined = set()
                for st in ast.walk(B):
                    if st is B:
                        continue
                    if isinstance(st, (ast.FunctionDef, ast.AsyncFunctionDef, ast.ClassDef)):
                        defined.add(st.name)
                    elif isinstance(st, (ast.Import, ast.ImportFrom)):
                        defined.update((a.asname or a.name.split(".")[0]) for a in st.names)
                if assigned & defined:
                    return True
    return False


def signature_of(entry, exc, tb, text, offset, origin=None):
    """exc:<Exception>@<innermost rope frame>; BadIdentifierError also carries the entry group (it is an allowed
    refusal of the pyname_at entries on non-identifiers).  Failures inside components that /verif does not model
    (type inference, the patched AST of property C08) carry the exception AND the structural shape of the module the
    known defect needs; the same failure on a module without that shape has another signature."""
    if isinstance(exc, HangError):
        oi = any("/rope/base/oi/" in fr.filename.replace("\\", "/") for fr in traceback.extract_tb(tb))
        group = "code_assist" if entry.startswith("code_assist") else (
            "starting_offset" if entry == "starting_offset" else "pyname_at")
        if oi:
            return "hang:type-inference" + (":rebound-base" if has_rebound_base(_parsed(text, offset, origin)) else "")
        return "hang:" + group
    frame = ALIAS.get(rope_frame(tb), rope_frame(tb))
    name = type(exc).__name__
    if frame == "oi.type-inference":
        tree = _parsed(text, offset, origin)
        shape = ""
        if name == "AttributeError" and has_assigned_over_inherited_definition(tree):
            shape = ":assigned-over-inherited-definition"
        elif has_rebound_base(tree):
            shape = ":rebound-base"
        return "exc:type-inference:%s%s" % (name, shape)
    if frame.startswith("patchedast."):
        # the source-annotated tree (property C08) could not be built for the repaired module
        # (MismatchedTokenError or AttributeError, depending on where the walker loses the text)
        return "exc:patchedast-failure%s" % (
            ":signature-syntax" if has_signature_syntax(_parsed(text, offset, origin)) else "")
    if name == "BadIdentifierError":
        group = "code_assist" if entry.startswith("code_assist") else (
            "starting_offset" if entry == "starting_offset" else "pyname_at")
        return "exc:%s:%s@%s" % (group, name, frame)
    sig = "exc:%s@%s" % (name, frame)
    shape = SHAPES.get(sig)
    if shape is not None:
        sig += ":" + shape[0] if shape[1](text, offset, _parsed(text, offset, origin)) else ""
    return sig


def _word_at(text, offset):
    a = offset
    while a > 0 and (text[a - 1].isalnum() or text[a - 1] == "_"):
        a -= 1
    b = offset
    while b < len(text) and (text[b].isalnum() or text[b] == "_"):
        b += 1
    return text[a:b]


def _shape_from_import_at_eof(text, offset, tree):
    last = text[text.rfind("\n") + 1:]
    return "\n" not in text[offset:] and re.match(r"\s*from\s+\S+\s+import\s", last) is not None


def _shape_kwonly_without_default(text, offset, tree):
    return tree is not None and any(
        isinstance(n, (ast.FunctionDef, ast.AsyncFunctionDef)) and any(d is None for d in n.args.kw_defaults)
        and (n.args.defaults or any(d is not None for d in n.args.kw_defaults))
        for n in ast.walk(tree))


def _shape_global_declared(text, offset, tree):
    w = _word_at(text, offset)
    return tree is not None and any(isinstance(n, ast.Global) and w in n.names for n in ast.walk(tree))


# known defects with the exact shape of input they need: signature -> (shape name, test)
SHAPES = {
    "exc:AttributeError@functionutils._get_source_range": ("kwonly-without-default", _shape_kwonly_without_default),
}


# frames that are the same defect met on two paths
ALIAS = {
    "project._find_module_in_folder": "project.find_relative_module",     # relative import, no resource
    "evaluate._find_module": "codeassist._find_module",                    # module name made of dots only
    "codeassist.get_calltip": "codeassist.get_definition_location",        # PyName without location / object
    # PyDocExtractor (get_doc / get_calltip) walking superclasses that are not classes for rope
    "codeassist._get_class_header": "codeassist.PyDocExtractor",
    "codeassist._get_super_methods": "codeassist.PyDocExtractor",
}


ID_RE = re.compile(r"[A-Za-z0-9_]*$")


FROM_NAMES_RE = re.compile(r"^\s*from\s+([A-Za-z_][\w.]*)\s+import\s+((?:\w+(?:\s+as\s+\w+)?\s*,\s*)*)(\w*)$")


def module_names(source):
    """every name a module binds at top level (what `for name in pymodule` yields for it)"""
    out = set()
    for n in ast.parse(source).body:
        for x in ast.walk(n):
            if isinstance(x, (ast.FunctionDef, ast.AsyncFunctionDef, ast.ClassDef)) and x is n:
                out.add(x.name)
            elif isinstance(x, ast.Name) and isinstance(x.ctx, ast.Store) and isinstance(n, (ast.Assign, ast.AnnAssign)):
                out.add(x.id)
            elif isinstance(x, ast.alias) and isinstance(n, (ast.Import, ast.ImportFrom)):
                out.add(x.asname or x.name.split(".")[0])
    return out


def helper_modules():
    from harness import c20_gen
    return {c20_gen.HELPER_MODULE: c20_gen.HELPER_SOURCE}


def write_helpers(root):
    for name, source in helper_modules().items():
        path = os.path.join(root, name + ".py")
        if not os.path.exists(path):
            with open(path, "w") as f:
                f.write(source)


def from_import_oracle(before, proposals):
    """the cursor is in the list of names of a single-line `from m import a, b|`: what is offered are names of m - all
    of them with the typed prefix when m is a module the harness put into the project, none when m does not exist
    (keywords aside).  Returns a signature, "" (judged, fine) or None (not such a position)."""
    m = FROM_NAMES_RE.match(before)
    if m is None:
        return None
    mod, prefix = m.group(1), m.group(3)
    pairs = [(p if isinstance(p, tuple) else (p.name, p.scope)) for p in proposals]
    names = {n for (n, sc) in pairs if sc != "keyword"}
    helpers = helper_modules()
    if mod in helpers:
        want = {x for x in module_names(helpers[mod]) if x.startswith(prefix)}
    elif mod.split(".")[0] in sys.stdlib_module_names:
        return ""
    else:
        want = set()
    if names - want:
        return "from-import:not-a-name-of-the-module"
    if want - names:
        return "from-import:name-of-the-module-missing"
    return ""


def light_oracle(text, offset, proposals):
    """textual checks that need no parse (they also apply to the truncated, invalid texts): every proposal
    extends the identifier characters typed before the cursor; after a dot no keyword is proposed; without a
    dot no attribute is proposed.  Returns a signature or None."""
    ls = text.rfind("\n", 0, offset) + 1
    before = text[ls:offset]
    if any(ch in before for ch in "'\"#\\"):
        return None                      # possibly inside a string / comment: the raw text is used there
    sig = from_import_oracle(before, proposals)
    if sig is not None:
        return sig or None
    prefix = ID_RE.search(before).group()
    head = before[:len(before) - len(prefix)].rstrip(" \t")
    dotted = head.endswith(".") and not re.search(r"(^|[^\w.])\d[\d_]*\.$", head)    # `3.` is a number
    if re.search(r"(^|\s)from\s*\.+$", head) or re.search(r"(^|\s)(from|import)\s", head):
        return None                      # import statements: dots are relative levels, names are module names
    for p in proposals:
        name = p.name[:-1] if p.scope == "parameter_keyword" else p.name
        if not name.startswith(prefix):
            return "proposal-does-not-extend-prefix"
    if dotted and any(p.scope == "keyword" for p in proposals):
        return "keyword-proposal-after-dot"
    if not dotted and head and any(p.scope == "attribute" for p in proposals):
        return "attribute-proposal-without-dot"
    return None


def replaced_by_pass(text, offset):
    """the text with the cursor's physical line replaced by `pass` at the same indentation"""
    ls = text.rfind("\n", 0, offset) + 1
    le = text.find("\n", offset)
    le = len(text) if le < 0 else le
    line = text[ls:le]
    ind = 0 if line.strip() == "" else len(line) - len(line.lstrip(" "))
    return text[:ls] + " " * ind + "pass" + text[le:]


def odd_body_indent(text, offset):
    """the cursor's line is the first statement of a block that is not indented by exactly 4 more than its
    header (the repair inserts `pass` at header + 4)"""
    lines = text.split("\n")
    k = text.count("\n", 0, offset)
    line = lines[k]
    j = k - 1
    while j >= 0 and lines[j].strip() == "":
        j -= 1
    if j < 0 or not lines[j].rstrip().endswith(":"):
        return False
    ind = len(line) - len(line.lstrip(" "))
    pind = len(lines[j]) - len(lines[j].lstrip(" "))
    return ind - pind != 4


def try_body_with_dedented_line(text):
    """what _Commenter._find_matching_deindent takes for the end of a try body is not its handler: the first
    non-blank, non-comment line indented no deeper than some `try:` is a continuation line inside brackets (the
    code says: HACK, we should have used logical lines here); `finally: pass` is then inserted in mid-body"""
    lines = text.split("\n")

    def ind(l):
        return len(l) - len(l.lstrip(" "))

    for k, line in enumerate(lines):
        if line.strip().startswith("try:"):
            for later in lines[k + 1:]:
                st = later.strip()
                if st == "" or st.startswith("#"):
                    continue
                if ind(later) <= ind(line):
                    if not (st.startswith("finally:") or st.startswith("except ") or st.startswith("except:")):
                        return True
                    break
    return False


def repair_refused_signature(text, offset):
    if odd_body_indent(text, offset):
        return "repair-refused:odd-body-indent"
    if try_body_with_dedented_line(text):
        return "repair-refused:dedented-line-in-try-body"
    return "repair-refused"


def texts_of(src):
    """(text, offset, is_truncation) for every offset of src and every truncation of a line at the cursor"""
    out = [(src, o, False) for o in range(len(src) + 1)]
    pos = 0
    for line in src.split("\n"):
        for c in range(len(line)):               # c == len(line) is the untruncated text
            out.append((src[:pos + c] + src[pos + len(line):], pos + c, True))
        pos += len(line) + 1
    return out


def call(entry, project, text, offset, maxfixes):
    from rope.contrib import codeassist
    if entry == "code_assist":
        return codeassist.code_assist(project, text, offset, maxfixes=maxfixes)
    if entry == "code_assist_nolater":
        return codeassist.code_assist(project, text, offset, maxfixes=maxfixes, later_locals=False)
    if entry == "get_definition_location":
        return codeassist.get_definition_location(project, text, offset, maxfixes=maxfixes)
    if entry == "find_definition":
        from rope.contrib import findit
        return findit.find_definition(project, text, offset, maxfixes=maxfixes)
    if entry == "get_doc":
        return codeassist.get_doc(project, text, offset, maxfixes=maxfixes)
    if entry == "get_calltip":
        return codeassist.get_calltip(project, text, offset, maxfixes=maxfixes)
    return codeassist.starting_offset(text, offset)


def judge(entry, exc, valid, on_identifier):
    """None if the outcome is allowed, else a short reason"""
    from rope.base import exceptions
    if isinstance(exc, HangError):
        return "no answer within %.0f s" % CALL_TIMEOUT
    if isinstance(exc, exceptions.ModuleSyntaxError):
        return "ModuleSyntaxError on valid Python" if valid else None
    if isinstance(exc, exceptions.BadIdentifierError):
        if entry.startswith("code_assist") or entry == "starting_offset":
            return "BadIdentifierError out of completion"
        if valid and on_identifier:
            return "BadIdentifierError on an identifier of a valid module"
        return None
    return "internal error %s" % type(exc).__name__


def sweep_text(project, text, offset, trunc, stats, found, entries=ENTRIES, expect=None, origin=None):
    """expect(text, offset, proposals) -> signature | None : completeness oracle of the caller for a truncated
    line that stands for a whole simple statement"""
    valid = is_valid(text)
    ids = identifier_offsets(text) if valid else set()
    # a single truncated line of an otherwise valid module: replacing the line by `pass` gives a valid module
    ls_ = text.rfind("\n", 0, offset) + 1
    simple = trunc and not valid and not text[ls_:offset].rstrip().endswith(":") \
        and is_valid(replaced_by_pass(text, offset))
    if simple:
        stats["truncations:line-is-a-whole-simple-statement"] = stats.get(
            "truncations:line-is-a-whole-simple-statement", 0) + 1
    fixes = (1,) if valid else MAXFIXES          # nothing is repaired in valid text: maxfixes is irrelevant
    for mf in fixes:
        for entry in entries:
            if entry == "starting_offset" and mf != fixes[0]:
                continue
            stats["calls"] += 1
            try:
                with time_limit():
                    got = call(entry, project, text, offset, mf)
                if entry.startswith("code_assist"):
                    sig = light_oracle(text, offset, got)
                    if sig is None and expect is not None and entry == "code_assist" and mf >= 1 and (simple or (valid and trunc)):
                        sig = expect(text, offset, got)
                    if sig is not None:
                        stats["oracle-deviation"] = stats.get("oracle-deviation", 0) + 1
                        rec = found.get(sig)
                        if rec is None or len(text) < len(rec["text"]):
                            found[sig] = {"kind": "sweep", "entry": entry, "text": text, "offset": offset,
                                          "maxfixes": mf, "truncated": trunc, "why": "oracle: " + sig,
                                          "exception": None, "focus": sig, "count": (rec or {}).get("count", 0) + 1,
                                          "proposals": sorted((p.name, p.scope) for p in got)[:12]}
                        else:
                            rec["count"] += 1
            except Exception as e:  # noqa: BLE001 - the point is to see everything
                if not os.path.isdir(project.address):
                    raise ScratchGone(project.address)
                why = judge(entry, e, valid, offset in ids)
                repair_refused = False
                if why is None and simple and mf >= 1 and type(e).__name__ == "ModuleSyntaxError" \
                        and entry.startswith("code_assist"):
                    why = "ModuleSyntaxError with maxfixes>=1 although the truncated line alone is at fault"
                    repair_refused = True
                if why is None:
                    stats["refused:" + type(e).__name__] = stats.get("refused:" + type(e).__name__, 0) + 1
                    continue
                sig = signature_of(entry, e, e.__traceback__, text, offset, origin)
                if repair_refused:
                    sig = repair_refused_signature(text, offset)
                stats["internal"] = stats.get("internal", 0) + 1
                rec = found.get(sig)
                if rec is None or len(text) < len(rec["text"]):
                    found[sig] = {"kind": "sweep", "entry": entry, "text": text, "offset": offset, "maxfixes": mf,
                                  "truncated": trunc, "why": why, "exception": type(e).__name__,
                                  "focus": sig, "count": (rec or {}).get("count", 0) + 1,
                                  "traceback": "".join(traceback.format_exception(e))[-1500:]}
                else:
                    rec["count"] += 1


def sweep_module(src, full=True, expect=None):
    """Worker entry point: returns (stats, found) for one module.  `full`: truncations too."""
    from rope.base.project import Project
    for attempt in range(3):
        d = tempfile.mkdtemp(prefix="ropeverif-c20s-")
        stats = {"calls": 0}
        found = {}
        try:
            write_helpers(d)
            project = Project(d, ropefolder=None)
            try:
                for (text, offset, trunc) in texts_of(src):
                    if trunc and not full:
                        continue
                    sweep_text(project, text, offset, trunc, stats, found, expect=expect, origin=src)
                return stats, found
            except ScratchGone:
                if attempt == 2:
                    raise
            finally:
                try:
                    project.close()
                except Exception:  # noqa: BLE001
                    pass
        finally:
            shutil.rmtree(d, ignore_errors=True)
    return stats, found


def replay_one(rec):
    """re-run one recorded call; returns the signature observed now (None: allowed outcome)"""
    from rope.base.project import Project
    d = tempfile.mkdtemp(prefix="ropeverif-c20s-")
    try:
        write_helpers(d)
        project = Project(d, ropefolder=None)
        try:
            text, offset = rec["text"], rec["offset"]
            try:
                with time_limit():
                    got = call(rec["entry"], project, text, offset, rec.get("maxfixes", 1))
                if rec["entry"].startswith("code_assist"):
                    return light_oracle(text, offset, got)
            except Exception as e:  # noqa: BLE001
                valid = is_valid(text)
                ids = identifier_offsets(text) if valid else set()
                if judge(rec["entry"], e, valid, offset in ids) is None:
                    if type(e).__name__ == "ModuleSyntaxError" and rec.get("maxfixes", 1) >= 1 and not valid \
                            and rec["entry"].startswith("code_assist") and is_valid(replaced_by_pass(text, offset)) \
                            and not text[text.rfind("\n", 0, offset) + 1:offset].rstrip().endswith(":"):
                        return repair_refused_signature(text, offset)
                    return None
                return signature_of(rec["entry"], e, e.__traceback__, text, offset)
            return None
        finally:
            project.close()
    finally:
        shutil.rmtree(d, ignore_errors=True)
