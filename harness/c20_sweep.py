"""C20, the part that is decided by exhaustive execution (no theorem): at EVERY offset of a module, and for
every truncation of the cursor's line at the cursor (rest of the file kept), with maxfixes in {0, 1, 3} and
both later_locals values, the five entry points of rope.contrib.codeassist return or refuse in a documented
way.

Allowed outcomes
  * a value;
  * rope.base.exceptions.ModuleSyntaxError when the text is not valid Python (the repair heuristic gave up);
  * for get_definition_location / get_doc / get_calltip only: BadIdentifierError when the offset is not on an
    identifier token of a valid module (rope's documented refusal for "nothing resolvable selected").
Everything else is an internal error: any exception that is not one of these two, ModuleSyntaxError on valid
text, BadIdentifierError out of code_assist, BadIdentifierError on an identifier of a valid module.

Each internal error gets a structural signature  exc:<entry>:<Exception>@<innermost rope frame>[:<context>]
(see `signature_of`).  The sweep is run in worker processes (one scratch project each)."""
import ast
import io
import keyword
import os
import re
import shutil
import signal
import tempfile
import token as _token
import tokenize
import traceback
import warnings

warnings.filterwarnings("ignore", category=SyntaxWarning)

MAXFIXES = (0, 1, 3)
CALL_TIMEOUT = float(os.environ.get("VERIF_C20_CALL_TIMEOUT", "8"))     # seconds; a normal call takes milliseconds


class HangError(Exception):
    """raised by the alarm when one call of an entry point does not return in time"""


class time_limit:
    """with time_limit(): ...   (main thread of the process only)"""

    def __init__(self, seconds=None):
        self.seconds = CALL_TIMEOUT if seconds is None else seconds

    def _fire(self, signum, frame):
        raise HangError("no answer within %.0f s" % self.seconds)

    def __enter__(self):
        self.old = signal.signal(signal.SIGALRM, self._fire)
        signal.setitimer(signal.ITIMER_REAL, self.seconds)

    def __exit__(self, *exc):
        signal.setitimer(signal.ITIMER_REAL, 0)
        signal.signal(signal.SIGALRM, self.old)
        return False
ENTRIES = ("code_assist", "code_assist_nolater", "get_definition_location", "get_doc", "get_calltip",
           "starting_offset")


def is_valid(text):
    try:
        ast.parse(text)
        return True
    except (SyntaxError, ValueError, RecursionError, MemoryError):
        return False


def identifier_offsets(text):
    """offsets covered by NAME tokens that are not keywords (valid text only)"""
    out = set()
    starts = [0]
    for line in text.split("\n"):
        starts.append(starts[-1] + len(line) + 1)
    try:
        for t in tokenize.generate_tokens(io.StringIO(text).readline):
            if t.type == _token.NAME and not keyword.iskeyword(t.string) and t.start[0] == t.end[0]:
                base = starts[t.start[0] - 1]
                out.update(range(base + t.start[1], base + t.end[1]))
    except (tokenize.TokenError, IndentationError, SyntaxError):
        pass
    return out


def cursor_context(text, offset):
    """structural description of the text just before the cursor (part of the signature)"""
    ls = text.rfind("\n", 0, offset) + 1
    before = text[ls:offset]
    if re.search(r"[\w\)\]]\s*\.\s*\w+[ \t]+$", before):
        return "space-after-dotted-name"
    if re.search(r"\.\s*$", before):
        return "after-dot"
    if re.search(r"\.\s*\w+$", before):
        return "in-attribute-name"
    if re.search(r"\w$", before):
        return "in-word"
    if before.strip() == "":
        return "line-start"
    return "other"


def rope_frame(tb):
    """innermost frame inside the rope package: 'file.function'"""
    frames = traceback.extract_tb(tb)
    if len(frames) > 200:
        # runaway recursion: the frame that repeats
        seen = {}
        for fr in frames:
            k = (fr.filename, fr.name)
            seen[k] = seen.get(k, 0) + 1
        fn, name = max(seen, key=seen.get)
        return "%s.%s" % (os.path.basename(fn)[:-3], name)
    for fr in reversed(frames):
        fn = fr.filename.replace("\\", "/")
        if "/rope/base/oi/" in fn:
            return "oi.type-inference"         # rope.base.oi is modelled-not-verified everywhere in /verif
        if "/rope/" in fn:
            return "%s.%s" % (os.path.basename(fn)[:-3], fr.name)
    fr = frames[-1]
    return "%s.%s" % (os.path.basename(fr.filename)[:-3], fr.name)


def signature_of(entry, exc, tb, text, offset):
    """exc:<Exception>@<innermost rope frame>; BadIdentifierError also carries the entry group (it is an allowed
    refusal of the pyname_at entries on non-identifiers)"""
    if isinstance(exc, HangError):
        oi = any("/rope/base/oi/" in fr.filename.replace("\\", "/") for fr in traceback.extract_tb(tb))
        group = "code_assist" if entry.startswith("code_assist") else (
            "starting_offset" if entry == "starting_offset" else "pyname_at")
        return "hang:type-inference" if oi else "hang:" + group
    frame = ALIAS.get(rope_frame(tb), rope_frame(tb))
    name = type(exc).__name__
    if frame == "oi.type-inference":
        return "exc:type-inference"
    if frame.startswith("patchedast."):
        # the source-annotated tree (property C08) could not be built for the repaired module
        return "exc:patchedast-failure"
    if name == "BadIdentifierError":
        group = "code_assist" if entry.startswith("code_assist") else (
            "starting_offset" if entry == "starting_offset" else "pyname_at")
        return "exc:%s:%s@%s" % (group, name, frame)
    return "exc:%s@%s" % (name, frame)


# frames that are the same defect met on two paths
ALIAS = {
    "project._find_module_in_folder": "project.find_relative_module",     # relative import, no resource
    "evaluate._find_module": "codeassist._find_module",                    # module name made of dots only
    "codeassist.get_calltip": "codeassist.get_definition_location",        # PyName without location / object
    # PyDocExtractor (get_doc / get_calltip) walking superclasses that are not classes for rope
    "codeassist._get_class_header": "codeassist.PyDocExtractor",
    "codeassist._get_super_methods": "codeassist.PyDocExtractor",
}


ID_RE = re.compile(r"[A-Za-z0-9_]*$")


def light_oracle(text, offset, proposals):
    """textual checks that need no parse (they also apply to the truncated, invalid texts): every proposal
    extends the identifier characters typed before the cursor; after a dot no keyword is proposed; without a
    dot no attribute is proposed.  Returns a signature or None."""
    ls = text.rfind("\n", 0, offset) + 1
    before = text[ls:offset]
    if any(ch in before for ch in "'\"#\\"):
        return None                      # possibly inside a string / comment: the raw text is used there
    prefix = ID_RE.search(before).group()
    head = before[:len(before) - len(prefix)].rstrip(" \t")
    dotted = head.endswith(".")
    if re.search(r"(^|\s)from\s*\.+$", head) or re.search(r"(^|\s)(from|import)\s", head):
        return None                      # import statements: dots are relative levels, names are module names
    for p in proposals:
        name = p.name[:-1] if p.scope == "parameter_keyword" else p.name
        if not name.startswith(prefix):
            return "proposal-does-not-extend-prefix"
    if dotted and any(p.scope == "keyword" for p in proposals):
        return "keyword-proposal-after-dot"
    if not dotted and head and any(p.scope == "attribute" for p in proposals):
        return "attribute-proposal-without-dot"
    return None


def texts_of(src):
    """(text, offset, is_truncation) for every offset of src and every truncation of a line at the cursor"""
    out = [(src, o, False) for o in range(len(src) + 1)]
    pos = 0
    for line in src.split("\n"):
        for c in range(len(line)):               # c == len(line) is the untruncated text
            out.append((src[:pos + c] + src[pos + len(line):], pos + c, True))
        pos += len(line) + 1
    return out


def call(entry, project, text, offset, maxfixes):
    from rope.contrib import codeassist
    if entry == "code_assist":
        return codeassist.code_assist(project, text, offset, maxfixes=maxfixes)
    if entry == "code_assist_nolater":
        return codeassist.code_assist(project, text, offset, maxfixes=maxfixes, later_locals=False)
    if entry == "get_definition_location":
        return codeassist.get_definition_location(project, text, offset, maxfixes=maxfixes)
    if entry == "get_doc":
        return codeassist.get_doc(project, text, offset, maxfixes=maxfixes)
    if entry == "get_calltip":
        return codeassist.get_calltip(project, text, offset, maxfixes=maxfixes)
    return codeassist.starting_offset(text, offset)


def judge(entry, exc, valid, on_identifier):
    """None if the outcome is allowed, else a short reason"""
    from rope.base import exceptions
    if isinstance(exc, HangError):
        return "no answer within %.0f s" % CALL_TIMEOUT
    if isinstance(exc, exceptions.ModuleSyntaxError):
        return "ModuleSyntaxError on valid Python" if valid else None
    if isinstance(exc, exceptions.BadIdentifierError):
        if entry.startswith("code_assist") or entry == "starting_offset":
            return "BadIdentifierError out of completion"
        if valid and on_identifier:
            return "BadIdentifierError on an identifier of a valid module"
        return None
    return "internal error %s" % type(exc).__name__


def sweep_text(project, text, offset, trunc, stats, found, entries=ENTRIES):
    valid = is_valid(text)
    ids = identifier_offsets(text) if valid else set()
    fixes = (1,) if valid else MAXFIXES          # nothing is repaired in valid text: maxfixes is irrelevant
    for mf in fixes:
        for entry in entries:
            if entry == "starting_offset" and mf != fixes[0]:
                continue
            stats["calls"] += 1
            try:
                with time_limit():
                    got = call(entry, project, text, offset, mf)
                if entry.startswith("code_assist"):
                    sig = light_oracle(text, offset, got)
                    if sig is not None:
                        stats["oracle-deviation"] = stats.get("oracle-deviation", 0) + 1
                        rec = found.get(sig)
                        if rec is None or len(text) < len(rec["text"]):
                            found[sig] = {"kind": "sweep", "entry": entry, "text": text, "offset": offset,
                                          "maxfixes": mf, "truncated": trunc, "why": "oracle: " + sig,
                                          "exception": None, "focus": sig, "count": (rec or {}).get("count", 0) + 1,
                                          "proposals": sorted((p.name, p.scope) for p in got)[:12]}
                        else:
                            rec["count"] += 1
            except Exception as e:  # noqa: BLE001 - the point is to see everything
                why = judge(entry, e, valid, offset in ids)
                if why is None:
                    stats["refused:" + type(e).__name__] = stats.get("refused:" + type(e).__name__, 0) + 1
                    continue
                sig = signature_of(entry, e, e.__traceback__, text, offset)
                stats["internal"] = stats.get("internal", 0) + 1
                rec = found.get(sig)
                if rec is None or len(text) < len(rec["text"]):
                    found[sig] = {"kind": "sweep", "entry": entry, "text": text, "offset": offset, "maxfixes": mf,
                                  "truncated": trunc, "why": why, "exception": type(e).__name__,
                                  "focus": sig, "count": (rec or {}).get("count", 0) + 1,
                                  "traceback": "".join(traceback.format_exception(e))[-1500:]}
                else:
                    rec["count"] += 1


def sweep_module(src, full=True):
    """Worker entry point: returns (stats, found) for one module.  `full`: truncations too."""
    from rope.base.project import Project
    d = tempfile.mkdtemp(prefix="ropeverif-c20s-")
    stats = {"calls": 0}
    found = {}
    try:
        project = Project(d, ropefolder=None)
        try:
            for (text, offset, trunc) in texts_of(src):
                if trunc and not full:
                    continue
                sweep_text(project, text, offset, trunc, stats, found)
        finally:
            project.close()
    finally:
        shutil.rmtree(d, ignore_errors=True)
    return stats, found


def replay_one(rec):
    """re-run one recorded call; returns the signature observed now (None: allowed outcome)"""
    from rope.base.project import Project
    d = tempfile.mkdtemp(prefix="ropeverif-c20s-")
    try:
        project = Project(d, ropefolder=None)
        try:
            text, offset = rec["text"], rec["offset"]
            try:
                with time_limit():
                    got = call(rec["entry"], project, text, offset, rec.get("maxfixes", 1))
                if rec["entry"].startswith("code_assist"):
                    return light_oracle(text, offset, got)
            except Exception as e:  # noqa: BLE001
                valid = is_valid(text)
                ids = identifier_offsets(text) if valid else set()
                if judge(rec["entry"], e, valid, offset in ids) is None:
                    return None
                return signature_of(rec["entry"], e, e.__traceback__, text, offset)
            return None
        finally:
            project.close()
    finally:
        shutil.rmtree(d, ignore_errors=True)
