"""C10 driver: runs one History.do / undo / redo call of a real rope project in a temporary directory
under a fault schedule (FaultyFS) and a stop schedule (TaskHandle observer), and abstracts everything
that is observed to JSON-able values and Gallina terms.

Change specs (JSON-able lists):
    ["CC", path, new, old|None]   ChangeContents          ["MV", src, dst, is_folder]  MoveResource(exact=True)
    ["CR", path, is_folder]       CreateResource          ["RM", path, is_folder]      RemoveResource
    ["CS", description, [specs]]  ChangeSet
Ops: ["do", spec] | ["undo"] | ["redo"].
Scenario: {"tree": {path: text|None(folder)}, "limit": int, "setup": [ops], "op": op}.
"""
import os
import shutil
import sys
import tempfile

from harness.common import g_N, g_nat, g_bool, g_list, g_opt, g_pair

# segment names are interned by position in this table (tiny pool: collisions are the point)
SEGMENTS = ["a", "b", "c.py", "d", "e.txt", "x"]
SEG_ID = {s: i + 1 for i, s in enumerate(SEGMENTS)}


class InjectedFault(OSError):
    in_observer = False          # raised from a read issued by a resource observer


class ObserverFailure(Exception):
    """raised by the harness's own resource observer"""


class CountingObserver:
    """A project resource observer (registered after rope's own): counts the notifications that
    _ResourceOperations sends after each successful primitive and raises during the `at`-th."""

    def __init__(self):
        self.n = 0
        self.at = None

    def reset(self, at=None):
        self.n = 0
        self.at = at

    def _note(self):
        i = self.n
        self.n += 1
        if self.at is not None and i == self.at:
            raise ObserverFailure("observer raised at notification %d" % i)

    def resource_changed(self, resource):
        self._note()

    def resource_moved(self, resource, new_resource):
        self._note()

    def resource_created(self, resource):
        self._note()

    def resource_removed(self, resource):
        self._note()

    def validate(self, resource):
        pass


def _find_call_frame(start_depth=2, limit=10):
    """The frame of change._handle_job_set.<locals>.call that (transitively) issued the primitive, and
    the name of the undecorated method it called ('do'/'undo').  (None, None) when not found."""
    f = sys._getframe(start_depth)
    below = None
    for _ in range(limit):
        if f is None:
            break
        code = f.f_code
        if code.co_name == "call" and code.co_filename.replace("\\", "/").endswith("rope/base/change.py") \
                and "job_set" in f.f_locals:
            return f, (below.f_code.co_name if below is not None else None)
        below = f
        f = f.f_back
    return None, None


class FaultyFS:
    """Delegates to rope's FileSystemCommands.  The `armed`-th counted call raises InjectedFault instead of
    being performed.  Counted calls: create_file, create_folder, move, remove, write (including its
    newline-detecting pre-read, see read()), and the read that ChangeContents.do issues itself (reads issued by resource observers, e.g. automatic_soa, are passed
    through and tallied in `observer_reads`: observers are outside the model)."""

    def __init__(self):
        from rope.base.fscommands import FileSystemCommands
        self.real = FileSystemCommands()
        self.counter = None
        self.reset()

    def reset(self, armed=None, op=None, obs_armed=None, partial=False):
        self.armed = armed
        self.partial = partial        # the armed call, if a write, truncates the file before raising
        self.truncated = False
        self.fired_obs_index = None   # notifications counted when an observer-issued read was failed
        self.obs_armed = obs_armed    # index of the observer-issued read that raises (probe stream only)
        self.fired_in_observer = False
        self.op = op              # 'do' | 'undo' | 'redo' | None (setup: nothing recorded)
        self.n = 0
        self.fired = False
        self.log = []             # (name, phase, ok)
        self.irrev = False        # a forward-phase primitive succeeded that cannot be compensated exactly
        self.removed = False      # ... and it was a RemoveResource
        self.unexpected_irrev = False   # ... in a way no input can cause on the verified code (see _why)
        self._why = None
        self.observer_reads = 0
        self.unmodelled = False
        self.unknown_phase = 0

    # ------------------------------------------------------------------------------------------
    def _context(self):
        from rope.base import taskhandle
        frame, meth = _find_call_frame(3)
        if frame is None:
            return None, None, None
        js = frame.f_locals.get("job_set")
        forward = not isinstance(js, taskhandle.NullJobSet)
        return frame.f_locals.get("self"), meth, forward

    def _counted(self, name, reversible, thunk, partial_path=None):
        chg, meth, forward = self._context()
        if forward is None:
            self.unknown_phase += 1
        i = self.n
        self.n += 1
        if self.armed is not None and i == self.armed:
            self.fired = True
            self.log.append((name, forward, "fault"))
            if self.partial and name == "write" and partial_path is not None:
                try:
                    open(partial_path, "wb").close()     # what open(path, "wb") has done before write() fails
                    self.truncated = True
                except OSError:
                    pass
            raise InjectedFault("injected fault at primitive call %d (%s)" % (i, name))
        rev = None
        self._why = None
        if forward and self.op is not None:
            try:
                rev = reversible(chg, meth)
            except Exception:
                rev = None
        try:
            res = thunk()
        except BaseException:
            self.log.append((name, forward, "error"))
            raise
        self.log.append((name, forward, "ok"))
        if forward and self.op is not None and rev is not True:
            self.irrev = True
            if name == "remove" and meth == "do":
                self.removed = True
            if self._why is not None:
                # an edit without recorded old contents created its file / a file was moved below a folder
                # that did not exist: the verified code refuses both before anything happens
                self.unexpected_irrev = True
        return res

    # ---- the FileSystemCommands interface ------------------------------------------------------
    def create_file(self, path):
        return self._counted("create_file", lambda c, m: True, lambda: self.real.create_file(path))

    def create_folder(self, path):
        return self._counted("create_folder", lambda c, m: True, lambda: self.real.create_folder(path))

    def move(self, path, new_location):
        if os.path.isdir(path) and not os.path.lexists(new_location) \
                and not os.path.isdir(os.path.dirname(new_location)) \
                and not (self.armed is not None and self.n == self.armed):
            self.unmodelled = True          # shutil.move's copytree fallback creates the ancestors

        def reversible(c, m):
            if not os.path.isdir(path) and not os.path.lexists(new_location) \
                    and not os.path.isdir(os.path.dirname(new_location)):
                self._why = "file moved below a missing folder"
            return (os.path.lexists(path) and not os.path.lexists(new_location)
                    and os.path.isdir(os.path.dirname(new_location))
                    and not (new_location + os.sep).startswith(path + os.sep))
        return self._counted("move", reversible, lambda: self.real.move(path, new_location))

    def remove(self, path):
        def reversible(c, m):
            if m != "undo":
                return False                                    # RemoveResource.do
            is_folder = c.resource.is_folder()
            if os.path.isdir(path):
                return is_folder and not os.listdir(path)
            return (not is_folder) and os.path.isfile(path) and os.path.getsize(path) == 0
        return self._counted("remove", reversible, lambda: self.real.remove(path))

    def write(self, path, data):
        def reversible(c, m):
            if not os.path.isfile(path):
                if m == "do" and not getattr(c, "_verif_explicit_old", False) and not os.path.lexists(path):
                    self._why = "an edit without recorded old contents created the file"
                return False                                    # open(.., "wb") creates the file
            with open(path, "rb") as f:
                cur = f.read()
            expect = c.old_contents if m == "do" else c.new_contents
            if expect is None:
                return False
            if isinstance(expect, str):
                expect = expect.encode("utf-8")
            if b"\r" in cur:
                # rope holds texts with \n line ends and translates at write time (write_file): a CRLF / CR file
                # whose text is the recorded one is the expected state
                cur = cur.replace(b"\r\n", b"\n").replace(b"\r", b"\n")
            return cur == expect
        return self._counted("write", reversible, lambda: self.real.write(path, data), partial_path=path)

    def read(self, path):
        f = sys._getframe(1)
        chain = []
        for _ in range(3):
            if f is None:
                break
            chain.append((f.f_code.co_name, f.f_code.co_filename.replace("\\", "/")))
            f = f.f_back
        own = (len(chain) == 3 and chain[0][0] == "read_bytes" and chain[1][0] == "read"
               and chain[2][0] == "do" and chain[2][1].endswith("rope/base/change.py"))
        if len(chain) == 3 and chain[0][0] == "read_bytes" and chain[1][0] == "read" and chain[2][0] == "write_file":
            # _ResourceOperations.write_file detects the newline convention of a file it has not read yet
            # (since commit f64a998).  The model has one primitive per write_file: a pre-read that succeeds
            # is passed through (not a fault point); one that fails (the path is a folder) IS the failing
            # write attempt of the model and takes its call index.
            failed = None
            try:
                return self.real.read(path)
            except OSError as e:
                failed = e
            # (outside the handler, so that an injected fault does not get the OSError as __context__)
            i = self.n
            self.n += 1
            if self.armed is not None and i == self.armed:
                self.fired = True
                self.log.append(("write", None, "fault"))
                raise InjectedFault("injected fault at primitive call %d (write, pre-read)" % i)
            self.log.append(("write", None, "error"))
            raise failed
        if not own:
            i = self.observer_reads
            self.observer_reads += 1
            if self.obs_armed is not None and i == self.obs_armed:
                self.fired = True
                self.fired_in_observer = True
                self.fired_obs_index = self.counter.n if self.counter is not None else None
                e = InjectedFault("injected fault at observer read %d" % i)
                e.in_observer = True
                raise e
            return self.real.read(path)
        return self._counted("read", lambda c, m: True, lambda: self.real.read(path))


class Stopper:
    """TaskHandle observer: calls handle.stop() during its `at`-th notification."""

    def __init__(self, handle, at):
        self.handle = handle
        self.at = at
        self.n = 0
        self.busy = False
        self.stopped_at = None

    def __call__(self):
        if self.busy:
            return
        i = self.n
        self.n += 1
        if self.at is not None and i == self.at:
            self.busy = True
            try:
                self.handle.stop()
            finally:
                self.busy = False
            self.stopped_at = i


# --------------------------------------------------------------------------------- tree snapshots
def populate(root, tree):
    for p in sorted(tree, key=lambda p: p.count("/")):
        full = os.path.join(root, *p.split("/"))
        if tree[p] is None:
            os.makedirs(full, exist_ok=True)
        else:
            os.makedirs(os.path.dirname(full), exist_ok=True)
            with open(full, "wb") as f:
                f.write(tree[p].encode("utf-8"))


def snapshot(root):
    """{relative path: bytes | None (folder)}; anything that is neither a regular file nor a folder is
    recorded under its type name so that it can never compare equal to a model node."""
    res = {}
    for d, dirs, files in os.walk(root):
        for x in dirs:
            full = os.path.join(d, x)
            rel = os.path.relpath(full, root).replace(os.sep, "/")
            res[rel] = ("symlink",) if os.path.islink(full) else None
        for x in files:
            full = os.path.join(d, x)
            rel = os.path.relpath(full, root).replace(os.sep, "/")
            if os.path.islink(full) or not os.path.isfile(full):
                res[rel] = ("special",)
            else:
                with open(full, "rb") as f:
                    res[rel] = f.read()
    return res


# --------------------------------------------------------------------------- building real changes
def build_change(project, spec):
    from rope.base import change as ch
    kind = spec[0]
    if kind == "CC":
        c = ch.ChangeContents(project.get_file(spec[1]), spec[2], spec[3])
        c._verif_explicit_old = spec[3] is not None
        return c
    if kind == "MV":
        res = project.get_folder(spec[1]) if spec[3] else project.get_file(spec[1])
        return ch.MoveResource(res, spec[2], exact=True)
    if kind == "CR":
        res = project.get_folder(spec[1]) if spec[2] else project.get_file(spec[1])
        if spec[1] and len(spec) > 3 and spec[3]:
            # the public subclasses CreateFolder / CreateFile (same do/undo)
            parent = project.get_folder("/".join(spec[1].split("/")[:-1]))
            name = spec[1].split("/")[-1]
            return (ch.CreateFolder if spec[2] else ch.CreateFile)(parent, name)
        return ch.CreateResource(res)
    if kind == "RM":
        res = project.get_folder(spec[1]) if spec[2] else project.get_file(spec[1])
        return ch.RemoveResource(res)
    if kind == "CS":
        cs = ch.ChangeSet(spec[1])
        for child in spec[2]:
            cs.add_change(build_change(project, child))
        return cs
    raise ValueError(kind)


def abstract_change(c):
    """real Change object -> spec (with the captured old_contents)"""
    from rope.base import change as ch
    if isinstance(c, ch.ChangeSet):
        return ["CS", c.description, [abstract_change(x) for x in c.changes]]
    if isinstance(c, ch.ChangeContents):
        return ["CC", c.resource.path, c.new_contents, c.old_contents]
    if isinstance(c, ch.MoveResource):
        return ["MV", c.resource.path, c.new_resource.path, c.resource.is_folder()]
    if isinstance(c, ch.CreateResource):
        return ["CR", c.resource.path, c.resource.is_folder()]
    if isinstance(c, ch.RemoveResource):
        return ["RM", c.resource.path, c.resource.is_folder()]
    raise TypeError(type(c))


def leaves(spec):
    if spec[0] == "CS":
        return [l for c in spec[2] for l in leaves(c)]
    return [spec]


def depth(spec):
    if spec[0] == "CS":
        return 1 + max([depth(c) for c in spec[2]] or [0])
    return 0


# ------------------------------------------------------------------------------ exception chains
def exc_codes(exc):
    """exception chain (exc, exc.__context__, ...) -> class codes of coq/C10/Runner.v"""
    from rope.base import exceptions
    codes = []
    e = exc
    seen = 0
    while e is not None and seen < 30:
        seen += 1
        if isinstance(e, ObserverFailure) or (isinstance(e, InjectedFault) and e.in_observer):
            codes.append(9)
        elif isinstance(e, InjectedFault):
            codes.append(1)
        elif isinstance(e, OSError):
            codes.append(2)
        elif type(e) is exceptions.RopeError:
            if e.args and isinstance(e.args[0], OSError):
                codes.append(20)
            elif e.args and isinstance(e.args[0], str) and "already exists" in e.args[0]:
                codes.append(3)
            else:
                codes.append(98)
        elif isinstance(e, exceptions.ResourceNotFoundError):
            codes.append(4)
        elif isinstance(e, exceptions.HistoryError):
            msg = str(e.args[0]) if e.args else ""
            codes.append(5 if "not performed" in msg else 8 if "is empty" in msg else 97)
        elif isinstance(e, exceptions.InterruptedTaskError):
            codes.append(6)
        elif isinstance(e, NotImplementedError):
            codes.append(7)
        else:
            codes.append(99)
        e = e.__context__
    return codes


OBSERVER_ENTRY = ("resource_changed", "resource_moved", "resource_created", "resource_removed")


def observer_raised(exc):
    """some exception of the chain was raised inside a resource observer notification (outside the model)"""
    e = exc
    seen = 0
    while e is not None and seen < 30:
        seen += 1
        ours = isinstance(e, ObserverFailure) or (isinstance(e, InjectedFault) and e.in_observer)
        tb = e.__traceback__
        while tb is not None and not ours:
            if tb.tb_frame.f_code.co_name in OBSERVER_ENTRY:
                return True
            tb = tb.tb_next
        e = e.__context__
    return False


def base_exception_frames(exc):
    """function names on the traceback of the first exception of the chain (the original failure)"""
    e = exc
    seen = 0
    while e.__context__ is not None and seen < 30:
        e = e.__context__
        seen += 1
    names = []
    tb = e.__traceback__
    while tb is not None:
        names.append(tb.tb_frame.f_code.co_name)
        tb = tb.tb_next
    return names


# -------------------------------------------------------------------------------------- execution
class Run:
    pass


def preview(change):
    """what a user interface does with a change before performing it"""
    from rope.base import change as ch
    change.get_description()
    str(change)
    change.get_changed_resources()
    if isinstance(change, ch.ChangeSet):
        for child in change.changes:
            preview(child)


def perform(project, op, handle, built=None):
    if op[0] == "do":
        c = built if built is not None else build_change(project, op[1])
        project.do(c, task_handle=handle)
    elif op[0] == "undo":
        project.history.undo(task_handle=handle)
    elif op[0] == "redo":
        project.history.redo(task_handle=handle)
    else:
        raise ValueError(op)


def execute(scn, flt=None, stp=None, record_setup=False, obs=None, obsfail=None, partial=False):
    """Runs the scenario's setup ops without faults, then its op under (flt, stp).
    Returns a Run (and, with record_setup, the list of Runs of the setup ops)."""
    from rope.base.project import Project
    from rope.base import taskhandle
    root = tempfile.mkdtemp(prefix="ropeverif-")
    setup_runs = []
    try:
        populate(root, scn["tree"])
        fsc = FaultyFS()
        project = Project(root, fscommands=fsc, ropefolder=None, max_history_items=scn.get("limit", 100))
        hist = project.history
        counter = CountingObserver()
        project.add_observer(counter)
        fsc.counter = counter
        ops = [(op, None, None, False) for op in scn.get("setup", [])] + [(scn["op"], flt, stp, True)]
        obs_for_test = obs
        last = None
        # the change under test may be constructed and PREVIEWED (get_description, str,
        # get_changed_resources, on the set and on its children) before set-up operation number `preview`
        preview_at = scn.get("preview")
        prebuilt = None
        preview_mutated = None
        for idx, (op, f, s, is_test) in enumerate(ops):
            if preview_at is not None and idx == min(preview_at, len(ops) - 1) and scn["op"][0] == "do" and prebuilt is None:
                try:
                    prebuilt = build_change(project, scn["op"][1])
                    before = abstract_change(prebuilt)
                    preview(prebuilt)
                    after = abstract_change(prebuilt)
                    if after != before:
                        preview_mutated = "before %r after %r" % (before, after)
                except Exception as e:
                    prebuilt = None
                    preview_mutated = None
            r = Run()
            r.op = op
            r.scenario = {"tree": scn["tree"], "limit": scn.get("limit", 100),
                          "setup": [o for (o, _, _, _) in ops[:idx]], "op": op}
            if is_test and preview_at is not None:
                r.scenario["preview"] = preview_at
            r.flt, r.stp = f, s
            r.limit = hist.max_undos
            r.pre_tree = snapshot(root)
            r.pre_undo_objs = list(hist.undo_list)
            r.pre_redo_objs = list(hist.redo_list)
            r.pre_undo = [abstract_change(c) for c in r.pre_undo_objs]
            r.pre_redo = [abstract_change(c) for c in r.pre_redo_objs]
            built = None
            r.change = None
            r.build_error = None
            r.previewed = bool(is_test and prebuilt is not None)
            r.preview_mutated = preview_mutated if is_test else None
            if op[0] == "do":
                try:
                    built = prebuilt if (is_test and prebuilt is not None) else build_change(project, op[1])
                    r.change = abstract_change(built)
                except Exception as e:          # a spec that rope refuses to construct: not a case
                    r.build_error = repr(e)
            handle = taskhandle.TaskHandle("C10")
            stopper = Stopper(handle, s)
            handle.add_observer(stopper)
            fsc.reset(armed=f, op=op[0], obs_armed=(obs_for_test if is_test else None),
                      partial=(partial and is_test))
            counter.reset(at=(obsfail if is_test else None))
            r.obs = obs_for_test if is_test else None
            r.obsfail = obsfail if is_test else None
            r.partial = bool(partial and is_test)
            r.exc = None
            if r.build_error is None:
                try:
                    perform(project, op, handle, built)
                except Exception as e:
                    r.exc = e
            r.raised = r.exc is not None
            r.codes = exc_codes(r.exc) if r.exc is not None else []
            r.exc_repr = repr(r.exc)[:200] if r.exc is not None else None
            r.base_frames = base_exception_frames(r.exc) if r.exc is not None else []
            r.observer_raised = observer_raised(r.exc) if r.exc is not None else False
            r.exc = None
            r.calls = fsc.n
            r.fired = fsc.fired
            r.fired_in_observer = fsc.fired_in_observer
            r.fired_obs_index = fsc.fired_obs_index
            r.truncated = fsc.truncated
            r.n_obs = counter.n
            r.log = list(fsc.log)
            r.py_irrev = fsc.irrev
            r.removed = fsc.removed
            r.unexpected_irrev = fsc.unexpected_irrev
            r.unmodelled = fsc.unmodelled
            r.unknown_phase = fsc.unknown_phase
            r.observer_reads = fsc.observer_reads
            r.notifications = stopper.n
            r.stopped_at = stopper.stopped_at
            r.built = built
            fsc.reset()
            counter.reset()
            r.post_tree = snapshot(root)
            r.post_undo_objs = list(hist.undo_list)
            r.post_redo_objs = list(hist.redo_list)
            r.post_undo = [abstract_change(c) for c in r.post_undo_objs]
            r.post_redo = [abstract_change(c) for c in r.post_redo_objs]
            r.current_change_cleared = hist.current_change is None
            if is_test:
                last = r
            else:
                setup_runs.append(r)
        project.close()
    finally:
        shutil.rmtree(root, ignore_errors=True)
    if record_setup:
        return last, setup_runs
    return last


# ---------------------------------------------------------------------------------- Gallina terms
def g_path(p):
    if p == "":
        return "[]"
    return g_list([g_N(SEG_ID[s]) for s in p.split("/")])


def g_bytes(b):
    if isinstance(b, str):
        b = b.encode("utf-8")
    return g_list([g_N(x) for x in b])


def g_change(spec):
    k = spec[0]
    if k == "CC":
        return "(CC %s %s %s)" % (g_path(spec[1]), g_bytes(spec[2]), g_opt(None if spec[3] is None else g_bytes(spec[3])))
    if k == "MV":
        return "(MV %s %s %s)" % (g_path(spec[1]), g_path(spec[2]), g_bool(spec[3]))
    if k == "CR":
        return "(CR %s %s)" % (g_path(spec[1]), g_bool(spec[2]))
    if k == "RM":
        return "(RM %s %s)" % (g_path(spec[1]), g_bool(spec[2]))
    if k == "CS":
        return "(CS %s %s)" % (g_N(desc_id(spec[1])), g_list([g_change(c) for c in spec[2]]))
    raise ValueError(k)


def desc_id(desc):
    """ChangeSet descriptions are 'cs<number>' in generated scenarios."""
    digits = "".join(ch for ch in desc if ch.isdigit())
    return int(digits) if digits else 0


def g_tree(snap):
    items = []
    for p in sorted(snap):
        v = snap[p]
        if v is None:
            items.append(g_pair(g_path(p), "Dir"))
        elif isinstance(v, bytes):
            items.append(g_pair(g_path(p), "(File %s)" % g_bytes(v)))
        else:
            raise ValueError("unrepresentable node %r at %s" % (v, p))
    return g_list(items)


def representable(r):
    try:
        for snap in (r.pre_tree, r.post_tree):
            for p, v in snap.items():
                if not (v is None or isinstance(v, bytes)):
                    return False
                for s in p.split("/"):
                    if s not in SEG_ID:
                        return False
        return True
    except Exception:
        return False


def g_case(r, with_irrev=True):
    opn = {"do": 0, "undo": 1, "redo": 2}[r.op[0]]
    chg = g_change(r.change) if r.change is not None else "(CS 0%N [])"
    irrev = g_opt(g_bool(r.py_irrev)) if (with_irrev and r.unknown_phase == 0) else "None"
    return ("{| c_tree := %s; c_undo := %s; c_redo := %s; c_limit := %s; c_op := %s; c_change := %s; "
            "c_flt := %s; c_stp := %s; o_raised := %s; o_err := %s; o_tree := %s; o_undo := %s; o_redo := %s; "
            "o_calls := %s; o_irrev := %s |}" % (
                g_tree(r.pre_tree), g_list([g_change(c) for c in r.pre_undo]),
                g_list([g_change(c) for c in r.pre_redo]), g_nat(min(r.limit, 4000)), g_N(opn), chg,
                g_opt(None if r.flt is None else g_nat(r.flt)), g_opt(None if r.stp is None else g_nat(r.stp)),
                g_bool(r.raised), g_list([g_N(c) for c in r.codes]), g_tree(r.post_tree),
                g_list([g_change(c) for c in r.post_undo]), g_list([g_change(c) for c in r.post_redo]),
                g_nat(r.calls), irrev))


def model_obs_index(r):
    """index of the observer notification that fails in the model: the harness's own observer, or the
    notification during which an observer-issued read was failed"""
    if getattr(r, "obsfail", None) is not None:
        return r.obsfail
    if getattr(r, "obs", None) is not None:
        return r.fired_obs_index
    return None


def g_ocase(r):
    o = model_obs_index(r)
    return "{| oc_base := %s; oc_obs := %s; oc_atomic := %s |}" % (
        g_case(r), g_opt(None if o is None else g_nat(o)), g_bool(not r.partial))


HEADER = ("From Coq Require Import List NArith Bool.\nImport ListNotations.\n"
          "From RopeVerif.C10 Require Import FsModel Change Runner.\n")
