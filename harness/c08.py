"""C08 — source-annotated syntax tree is lossless and its regions are exact.

Per source text:
  * rope's `patch_ast(ast.parse(src), src, True)` is run with `_PatchingASTWalker._handle` wrapped (see
    c08_rope.py); the captured template tree + the recorded regular-expression results + rope's annotated
    tree (class, cursor at entry, region and sorted_children of every node) or the kind of exception are
    written, with the source, into a Coq case file; `RopeVerif.C08.Runner.mismatches` evaluates the model
    `Template.patch` on the template tree and compares (correspondence);
  * the independent oracle of c08_oracle.py is applied to rope's result (CPython positions, tokenize,
    re-parsing, write_ast == source).
"""
import ast
import os

from harness import c08_oracle, c08_rope
from harness.common import REPO, g_N

PROPERTY = "C08"

HEADER = ("From Coq Require Import List NArith Bool String.\nImport ListNotations.\n"
          "From RopeVerif.C08 Require Import Template Fragment Runner.\nLocal Open Scope N_scope.\n"
          "Local Open Scope list_scope.\n")

# class numbers: fixed for the classes of the transcribed template table (coq/C08/Fragment.v), 100 + rank otherwise
CLS_FIXED = {"Module": 1, "Expr": 2, "Name": 3, "Attribute": 4, "Call": 5, "BinOp": 6, "UnaryOp": 7, "BoolOp": 8,
             "Compare": 9, "Subscript": 10, "Tuple": 11, "List": 12, "Constant": 13, "Assign": 14, "Return": 15,
             "If": 16, "While": 17, "For": 18, "FunctionDef": 19, "arguments": 20, "arg": 21, "Import": 22,
             "alias": 23, "keyword": 24, "Starred": 25, "Pass": 26}
CLS = {name: 100 + i for i, name in enumerate(sorted(
    n for n in dir(ast) if isinstance(getattr(ast, n), type) and issubclass(getattr(ast, n), ast.AST)))}
CLS.update(CLS_FIXED)

ERR_CODE = {"MismatchedTokenError": 1, "AttributeError": 2, "ValueError": 3}


# ----------------------------------------------------------------------------- Gallina printers
def _safe(c):
    o = ord(c)
    return 32 <= o < 127 or c == "\n" or c == "\t"


def g_txt(s):
    """Python str -> Gallina term of type text (list N of code points)"""
    if s == "":
        return "[]"
    parts = []
    i, n = 0, len(s)
    while i < n:
        j = i
        if _safe(s[i]):
            while j < n and _safe(s[j]):
                j += 1
            parts.append('T "%s"' % s[i:j].replace('"', '""'))
        else:
            while j < n and not _safe(s[j]):
                j += 1
            parts.append("[" + "; ".join(str(ord(c)) for c in s[i:j]) + "]")
        i = j
    if len(parts) == 1:
        return "(" + parts[0] + ")"
    return "(" + " ++ ".join(parts) + ")"


def g_flags(fr):
    fl = (fr.eat_parens, fr.eat_spaces, fr.joined, fr.nofmt)
    if not any(fl):
        return "F0"
    return "(F %s)" % " ".join("true" if b else "false" for b in fl)


def g_str(ctor, s):
    """ITok / PT of a text: short form when the text is plain ASCII"""
    if s and all(_safe(c) for c in s):
        return '%s "%s"' % ({"ITok": "K", "PT": "P"}[ctor], s.replace('"', '""'))
    return ctor + " " + g_txt(s)


class Unsupported(Exception):
    pass


def g_tnode(fr, W, rec=None):
    items = []
    rx = iter(fr.regex_calls)
    for it in fr.items:
        k = c08_rope.item_kind(W, it)
        if k == "none":
            continue
        if k == "tok":
            items.append(g_str("ITok", it))
        elif k == "sub":
            sub = fr.sub.get(id(it))
            if sub is None:
                if fr.done:
                    raise Unsupported("child %s never reached _handle" % type(it).__name__)
                items.append("IRaised" if rec is not None and rec.raised_in_dispatch == id(it) else "IPending")
            else:
                if sub.skipped:
                    raise Unsupported("node patched twice")
                items.append("ISub " + g_tnode(sub, W, rec))
        elif k in ("str", "num"):
            calls = next(rx, [])
            items.append("IRegex [" + "; ".join(
                "(%d, %s)" % (pos, "None" if sp is None else "Some (%d, %d)" % sp) for pos, sp in calls) + "]")
        elif k == "empty_tuple":
            items.append("IEmptyTuple")
        elif k == "with_or_comma":
            items.append("IWithOrComma")
        else:
            raise Unsupported("template item %r" % (it,))
    return "(TNode %d %s [%s])" % (CLS[fr.cls], g_flags(fr), "; ".join(items))


def g_pnode(node, frames):
    fr = frames.get(id(node))
    if fr is None or not hasattr(node, "region") or not hasattr(node, "sorted_children"):
        raise Unsupported("node %s without frame/region" % type(node).__name__)
    s, e = node.region
    if not isinstance(s, int) or not isinstance(e, int) or s < 0 or e < 0:
        raise Unsupported("region %r" % (node.region,))
    ch = []
    for c in node.sorted_children:
        if isinstance(c, ast.AST):
            ch.append("PN " + g_pnode(c, frames))
        elif isinstance(c, str):
            ch.append(g_str("PT", c))
        else:
            raise Unsupported("sorted_children element %r" % (c,))
    return "(PNode %d %d %d %d [%s])" % (CLS[fr.cls], fr.entry, s, e, "; ".join(ch))


def case_term(src, res):
    """Gallina `case` for one run, or raises Unsupported."""
    pa = c08_rope.install()
    W = pa._PatchingASTWalker
    rec = res.rec
    if rec is None or rec.root is None:
        raise Unsupported("no root frame")
    tree = g_tnode(rec.root, W, rec)
    if res.error is None:
        frames = {id(fr.node): fr for fr in rec.frames}
        rope = "Ok " + g_pnode(res.tree, frames)
    else:
        rope = "Err %d" % ERR_CODE.get(res.error, 99)
    g_opt = "OC"      # the model is always run as the code is expected to be now (Template.options_current)
    k_ast = "None"
    if res.error is None:
        from harness import c08_ast
        sm = c08_oracle.SrcMap(src)
        try:
            k_ast = "(Some %s)" % c08_ast.to_ast(res.tree, src, lambda n: sm.off(n.lineno, n.col_offset), g_txt)
        except c08_ast.NotInTable:
            k_ast = "None"
    return "{| k_opt := %s; k_src := %s;\n   k_tree := %s;\n   k_rope := %s;\n   k_ast := %s |}" % (
        g_opt, g_txt(src), tree, rope, k_ast)


# ----------------------------------------------------------------------------- signatures
def signature(obj):
    return obj.get("fail_sig")


MISMATCH_TEXT = {1: "model and rope both succeed but the annotated trees differ",
                 2: "model fails where rope succeeds",
                 3: "model succeeds where rope raises",
                 4: "model and rope fail in different ways",
                 5: "a proved conclusion (cover / nesting / lossless) is false on the model's result",
                 6: "model stops at rfind_token -> None although every oracle clause passes on rope's result",
                 7: "the template tree the walker built differs from Fragment.template_of of the ast (a _<NodeType> "
                    "method no longer passes what the transcribed table says)"}


# ----------------------------------------------------------------------------- checking a batch of sources
def evaluate(src):
    res = c08_rope.run_rope(src)
    fails = c08_oracle.check(src, res)
    return res, fails


def shrink_for(src, sig):
    from harness import c08_shrink

    def still(t):
        r = c08_rope.run_rope(t)
        return any(f["sig"] == sig for f in c08_oracle.check(t, r))
    try:
        return c08_shrink.shrink(src, still, 6.0)
    except Exception:   # noqa: BLE001 - shrinking is best effort
        return src


def check_sources(ctx, sources, label):
    """sources: list of (name, src).  Runs rope + oracle + model on each; reports."""
    cases = []          # (name, src, term|None, fails, res.error)
    for name, src in sources:
        res, fails = evaluate(src)
        if res.error is not None and res.error.startswith("parse:"):
            ctx.count(label + ":not-parsed")
            continue
        try:
            term = case_term(src, res)
        except Unsupported as e:
            term = None
            ctx.count(label + ":model-skipped")
            if not fails:
                fails = [{"clause": "i", "sig": "unsupported:" + str(e)[:40], "detail": str(e)}]
        nodes = len(res.rec.frames) if res.rec else 0
        ctx.case((label, src), nontrivial=nodes >= 8)
        ctx.count(label + ":sources")
        ctx.count("nodes_annotated", nodes)
        ctx.count("source_chars", len(src))
        if res.error:
            ctx.count(label + ":rope-raises:" + res.error)
        if not fails:
            ctx.count(label + ":all-oracle-clauses-pass")
        cases.append((name, src, term, fails, res.error))
        del res
    # shard by size
    bodies, shards, cur, size = [], [], [], 0
    for idx, (name, src, term, fails, err) in enumerate(cases):
        if term is None:
            continue
        if cur and (size + len(term) > 700_000 or len(cur) >= 250):
            shards.append(cur)
            cur, size = [], 0
        cur.append(idx)
        size += len(term)
    if cur:
        shards.append(cur)
    for sh in shards:
        bodies.append(HEADER + "Definition cases : list case := [\n%s\n].\n"
                      "Eval vm_compute in (mismatches cases).\nEval vm_compute in (count_table cases).\n"
                      "Eval vm_compute in (count_domain cases).\n"
                      % ";\n".join(cases[i][2] for i in sh))
    outs = ctx.coq_files_parallel(bodies) if bodies else []
    mism = {}
    dom = tab = 0
    for sh, out in zip(shards, outs):
        pairs = ctx.parse_pairs(out)
        for (i, code) in (pairs[0] if pairs else []):
            mism[sh[i]] = code
        nums = ctx.parse_nums(out)
        dom += nums[-1][0] if nums and nums[-1] else 0
        tab += nums[-2][0] if len(nums) >= 2 and nums[-2] else 0
    ctx.extra["cases_in_theorem_domain"] = ctx.extra.get("cases_in_theorem_domain", 0) + dom
    ctx.extra["cases_whose_templates_are_checked_against_template_of"] = ctx.extra.get(
        "cases_whose_templates_are_checked_against_template_of", 0) + tab
    for idx, (name, src, term, fails, err) in enumerate(cases):
        if term is not None:
            ctx.traces += 1
        if idx in mism and mism[idx] not in (0, 6):
            # attribution to a recorded finding presupposes that the model reproduces what rope did on this input
            fails = [dict(f, sig="model-mismatch+" + f["sig"]) for f in fails]
        for f in fails:
            ctx.count("oracle-fail:" + f["sig"])
            known = f["sig"] in c08_oracle.FINDINGS and any(x.get("signature") == f["sig"] for x in ctx.findings)
            small = src if known else shrink_for(src, f["sig"])
            obj = {"kind": "source", "name": name, "source": small, "clause": f["clause"], "fail_sig": f["sig"],
                   "detail": f["detail"]}
            if small != src:
                obj["original_source"] = src
            ctx.violation(obj, "C08 clause (%s) fails on %s [%s]: %s" % (f["clause"], name, f["sig"], f["detail"][:200]))
        if idx in mism and mism[idx] == 6 and fails:
            ctx.count("model-stopped-at-unmodelled-None-start (oracle fails on the case)")
        elif idx in mism:
            code = mism[idx]
            ctx.count("model-mismatch:%d" % code)
            ctx.violation({"kind": "source", "name": name, "source": src, "mismatch": MISMATCH_TEXT.get(code, str(code)),
                           "fail_sig": "model-mismatch",
                           "broken": "correspondence RopeVerif.C08.Runner.run_case (model Template.patch vs "
                                     "rope/refactor/patchedast.py _handle/_handle_parens/_Source); theorems "
                                     "C08_lossless / C08_children_cover / C08_nested / C08_ordered / C08_no_escape / "
                                     "C08_cursor_monotone no longer speak about the code"},
                          "C08 model/rope mismatch on %s: %s" % (name, MISMATCH_TEXT.get(code, str(code))),
                          no_input=not fails)
        if ctx.too_many(12):
            break
    return cases


# ----------------------------------------------------------------------------- corpus
def corpus_files(ctx):
    files = []
    for sub in ("rope", "ropetest"):
        for d, _, fs in os.walk(os.path.join(REPO, sub)):
            for f in fs:
                if f.endswith(".py"):
                    files.append(os.path.join(d, f))
    files.sort()
    return files


FIXED = [
    "", "\n", "x", "# only a comment", "pass\n", "x = 1 # c (\n", "(a)\n", "x = (a. b) + f(1, 'if #')  # )\nif x:  # else:\n    y = (1,\n         2)\n",
    "def f(a, b=(1, 2), *c, **d):\n    return [x for x in (a) if x]\n", "x = (\n # )\n a)\n", "a = b = (yield)\n",
    "for (i) in (a), (b): pass\nelse: pass", "x = [(a), (b # ]\n)]\n", "with (a) as (b), c: pass\n", "x = ((a, b), (c))\n",
    "print((a for a in b), (c))\n", "x = f'{a!r:>{10}}' 'b' \\\n  f\"{c}\"\n", "if a:\n  pass\nelif (b):\n  pass\nelse:\n  pass\n",
    "x = 1 if (a) else (2)\n", "x = a[(1):(2), ::(3)]\n", "lambda: (yield)\n", "x = not (a)\n", "async def f():\n  await (a)\n",
    "x = ()\ny = (  )\n", "x = 'a' 'b' \\\n 'c'\n", "x = - (1)\n", "del (a), b\n", "assert (a), (b)\n",
    "raise (A) from (b)\n", "import a.b as c, d\nfrom . import (e as f, g)\nfrom .. x import y\n".replace(".. x", "..x"),
    "global a, b\n", "class A((B), C): pass\n", "@(d)\ndef f(): pass\n", "try:\n  pass\nexcept (A, B) as e:\n  pass\nfinally:\n  pass\n",
    "x = {**a, 'b': (1)}\n", "x = {(a) for a in b if (c) if d}\n", "x = (a := (1))\n", "x = a if b else c if d else e\n",
    "while (a): break\nelse: pass\n", "x = a.b(c)(d)[e].f\n", "x = ((((a))))\n", "f((a), b=(c))\n",
    "f(a=1, *b)\n", "f(x, *y, z=1, **k)\n", "x = [i for i in (a) if (b) for j in c]\n", "x = a < (b) <= c is not d not in e\n",
    "x = a and (b or c) and not d\n", "x += (1); y //= 2; z **= (3)\n", "x: int = (1)\n", "async def f():\n  async with a as b, c:\n    async for x in y: pass\n",
]


def run(ctx):
    c08_rope.install()
    from harness import c08_gen
    ctx.rule = ("sources: (1) a fixed list of one-construct modules; (2) generated Python 3.12 modules, core stream: "
                "statements/expressions rope's templates cover, printed with random trivia (comments containing "
                "brackets/keywords/quotes/'#', strings containing keywords/'#'/brackets, redundant and nested "
                "parentheses, continuation lines, all literal spellings the patterns know, unicode identifiers, tiny "
                "identifier pool), each kept only if compile() accepts it; (3) stress stream: adds the shapes of the "
                "recorded findings (annotations, keyword-only/positional-only parameters, class keywords, type "
                "parameters, rb'' prefixes, trailing-comma tuples, match, nested/escaped/concatenated "
                "f-strings); (3b) table stream: only constructs of the transcribed template table "
                "(coq/C08/Fragment.v), for which the captured templates must equal template_of(ast); (4) corpus: .py files of /repo/rope and /repo/ropetest (quick: 40 files "
                "under 12 kB, thorough: all). A case is one source text; non-trivial = at least 8 annotated nodes; "
                "distinct by source text. For each case the model is evaluated inside Coq on the captured template "
                "tree and compared with rope's region/sorted_children of every node, and the oracle clauses "
                "(i)-(vi) are evaluated on rope's result.")
    ctx.assumptions.append("the per-node-type templates (_<NodeType> methods) and Python's re results for string/number "
                           "literals are inputs of the model (captured per run), checked only by the oracle clauses")
    ctx.assumptions.append("theorems are stated for the walker as it is after commits ed573d7 / aea6dd5 "
                           "(Template.options_current); the harness always evaluates that model, so a revert of "
                           "either commit shows up as a model/rope mismatch and through corpus/C08")
    from harness import c08_cases
    check_sources(ctx, [("fixed-%d" % i, s) for i, s in enumerate(FIXED + c08_cases.EXTRA)], "fixed")
    n_core = ctx.scale(220, 4000)
    n_stress = ctx.scale(100, 1500)
    core = [("core-%d" % i, s) for i, (s, _) in enumerate(c08_gen.generate(ctx.rng, n_core, stress=False))]
    check_sources(ctx, core, "core")
    if not ctx.too_many(12):
        n_table = ctx.scale(100, 1500)
        table = [("table-%d" % i, s) for i, (s, _) in enumerate(c08_gen.generate(ctx.rng, n_table, table=True))]
        check_sources(ctx, table, "table")
    if not ctx.too_many(12):
        stress = []
        for i, (s, feat) in enumerate(c08_gen.generate(ctx.rng, n_stress, stress=True)):
            stress.append(("stress-%d" % i, s))
            for ft in feat:
                ctx.count("stress-feature:" + ft)
        check_sources(ctx, stress, "stress")
    files = corpus_files(ctx)
    if ctx.quick():
        small = [f for f in files if os.path.getsize(f) < 12_000]
        ctx.rng.shuffle(small)
        files = sorted(small[:40])
    srcs = []
    for f in files:
        with open(f, encoding="utf-8") as fh:
            srcs.append((os.path.relpath(f, REPO), fh.read()))
    if not ctx.too_many(12):
        cases = check_sources(ctx, srcs, "corpus")
        for name, src, term, fails, err in cases[:2]:
            ctx.sample({"source": name, "chars": len(src), "oracle_failures": [f["sig"] for f in fails]})
    for s in FIXED[7:9]:
        ctx.sample({"source_text": s})
    ctx.extra["known_finding_signatures"] = sorted(c08_oracle.FINDINGS)
    ctx.extra["running_rope_has_repaired(_handle_parens, empty_tuple_pattern)"] = list(c08_rope.options())


def replay(ctx, obj):
    c08_rope.install()
    src = obj["source"]
    res, fails = evaluate(src)
    want = obj.get("fail_sig")
    if want and want != "model-mismatch":
        return any(f["sig"] == want for f in fails)
    return bool(fails)
