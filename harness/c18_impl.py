"""C18 — driver of the real rope: scenarios (histories leading to a close), tracing of the save, crash-state
materialisation and observation of the reopened project.  No Coq here (see c18.py).

Abstract values ("pv") are JSON-able tagged lists mirroring coq/C18/Persist.v's pval:
  ["s", str] ["i", int] ["b", bool] ["n"] ["f", repr] ["t", [..]] ["l", [..]] ["d", [[k, v], ..]] ["o", cls, state]
"""
import builtins
import io
import os
import pickle
import pickletools
import shutil
import sys
import tempfile
import warnings

DATA_FILES = ("objectdb", "objectdb.json", "history", "history.json",
              "globalnames", "globalnames.json")                       # order of Persist.all_files
PICKLES = ("objectdb", "history", "globalnames")
OBS_KEY = {"objectdb": "odb", "history": "hist", "globalnames": "names"}
EXC_EOF, EXC_UNPICKLING, EXC_TYPE, EXC_INDEX, EXC_KEY, EXC_ATTRIBUTE, EXC_OTHER = 0, 1, 2, 3, 4, 5, 6


# ----------------------------------------------------------------------------- abstraction of values
def to_pv(v):
    if isinstance(v, bool):
        return ["b", v]
    if isinstance(v, int):
        return ["i", v]
    if isinstance(v, str):
        return ["s", v]
    if v is None:
        return ["n"]
    if isinstance(v, float):
        return ["f", repr(v)]
    if isinstance(v, tuple):
        return ["t", [to_pv(x) for x in v]]
    if isinstance(v, list):
        return ["l", [to_pv(x) for x in v]]
    if isinstance(v, dict):
        return ["d", [[to_pv(k), to_pv(x)] for k, x in v.items()]]
    cls = type(v).__name__
    if cls == "ScopeInfo" and hasattr(v, "call_info") and hasattr(v, "per_name"):
        return ["o", cls, ["t", [to_pv(v.call_info), to_pv(v.per_name)]]]
    return ["o", cls, ["s", repr(v)[:80]]]


def change_to_pv(c):
    """Independent re-statement of what History.write stores for a change (not via ChangeToData)."""
    from rope.base import change as ch
    if isinstance(c, ch.ChangeSet):
        return ["t", [["s", "ChangeSet"], ["t", [to_pv(c.description), ["l", [change_to_pv(x) for x in c.changes]],
                                                 to_pv(c.time)]]]]
    if isinstance(c, ch.ChangeContents):
        return ["t", [["s", "ChangeContents"], ["t", [to_pv(c.resource.path), to_pv(c.new_contents), to_pv(c.old_contents)]]]]
    if isinstance(c, ch.MoveResource):
        return ["t", [["s", "MoveResource"], ["t", [to_pv(c.resource.path), to_pv(c.new_resource.path),
                                                    to_pv(c.resource.is_folder())]]]]
    if isinstance(c, (ch.CreateResource,)):      # CreateFolder / CreateFile are subclasses
        return ["t", [["s", "CreateResource"], ["t", [to_pv(c.resource.path), to_pv(c.resource.is_folder())]]]]
    if isinstance(c, ch.RemoveResource):
        return ["t", [["s", "RemoveResource"], ["t", [to_pv(c.resource.path), to_pv(c.resource.is_folder())]]]]
    return ["o", type(c).__name__, ["n"]]


def history_pv(undo_list, redo_list):
    return ["l", [["l", [change_to_pv(c) for c in undo_list]], ["l", [change_to_pv(c) for c in redo_list]]]]


EMPTY_HISTORY = ["l", [["l", []], ["l", []]]]
EMPTY_FILES = ["d", []]


def exc_class(e):
    if isinstance(e, EOFError):
        return EXC_EOF
    if isinstance(e, pickle.UnpicklingError):
        return EXC_UNPICKLING
    for cls, code in ((TypeError, EXC_TYPE), (IndexError, EXC_INDEX), (KeyError, EXC_KEY),
                      (AttributeError, EXC_ATTRIBUTE)):
        if type(e) is cls:
            return code
    return EXC_OTHER


EMPTY_NAMES = ["d", []]


def _autoimport(project, observe):
    from rope.contrib.autoimport.pickle import AutoImport
    with warnings.catch_warnings():
        warnings.simplefilter("ignore")
        return AutoImport(project, observe=observe)


# ----------------------------------------------------------------------------- pickle on every prefix
def classify_prefixes(b):
    """What the real pickle.load does on every prefix of b.
    Returns (eofs, anomalies): lengths 0 < n < len(b) with EOFError; anything that breaks the laws."""
    eofs, anomalies = [], []
    try:
        pickle.load(io.BytesIO(b""))
        anomalies.append("pickle.load on an empty stream returned a value")
    except EOFError:
        pass
    except Exception as e:
        anomalies.append("pickle.load on an empty stream raised %s" % type(e).__name__)
    for n in range(1, len(b)):
        try:
            pickle.load(io.BytesIO(b[:n]))
            anomalies.append("strict prefix of length %d of a %d-byte pickle decodes to a value" % (n, len(b)))
        except EOFError:
            eofs.append(n)
        except pickle.UnpicklingError:
            pass
        except Exception as e:
            anomalies.append("strict prefix of length %d raises %s (neither EOFError nor UnpicklingError)" % (
                n, type(e).__name__))
    # independent oracle: EOFError exactly when the stream ends at an opcode boundary
    try:
        bounds = {pos for (_op, _arg, pos) in pickletools.genops(b)}
        if set(eofs) != {n for n in bounds if 0 < n < len(b)}:
            anomalies.append("EOFError prefixes differ from pickletools' opcode boundaries")
        stops = [pos for (op, _arg, pos) in pickletools.genops(b) if op.name == "STOP"]
        if stops != [len(b) - 1]:
            anomalies.append("pickle does not end with its only STOP opcode")
    except Exception as e:
        anomalies.append("pickletools cannot parse the data file: %r" % (e,))
    return eofs, anomalies


# ----------------------------------------------------------------------------- tracing the save
class _Traced:
    def __init__(self, real, key, log, text, hid):
        self._f, self._key, self._log, self._text, self._hid = real, key, log, text, hid

    def write(self, data):
        n = self._f.write(data)
        self._f.flush()
        raw = data.encode(self._f.encoding, self._f.errors or "strict") if self._text else bytes(data)
        self._log.append(("write", self._key, raw, self._hid))
        return n

    def writelines(self, lines):
        for line in lines:
            self.write(line)

    def truncate(self, size=None):
        self._f.flush()
        if size is None:
            size = self._f.tell()
        r = self._f.truncate(size)
        self._log.append(("truncate", self._key, size, self._hid))
        return r

    def seek(self, *a):
        r = self._f.seek(*a)
        self._log.append(("seek", self._key, self._f.tell(), self._hid))
        return r

    def close(self):
        if not self._f.closed:
            self._log.append(("close", self._key, self._hid))
        self._f.close()

    def __enter__(self):
        return self

    def __exit__(self, *a):
        self.close()
        return False

    def __getattr__(self, name):
        return getattr(self._f, name)


class trace_save:
    """Records, in program order, what rope does to files of the rope folder while it saves: opens (with
    mode), writes, truncates, seeks, closes through builtins.open, and os.replace / rename / remove."""

    def __init__(self, ropedir):
        self.ropedir = os.path.realpath(ropedir)
        self.log = []

    def _key(self, file):
        try:
            path = os.path.realpath(os.fspath(file))
        except TypeError:
            return None
        if os.path.dirname(path) != self.ropedir:
            return None
        return os.path.basename(path)

    def __enter__(self):
        self._orig = builtins.open
        self._os = {n: getattr(os, n) for n in ("replace", "rename", "remove", "unlink")}
        orig, log = self._orig, self.log
        hids = [0]

        def traced_open(file, mode="r", *a, **kw):
            key = self._key(file)
            if key is None or not isinstance(mode, str) or not any(c in mode for c in "wax+"):
                return orig(file, mode, *a, **kw)
            trunc = "w" in mode
            text = "b" not in mode
            args = list(a)
            if not text:                      # unbuffered, so that every write is a step of its own
                if args:
                    args[0] = 0
                else:
                    kw = dict(kw, buffering=0)
            real = orig(file, mode, *args, **kw)
            hids[0] += 1
            log.append(("open", key, trunc, mode, hids[0]))
            return _Traced(real, key, log, text, hids[0])

        def two(name):
            def f(src, dst, *a, **kw):
                r = self._os[name](src, dst, *a, **kw)
                ks, kd = self._key(src), self._key(dst)
                if ks is not None or kd is not None:
                    log.append(("replace", ks or "?outside", kd or "?outside"))
                return r
            return f

        def one(name):
            def f(path, *a, **kw):
                r = self._os[name](path, *a, **kw)
                k = self._key(path)
                if k is not None:
                    log.append(("remove", k))
                return r
            return f

        builtins.open = traced_open
        os.replace, os.rename = two("replace"), two("rename")
        os.remove, os.unlink = one("remove"), one("unlink")
        return self

    def __exit__(self, *a):
        builtins.open = self._orig
        for n, f in self._os.items():
            setattr(os, n, f)
        return False


def _apply_bytes(files, name, entries):
    """entries: [(pos | None for append, byte)] applied in order to files[name]."""
    c = files.get(name) or b""
    for pos, byte in entries:
        if pos is None:
            pos = len(c)
        if pos > len(c):
            c = c + b"\0" * (pos - len(c))
        c = c[:pos] + byte + c[pos + 1:]
    files[name] = c


def trace_crash_states(old_dir, trace, buffered=True):
    """The rope folder after every prefix of the traced operations, starting from old_dir ({name: bytes}).
    Program order: every write reaches its file at once, one byte at a time.
    buffered=True adds what buffering allows (the `delays` relation of the model applied to the traced
    operations): the bytes written through a handle stay pending until an operation on that handle (truncate /
    seek / close flush it); at each point the pending bytes of one handle are on disk up to any prefix while the
    pending bytes of the other handles are all absent or all present.
    Returns [(op index, bytes of that op done, {name: bytes})], duplicates dropped."""
    seen = set()
    states = []

    def emit(i, k, files):
        key = tuple(sorted(files.items()))
        if key not in seen:
            seen.add(key)
            states.append((i, k, dict(files)))

    # ---- program order
    files = dict(old_dir)
    handles = {}
    emit(-1, 0, files)
    for i, ev in enumerate(trace):
        kind = ev[0]
        if kind == "open":
            name, trunc, mode, hid = ev[1], ev[2], ev[3], ev[4]
            if trunc or files.get(name) is None:
                files[name] = b""
            handles[hid] = {"name": name, "pos": 0, "append": "a" in mode}
            emit(i, 0, files)
        elif kind == "write":
            h = handles.setdefault(ev[3], {"name": ev[1], "pos": 0, "append": False})
            for k in range(len(ev[2])):
                _apply_bytes(files, h["name"], [(None if h["append"] else h["pos"], ev[2][k:k + 1])])
                h["pos"] += 1
                emit(i, k + 1, files)
        elif kind == "truncate":
            c = files.get(ev[1]) or b""
            files[ev[1]] = c[:ev[2]] + b"\0" * max(0, ev[2] - len(c))
            emit(i, 0, files)
        elif kind == "seek":
            if ev[3] in handles:
                handles[ev[3]]["pos"] = ev[2]
        elif kind == "replace":
            c = files.pop(ev[1], None)
            if not ev[2].startswith("?") and c is not None:
                files[ev[2]] = c
                for h in handles.values():
                    if h["name"] == ev[1]:
                        h["name"] = ev[2]
            emit(i, 0, files)
        elif kind == "remove":
            files.pop(ev[1], None)
            emit(i, 0, files)
    if not buffered:
        return states

    # ---- buffered: writes stay pending per handle until an operation on that handle
    files = dict(old_dir)
    handles = {}

    def variants(i, focus=None, lo=0):
        """focus handle: every prefix (from lo) of its pending bytes; other handles: none / all pending."""
        others = [h for h in handles.values() if h is not focus and h["pending"]]
        for all_others in ((False, True) if others else (False,)):
            base = dict(files)
            if all_others:
                for h in others:
                    _apply_bytes(base, h["name"], h["pending"])
            if focus is None:
                emit(i, 0, base)
                continue
            for k in range(lo, len(focus["pending"]) + 1):
                st = dict(base)
                _apply_bytes(st, focus["name"], focus["pending"][:k])
                emit(i, k, st)

    def flush(h):
        _apply_bytes(files, h["name"], h["pending"])
        h["pending"] = []

    for i, ev in enumerate(trace):
        kind = ev[0]
        if kind == "open":
            name, trunc, mode, hid = ev[1], ev[2], ev[3], ev[4]
            if trunc or files.get(name) is None:
                files[name] = b""
            handles[hid] = {"name": name, "pos": 0, "append": "a" in mode, "pending": []}
        elif kind == "write":
            h = handles.setdefault(ev[3], {"name": ev[1], "pos": 0, "append": False, "pending": []})
            lo = len(h["pending"])
            for k in range(len(ev[2])):
                h["pending"].append((None if h["append"] else h["pos"], ev[2][k:k + 1]))
                h["pos"] += 1
            variants(i, h, lo)
            continue
        elif kind in ("truncate", "seek", "close"):
            h = handles.get(ev[-1])
            if h is not None:
                flush(h)
            if kind == "truncate":
                c = files.get(ev[1]) or b""
                files[ev[1]] = c[:ev[2]] + b"\0" * max(0, ev[2] - len(c))
            elif kind == "seek" and h is not None:
                h["pos"] = ev[2]
        elif kind == "replace":
            c = files.pop(ev[1], None)
            if not ev[2].startswith("?") and c is not None:
                files[ev[2]] = c
                for h in handles.values():
                    if h["name"] == ev[1]:
                        h["name"] = ev[2]
        elif kind == "remove":
            files.pop(ev[1], None)
        # after an operation that is not a write: each handle's pending bytes up to any prefix
        variants(i)
        for h in list(handles.values()):
            if h["pending"]:
                variants(i, h)
    return states


# ----------------------------------------------------------------------------- scenarios
def _open_project(root, **prefs):
    from rope.base.project import Project
    with warnings.catch_warnings():
        warnings.simplefilter("ignore")
        return Project(root, save_history=True, save_objectdb=True, **prefs)


def apply_ops(project, ops, ai=None):
    """Perform the ops of one session through the public API. Ops that rope refuses are skipped."""
    from rope.base import change as ch, libutils
    done = 0
    for op in ops:
        kind = op[0]
        try:
            if kind == "create":
                cs = ch.ChangeSet("create " + op[1])
                cs.add_change(ch.CreateFile(project.get_folder(os.path.dirname(op[1])), os.path.basename(op[1])))
                cs.add_change(ch.ChangeContents(project.get_file(op[1]), op[2]))
                project.do(cs)
            elif kind == "mkdir":
                cs = ch.ChangeSet("mkdir " + op[1])
                cs.add_change(ch.CreateFolder(project.get_folder(os.path.dirname(op[1])), os.path.basename(op[1])))
                project.do(cs)
            elif kind == "write":
                cs = ch.ChangeSet(op[3] if len(op) > 3 else "edit " + op[1])
                cs.add_change(ch.ChangeContents(project.get_file(op[1]), op[2]))
                project.do(cs)
            elif kind == "write_bare":
                project.do(ch.ChangeContents(project.get_file(op[1]), op[2]))
            elif kind == "write_api":
                project.get_file(op[1]).write(op[2])          # File.write goes through project.do itself
            elif kind == "move":
                cs = ch.ChangeSet("move " + op[1])
                cs.add_change(ch.MoveResource(project.get_resource(op[1]), op[2]))
                project.do(cs)
            elif kind == "remove":
                cs = ch.ChangeSet("remove " + op[1])
                cs.add_change(ch.RemoveResource(project.get_resource(op[1])))
                project.do(cs)
            elif kind == "undo":
                project.history.undo()
            elif kind == "redo":
                project.history.redo()
            elif kind == "analyze":
                libutils.analyze_module(project, project.get_resource(op[1]))
            elif kind == "sync":
                project.sync()
            elif kind == "gencache":
                if ai is not None:
                    ai.generate_cache()
            else:
                raise ValueError(kind)
            done += 1
        except Exception as e:  # refused by rope (missing file, empty undo list, ...): not our concern here
            from rope.base import exceptions
            if not isinstance(e, (exceptions.RopeError, OSError, NotImplementedError)):
                raise
    return done


def read_tree(root):
    """Source files of the project (everything but the rope folder): {relpath: bytes | None for dirs}."""
    tree = {}
    for dirpath, dirnames, filenames in os.walk(root):
        rel = os.path.relpath(dirpath, root)
        if rel == ".":
            rel = ""
        if rel.split(os.sep)[0] == ".ropeproject":
            continue
        dirnames[:] = [d for d in dirnames if not (rel == "" and d == ".ropeproject")]
        if rel:
            tree[rel] = None
        for fn in filenames:
            with open(os.path.join(dirpath, fn), "rb") as f:
                tree[os.path.join(rel, fn)] = f.read()
    return tree


def write_tree(root, tree):
    for rel in sorted(tree):
        p = os.path.join(root, rel)
        if tree[rel] is None:
            os.makedirs(p, exist_ok=True)
        else:
            os.makedirs(os.path.dirname(p), exist_ok=True)
            with open(p, "wb") as f:
                f.write(tree[rel])


def read_data_files(root):
    res = {}
    for name in DATA_FILES:
        p = os.path.join(root, ".ropeproject", name)
        if os.path.exists(p):
            with open(p, "rb") as f:
                res[name] = f.read()
        else:
            res[name] = None
    return res


def read_rope_dir(root):
    """Every regular file of the rope folder: {name: bytes}."""
    d = os.path.join(root, ".ropeproject")
    res = {}
    if os.path.isdir(d):
        for name in sorted(os.listdir(d)):
            p = os.path.join(d, name)
            if os.path.isfile(p):
                with open(p, "rb") as f:
                    res[name] = f.read()
    return res


def put_data_files(root, files):
    """Make the rope folder hold exactly `files` ({name: bytes | None}); other regular files are removed."""
    d = os.path.join(root, ".ropeproject")
    os.makedirs(d, exist_ok=True)
    for name in os.listdir(d):
        p = os.path.join(d, name)
        if os.path.isfile(p) and files.get(name) is None:
            os.remove(p)
    for name, c in files.items():
        if c is not None:
            with open(os.path.join(d, name), "wb") as f:
                f.write(c)


def run_scenario(sc):
    """Executes a scenario on a scratch project. Returns a dict with everything c18.py needs
    (all plain data), including the traced save of session 2.  If rope itself raises while the
    scenario runs (e.g. the project does not reopen after a *complete* save), returns
    {"scenario": sc, "failure": description}."""
    import traceback
    try:
        return _run_scenario(sc)
    except Exception as e:
        tb = traceback.extract_tb(e.__traceback__)
        where = "; ".join("%s:%d %s" % (os.path.basename(f.filename), f.lineno, f.name) for f in tb[-3:])
        return {"scenario": sc, "failure": "%s: %s (%s)" % (type(e).__name__, str(e)[:120], where)}


def _session(root, prefs, auto_mode, use_history, ops):
    p = _open_project(root, **prefs)
    ai = _autoimport(p, True) if auto_mode == "first" else None     # hook registered before History's
    if use_history:
        _ = p.history
    if auto_mode == "last":
        ai = _autoimport(p, True)
    apply_ops(p, ops, ai)
    return p, ai


def _traced_close(root, p, ai):
    """Close p under the tracer; returns what the save was expected to store and what it did."""
    res = {}
    if ai is not None:
        res["expected_names"] = to_pv(ai.names)
    # what the save is expected to store, read off the live objects (after History.write's trimming)
    hist_used = any(type(getattr(h, "__self__", None)).__name__ == "History" for h in p.data_files.hooks)
    res["history_hook"] = bool(hist_used)
    if hist_used:
        h = p.history
        maxu = h.max_undos
        undo = list(h.undo_list)
        if len(undo) > maxu:
            undo = undo[len(undo) - maxu:]
        res["live_history"] = history_pv(h.undo_list, h.redo_list)
        res["expected_history"] = history_pv(undo, h.redo_list)
        res["max_undos"] = maxu
    res["expected_objectdb"] = to_pv(p.pycore.object_info.objectdb.files._files)
    res["tree"] = {k: (None if v is None else v.decode("latin-1")) for k, v in read_tree(root).items()}
    res["old_files"] = read_data_files(root)      # the disk the traced save starts from
    res["old_dir"] = {n: c.decode("latin-1") for n, c in read_rope_dir(root).items()}
    with trace_save(os.path.join(root, ".ropeproject")) as tr:
        p.close()
    res["trace"] = [list(ev[:2]) + [ev[2].decode("latin-1")] + list(ev[3:]) if ev[0] == "write" else list(ev)
                    for ev in tr.log]
    res["new_files"] = read_data_files(root)
    return res


def _run_scenario(sc):
    root = tempfile.mkdtemp(prefix="ropeverif-")
    try:
        prefs = dict(sc.get("prefs") or {})
        auto = sc.get("autoimport") or {}
        if sc.get("session1") is not None:
            p = _open_project(root, **dict(sc.get("prefs1", prefs) or {}))
            ai = _autoimport(p, True) if auto.get("s1") else None
            _ = p.history
            apply_ops(p, sc["session1"], ai)
            p.close()
        else:
            os.makedirs(root, exist_ok=True)
        p, ai = _session(root, prefs, auto.get("s2"), sc.get("use_history2", True), sc["session2"])
        res = _traced_close(root, p, ai)
        if sc.get("session3") is not None:
            # the save of session 2 dies at a crash point; session 3 starts from what it left, works, and its
            # save is the one examined (so the "previous version" on disk is itself a torn one)
            crash = sc.get("crash") or {"wi": 0, "frac": 0.5}
            order = []
            for ev in res["trace"]:
                if ev[0] == "open" and ev[1] in PICKLES and ev[1] not in order:
                    order.append(ev[1])
            cur = dict(res["old_files"])
            new = res["new_files"]
            for wi, name in enumerate(order):
                if new.get(name) is None:
                    continue
                if wi < crash["wi"] % max(1, len(order)):
                    cur[name], cur[name + ".json"] = new[name], new.get(name + ".json")
                else:
                    n = max(1, min(len(new[name]) - 1, int(crash["frac"] * len(new[name]))))
                    cur[name], cur[name + ".json"] = new[name][:n], b""
                    break
            put_data_files(root, cur)
            parent = {n: c for n, c in new.items() if c is not None and n in PICKLES}
            p, ai = _session(root, prefs, auto.get("s2"), True, sc["session3"])
            res = _traced_close(root, p, ai)
            res["parent_pickles"] = {n: c.decode("latin-1") for n, c in parent.items()}
        res["scenario"] = sc
        for k in ("old_files", "new_files"):
            res[k] = {n: (None if c is None else c.decode("latin-1")) for n, c in res[k].items()}
        return res
    finally:
        shutil.rmtree(root, ignore_errors=True)


# ----------------------------------------------------------------------------- observing a reopened project
def observe(root, prefs=None, deep=True):
    """Open the project found at root with saving enabled and use it.
    Returns {"odb": obs, "hist": obs, "errors": [str]} where obs = ["loaded", pv] | ["raised", cls, name, where]."""
    from rope.base import libutils
    from rope.base.project import Project
    prefs = prefs or {}
    out = {"errors": []}
    project = None
    with warnings.catch_warnings():
        warnings.simplefilter("ignore")
        try:
            project = Project(root, save_history=True, save_objectdb=True, **prefs)
            out["odb"] = ["loaded", to_pv(project.pycore.object_info.objectdb.files._files)]
        except Exception as e:
            out["odb"] = ["raised", exc_class(e), type(e).__name__, "Project(...)"]
            out["errors"].append("opening the project raises %s: %s" % (type(e).__name__, str(e)[:80]))
        hp = project
        if hp is None:
            try:   # the history on its own
                hp = Project(root, save_history=True, save_objectdb=False, **prefs)
            except Exception as e:
                out["hist"] = ["raised", exc_class(e), type(e).__name__, "Project(save_objectdb=False)"]
                out["names"] = ["raised", exc_class(e), type(e).__name__, "Project(save_objectdb=False)"]
                out["errors"].append("opening the project without object db raises %s" % type(e).__name__)
                return out
        try:
            h = hp.history
            out["hist"] = ["loaded", history_pv(h.undo_list, h.redo_list)]
        except Exception as e:
            out["hist"] = ["raised", exc_class(e), type(e).__name__, "project.history"]
            out["errors"].append("project.history raises %s: %s" % (type(e).__name__, str(e)[:80]))
            h = None
        try:
            ai = _autoimport(hp, False)
            out["names"] = ["loaded", to_pv(ai.names)]
        except Exception as e:
            out["names"] = ["raised", exc_class(e), type(e).__name__, "AutoImport(project)"]
            out["errors"].append("AutoImport(project) raises %s: %s" % (type(e).__name__, str(e)[:80]))
            ai = None
        if not deep:
            return out
        try:
            if ai is not None:
                ai.import_assist("f")
                ai.get_modules("f")
                ai.get_all_names()
        except Exception as e:
            out["errors"].append("querying the global-name cache raises %s: %s" % (type(e).__name__, str(e)[:80]))
        # use the project: history queries, module analysis, and a clean save / reopen
        try:
            if h is not None:
                str(h)
                _ = h.tobe_undone, h.tobe_redone
                for r in list(hp.get_files())[:4]:
                    h.get_file_undo_list(r)
        except Exception as e:
            out["errors"].append("querying the history raises %s: %s" % (type(e).__name__, str(e)[:80]))
        if project is not None:
            try:
                for r in sorted(project.get_python_files(), key=lambda r: r.path):
                    project.get_pymodule(r)
                    libutils.analyze_module(project, r)
            except Exception as e:
                out["errors"].append("analysing a module raises %s: %s" % (type(e).__name__, str(e)[:80]))
            if h is not None:
                try:
                    undo, redo = list(h.undo_list), list(h.redo_list)
                    if len(undo) > h.max_undos:              # History.write keeps the last max_undos entries
                        undo = undo[len(undo) - h.max_undos:]
                    kept = history_pv(undo, redo)
                    project.close()
                    q = Project(root, save_history=True, save_objectdb=True, **prefs)
                    again = history_pv(q.history.undo_list, q.history.redo_list)
                    if again != kept:
                        out["errors"].append("history changes across a clean close / reopen after the crash state")
                    for r in sorted(q.get_python_files(), key=lambda r: r.path)[:2]:
                        libutils.analyze_module(q, r)
                except Exception as e:
                    out["errors"].append("closing and reopening after the crash state raises %s: %s" % (
                        type(e).__name__, str(e)[:80]))
    return out


def observe_states(tree, states, prefs=None, deep=True):
    """tree: {relpath: latin-1 str | None}; states: list of {name: latin-1 str | None}. One scratch dir."""
    root = tempfile.mkdtemp(prefix="ropeverif-")
    try:
        write_tree(root, {k: (None if v is None else v.encode("latin-1")) for k, v in tree.items()})
        res = []
        for st in states:
            put_data_files(root, {n: (None if c is None else c.encode("latin-1")) for n, c in st.items()})
            res.append(observe(root, prefs, deep))
            # the deep observation may have rewritten source-independent state only (.ropeproject); the tree
            # itself is never modified by observe()
        return res
    finally:
        shutil.rmtree(root, ignore_errors=True)


def _observe_job(args):
    sys.setrecursionlimit(10000)
    return observe_states(*args)
