"""C03 helper: the real-rope driver (extract + observation of the collector) and the execution oracle."""
import shutil
import sys
import tempfile

STEP_LIMIT = 1500


class StepLimit(BaseException):
    pass


# ----------------------------------------------------------------------------- execution oracle
def run_program(source, pos, params, vec, step_limit=STEP_LIMIT):
    """Execute the module and call the host with `vec`. Returns (outputs, final) where final is
    ["ret", v] | ["none"] | ["exc", class name] | ["timeout"] | ["syntax"].
    UnboundLocalError is a NameError: both mean 'name read while unbound'."""
    out = []

    def _print(*a):
        out.append(a[0] if len(a) == 1 else list(a))

    g = {"__builtins__": {"print": _print, "range": range, "sum": sum, "__build_class__": __build_class__, "__name__": "m"},
         "__name__": "m"}
    try:
        code = compile(source, "<c03>", "exec")
    except SyntaxError:
        return out, ["syntax"]
    steps = [0]

    def tracer(frame, event, arg):
        if frame.f_code.co_filename != "<c03>":
            return None
        steps[0] += 1
        if steps[0] > step_limit:
            raise StepLimit()
        return tracer

    final = None
    old = sys.gettrace()
    sys.settrace(tracer)
    try:
        try:
            if pos == "module":
                for p, v in zip(params, vec):
                    g[p] = v
                exec(code, g)
                final = ["none"]
            else:
                exec(code, g)
                if pos == "method":
                    r = g["C"]().f(*vec)
                else:
                    r = g["f"](*vec)
                final = ["none"] if r is None else ["ret", r]
        except StepLimit:
            final = ["timeout"]
        except NameError:
            final = ["exc", "NameError"]
        except RecursionError:
            final = ["timeout"]
        except Exception as e:                       # any other exception class is behaviour too
            final = ["exc", type(e).__name__]
    finally:
        sys.settrace(old)
    if final[0] == "ret" and (not isinstance(final[1], int) or isinstance(final[1], bool)):
        final = ["ret", repr(final[1])]
    return out, final


def vectors(rng, nparams, n):
    if nparams == 0:
        return [[]]
    base = [[0] * nparams, [1] * nparams, [2, 0][:nparams], [3, 1][:nparams], [-1, 2][:nparams]]
    res = []
    for v in base:
        if v not in res:
            res.append(v)
    while len(res) < n:
        v = [rng.choice([0, 1, 2, 3, 4, -1]) for _ in range(nparams)]
        if v not in res:
            res.append(v)
    return res[:n]


# ----------------------------------------------------------------------------- rope driver
class Driver:
    def __init__(self):
        from rope.base.project import Project
        import rope.refactor.extract as X
        self.X = X
        self.dir = tempfile.mkdtemp(prefix="ropeverif-")
        self.project = Project(self.dir, ropefolder=None)
        self.res = self.project.root.create_file("m.py")
        self.seen = []
        drv = self
        base = X._FunctionInformationCollector

        class Spy(base):
            def __init__(self, *a, **k):
                super().__init__(*a, **k)
                drv.seen.append(self)
        self._orig = base
        self.Spy = Spy
        self.src = None

    def close(self):
        try:
            self.project.close()
        finally:
            shutil.rmtree(self.dir, ignore_errors=True)

    def set_source(self, src):
        if src != self.src:
            self.res.write(src)
            self.src = src

    def extract(self, src, first, last, name="g", kind="method", cols=None, **opts):
        """first/last: 1-based module lines of the first and last line of the region; cols=(c0, c1): the
        selection is columns c0..c1 of line `first` (a sub-expression)."""
        from rope.base.exceptions import RefactoringError
        X = self.X
        self.set_source(src)
        lines = src.split("\n")
        start = sum(len(l) + 1 for l in lines[:first - 1])
        if cols is not None:
            start, end = start + cols[0], start + cols[1]
        else:
            start += len(lines[first - 1]) - len(lines[first - 1].lstrip())
            end = sum(len(l) + 1 for l in lines[:last]) - 1
        if "rope_kind" in opts:
            opts = dict(opts)
            opts["kind"] = opts.pop("rope_kind")
        self.seen[:] = []
        X._FunctionInformationCollector = self.Spy
        res = {"refused": False, "error": None, "sets": None, "args": None, "rets": None, "new": None,
               "start_end": None}
        try:
            try:
                if kind == "variable":
                    ref = X.ExtractVariable(self.project, self.res, start, end)
                else:
                    ref = X.ExtractMethod(self.project, self.res, start, end)
                ch = ref.get_changes(name, **opts)
                res["new"] = ch.changes[0].new_contents
            except RefactoringError as e:
                res["refused"] = True
                res["error"] = str(e)
            except Exception as e:                    # anything else is a crash, not a refusal
                res["error"] = "CRASH %s: %s" % (type(e).__name__, e)
        finally:
            X._FunctionInformationCollector = self._orig
        if self.seen:
            c = self.seen[0]
            res["sets"] = [list(c.prewritten), list(c.read), list(c.written), list(c.maybe_written),
                           list(c.postread), list(c.postwritten)]
            res["start_end"] = [c.start, c.end]
            res["is_global"] = bool(c.is_global)
        return res

    def args_rets(self, src, first, last):
        """args/returns as computed by _ExtractMethodParts (independent second call; cheap)."""
        X = self.X
        rec = {}
        oa, orr = X._ExtractMethodParts._find_function_arguments, X._ExtractMethodParts._find_function_returns

        def fa(s):
            r = oa(s)
            rec.setdefault("args", list(r))
            return r

        def fr(s):
            r = orr(s)
            rec.setdefault("rets", list(r))
            return r
        X._ExtractMethodParts._find_function_arguments = fa
        X._ExtractMethodParts._find_function_returns = fr
        try:
            r = self.extract(src, first, last)
        finally:
            X._ExtractMethodParts._find_function_arguments = oa
            X._ExtractMethodParts._find_function_returns = orr
        r["args"], r["rets"] = rec.get("args"), rec.get("rets")
        return r
