"""C15 — scopes and name tables agree with Python's own symbol table.

For every generated module (harness/c15_gen.py):
  * rope is run on the source (libutils.get_string_module) and its scope tree, the names of each scope, the result of
    `scope.lookup(x)` for every scope and every identifier of the module canonicalised to the owning scope
    (by identity of the PyName object), and `get_inner_scope_for_line` for every line are recorded;
  * CPython is asked independently: `symtable.symtable` on a copy of the module in which every scope
    received a marker and a use of every identifier (a use never changes a binding), with list/set/dict
    comprehensions written as generator expressions (the 3.12 compiler inlines them, their scoping is the
    same); extents and source order come from `ast`;
  * both observations and the program (as a PyF term) are written into a Coq case file; inside Coq the
    MODEL (coq/C15/RopeScopes.v) is compared with rope, the SPEC (coq/C15/Scoping.v) with CPython, and
    inside the theorems' domain the model with the spec;
  * the oracle pass compares rope with CPython directly; each disagreement is classified structurally
    (signature) and is either an open known finding or a VIOLATION (the failing module is then shrunk by
    statement deletion);
  * thorough tier: rope's own source files go through the translator, the SPEC-vs-CPython comparison and the
    oracle pass as well (real code; the MODEL is not compared there because imports and bases resolve).
  * every module is observed a second time on a fresh module object with the questions asked in another order
    (shuffled / module lookups first / deepest scopes first / lines first; the "star" stream: all four): the
    answers must not depend on the order;
  * get_inner_scope_for_offset is compared, for every offset, with the innermost scope node whose CPython source
    span (decorators included, half-open at the end) contains it; when patchedast raises, the module is skipped
    for offsets with a reference to the open C08 finding whose shape it contains.
Streams: "main" (inside the theorems' domain by construction of the generator, measured inside Coq),
"plus" (PyF+: one or two productions for known departures switched on), "star" (modules starting with
`from helpers_lib import *`, a small library module of the scratch project: star-imported public names must resolve
to the library's binding), "real".
"""
import ast
import atexit
import builtins as _py_builtins
import copy
import json
import os
import random
import shutil
import symtable
import tempfile
import warnings
import zlib

from harness import c15_gen
from harness.common import g_list

PROPERTY = "C15"
warnings.filterwarnings("ignore", category=SyntaxWarning)

SCOPE_NODES = (ast.FunctionDef, ast.AsyncFunctionDef, ast.ClassDef, ast.Lambda,
               ast.ListComp, ast.SetComp, ast.DictComp, ast.GeneratorExp)
COMP_NODES = (ast.ListComp, ast.SetComp, ast.DictComp, ast.GeneratorExp)
PY_BUILTINS = set(dir(_py_builtins))

_project = None
_project_dir = None
_resource = None

# a small library module of the scratch project; only the "star" stream imports it (from helpers_lib import *)
LIB_NAME = "helpers_lib"
LIB_SOURCE = "a = 1\ndef f():\n    return a\nclass C:\n    x = 2\nlen = 3\n_hidden = 4\n"
LIB_PUBLIC = {"a", "f", "C", "len"}


def project():
    """one scratch project per run; the observed modules are string modules attached to the resource
    d1/d2/d3/mod.py (plain folders, no packages), so that relative imports have a folder to start from and
    never resolve"""
    global _project, _project_dir, _resource
    if _project is not None and not os.path.isfile(os.path.join(_project_dir, "d1", "d2", "d3", "mod.py")):
        # the scratch directory was removed from outside (concurrent clean-up of /tmp): start a new one
        close_project()
    if _project is None:
        from rope.base import project as rp
        _project_dir = tempfile.mkdtemp(prefix="ropeverif-c15-")
        os.makedirs(os.path.join(_project_dir, "d1", "d2", "d3"))
        with open(os.path.join(_project_dir, "d1", "d2", "d3", "mod.py"), "w") as f:
            f.write("")
        with open(os.path.join(_project_dir, LIB_NAME + ".py"), "w") as f:
            f.write(LIB_SOURCE)
        _project = rp.Project(_project_dir, ropefolder=None)
        _resource = _project.get_resource("d1/d2/d3/mod.py")
    return _project


def close_project():
    global _project, _project_dir
    if _project is not None:
        try:
            _project.close()
        except Exception:
            pass
        shutil.rmtree(_project_dir, ignore_errors=True)
        _project = None


atexit.register(close_project)


def node_key(node):
    if isinstance(node, ast.Module):
        return ("Module", 0, 0)
    return (node.__class__.__name__, node.lineno, node.col_offset)


def kind_of_node(node):
    if isinstance(node, ast.Module):
        return "Module"
    if isinstance(node, (ast.FunctionDef, ast.AsyncFunctionDef)):
        return "Function"
    if isinstance(node, ast.ClassDef):
        return "Class"
    if isinstance(node, ast.Lambda):
        return "Lambda"
    return "Comp"


# ============================================================================ rope
class RopeScope:
    __slots__ = ("path", "key", "kind", "start", "end", "names", "lookups", "parent", "scope", "dup", "inherited",
                 "allnames")


def _from_library(pyname):
    """the PyName is a name imported from the library module of the scratch project"""
    try:
        m, _ = pyname.get_definition_location()
        return m is not None and m.get_resource() is not None and m.get_resource().path == LIB_NAME + ".py"
    except Exception:
        return False


def answers_of(rope_scopes, rope_lines, idents):
    """the observations of one pass as a flat dictionary question -> answer (for comparing passes that ask the
    same questions in different orders)"""
    def ok(o):
        return o.path if isinstance(o, RopeScope) else o
    ans = {}
    for r in rope_scopes:
        ans[("extent", r.path)] = (r.kind, r.start, r.end)
        ans[("names", r.path)] = tuple(r.allnames)
        for x in idents:
            ans[("lookup", r.path, x)] = ok(r.lookups[x])
    for l, p in enumerate(rope_lines, 1):
        ans[("line", l)] = p
    return ans


ORDER_MODES = ("shuffle", "lookups-first", "deepest-first", "lines-first")


def observe_rope_in_order(src, idents, paths, mode, rng):
    """Asks a FRESH module object the same questions as observe_rope, in another order, through the public
    interface only (get_scopes / get_kind / get_start / get_end / get_names / lookup / get_inner_scope_for_line);
    the answers are canonicalised after the last question. Returns the dictionary of answers_of."""
    from rope.base import libutils
    import rope.base.builtins
    mod = libutils.get_string_module(project(), src, _resource)
    g = mod.get_scope()
    nlines = src.count("\n") + 1
    per_scope = lambda p: [("extent", p), ("names", p)] + [("lookup", p, x) for x in idents]
    lines = [("line", l) for l in range(1, nlines + 1)]
    if mode == "lookups-first":
        # the module scope is asked for names before anything made it list its sub-scopes
        head = [("lookup", (), x) for x in idents] + [("names", ())]
        rest = [q for p in paths for q in per_scope(p) if q not in set(head)] + lines
        rng.shuffle(rest)
        qs = head + rest
    elif mode == "deepest-first":
        qs = [q for p in sorted(paths, key=lambda p: (-len(p), p)) for q in reversed(per_scope(p))] + lines
    elif mode == "lines-first":
        qs = lines + [q for p in reversed(paths) for q in per_scope(p)]
    else:
        qs = [q for p in paths for q in per_scope(p)] + lines
        rng.shuffle(qs)

    def nav(path):
        sc = g
        for i in path:
            sc = sc.get_scopes()[i]
        return sc

    raw = {}
    for q in qs:
        if q[0] == "line":
            raw[q] = g.get_inner_scope_for_line(q[1])
            continue
        sc = nav(q[1])
        if q[0] == "extent":
            k = sc.get_kind()
            raw[q] = ({"Module": "Module", "Function": "Function", "Class": "Class", None: "Comp"}.get(k, str(k)),
                      sc.get_start(), sc.get_end())
        elif q[0] == "names":
            raw[q] = dict(sc.get_names())
        else:
            raw[q] = sc.lookup(q[2])
    # canonicalise (what is asked from here on can no longer influence the answers above)
    bi = rope.base.builtins.builtins.get_attributes()
    builtin_ids = {id(v) for v in bi.values()}
    scopes = {p: nav(p) for p in paths}
    owner = {}
    for p in paths:                         # preorder
        sc = scopes[p]
        kind = sc.get_kind()
        if kind == "Module":
            structural = sc.pyobject._get_structural_attributes()
            own = [v for k, v in sc.get_names().items() if structural.get(k) is v]
        elif kind == "Class":
            own = list(sc.pyobject._get_structural_attributes().values())
        elif kind is None:
            pn = scopes[p[:-1]].get_names()
            own = [v for k, v in sc.get_names().items() if pn.get(k) is not v]
        else:
            own = list(sc.get_names().values())
        for v in own:
            owner.setdefault(id(v), p)
    by_scope = {id(sc): p for p, sc in scopes.items()}

    def canon(pn):
        if pn is None:
            return None
        if id(pn) in owner:
            return owner[id(pn)]
        if id(pn) in builtin_ids:
            return "B"
        return "LIB" if _from_library(pn) else "?"

    ans = {}
    for q, v in raw.items():
        if q[0] == "extent":
            ans[q] = v
        elif q[0] == "names":
            ans[q] = tuple(sorted(k for k, pn in v.items() if not (q[1] == () and bi.get(k) is pn)))
        elif q[0] == "lookup":
            ans[q] = canon(v)
        else:
            ans[q] = by_scope.get(id(v), "?")
    return ans


def observe_rope(src, idents):
    """Returns (list of RopeScope in preorder, line_scopes: list of paths for line 1..nlines)."""
    from rope.base import libutils
    import rope.base.builtins
    mod = libutils.get_string_module(project(), src, _resource)
    g = mod.get_scope()
    bi = rope.base.builtins.builtins.get_attributes()
    out = []

    def walk(s, path, parent):
        r = RopeScope()
        r.path = path
        r.scope = s
        r.parent = parent
        r.key = node_key(s.pyobject.get_ast())
        k = s.get_kind()
        r.kind = {"Module": "Module", "Function": "Function", "Class": "Class", None: "Comp"}.get(k, str(k))
        r.start = s.get_start()
        r.end = s.get_end()
        out.append(r)
        for i, c in enumerate(s.get_scopes()):
            walk(c, path + (i,), r)

    walk(g, (), None)
    # the table each scope owns (PyName objects by identity)
    for r in out:
        s = r.scope
        r.allnames = sorted(k for k, v in s.get_names().items() if not (r.kind == "Module" and bi.get(k) is v))
        if r.kind == "Module":
            # the module's own bindings; names brought in by a star import are concluded attributes, not these
            structural = s.pyobject._get_structural_attributes()
            own = {k: v for k, v in s.get_names().items() if structural.get(k) is v}
        elif r.kind == "Class":
            own = dict(s.pyobject._get_structural_attributes())
            r.inherited = set(s.get_names()) - set(own)
        elif r.kind == "Comp":
            pn = r.parent.scope.get_names()
            own = {k: v for k, v in s.get_names().items() if pn.get(k) is not v}
        else:
            own = dict(s.get_names())
        r.names = own
    owner = {}
    for r in out:                      # preorder: the first scope that holds the object owns it
        for v in r.names.values():
            owner.setdefault(id(v), r)
    builtin_ids = {id(v) for v in bi.values()}

    def canon(p):
        if p is None:
            return None
        o = owner.get(id(p))
        if o is not None:
            return o
        if id(p) in builtin_ids:
            return "B"
        if _from_library(p):
            return "LIB"
        return "?"

    for r in out:
        r.lookups = {x: canon(r.scope.lookup(x)) for x in idents}
    nlines = src.count("\n") + 1
    by_scope = {id(r.scope): r for r in out}
    lines = []
    for l in range(1, nlines + 1):
        h = g.get_inner_scope_for_line(l)
        lines.append(by_scope[id(h)].path)
    return out, lines


# ============================================================================ CPython
class PyScope:
    __slots__ = ("sid", "node", "key", "kind", "start", "end", "pos", "parent", "children", "names", "resolve",
                 "path", "table")


class _Number(ast.NodeVisitor):
    """gives every scope node an id (attribute _sid) in a deterministic order"""

    def __init__(self):
        self.nodes = []

    def generic_visit(self, node):
        if isinstance(node, SCOPE_NODES) or isinstance(node, ast.Module):
            node._sid = len(self.nodes)
            self.nodes.append(node)
        super().generic_visit(node)


def _marker(i):
    return "__scope_%d__" % i


class _Instrument(ast.NodeTransformer):
    """comprehensions -> generator expressions; a marker and a use of every identifier in every scope"""

    def __init__(self, idents):
        self.idents = idents

    def uses(self, sid):
        return ast.Tuple(elts=[ast.Name(id=_marker(sid), ctx=ast.Load())] +
                         [ast.Name(id=x, ctx=ast.Load()) for x in self.idents], ctx=ast.Load())

    def visit_Module(self, node):
        self.generic_visit(node)
        node.body.append(ast.Expr(value=self.uses(node._sid)))
        return node

    def _block(self, node):
        self.generic_visit(node)
        node.body.append(ast.Expr(value=self.uses(node._sid)))
        return node

    visit_FunctionDef = _block
    visit_AsyncFunctionDef = _block
    visit_ClassDef = _block

    def visit_Lambda(self, node):
        self.generic_visit(node)
        node.body = ast.Tuple(elts=[node.body, self.uses(node._sid)], ctx=ast.Load())
        return node

    def _comp(self, node, elt):
        sid = node._sid
        self.generic_visit(node)
        gens = node.generators
        gens[-1].ifs.append(self.uses(sid))
        return ast.GeneratorExp(elt=elt(node), generators=gens)

    def visit_ListComp(self, node):
        return self._comp(node, lambda n: n.elt)

    visit_SetComp = visit_ListComp
    visit_GeneratorExp = visit_ListComp

    def visit_DictComp(self, node):
        return self._comp(node, lambda n: ast.Tuple(elts=[n.key, n.value], ctx=ast.Load()))


def observe_python(src, idents):
    """Returns list of PyScope in preorder (children in source order)."""
    tree = ast.parse(src)
    num = _Number()
    num.visit(tree)
    nodes = num.nodes
    inst = _Instrument(idents).visit(copy.deepcopy(tree))
    ast.fix_missing_locations(inst)
    text = ast.unparse(inst)
    top = symtable.symtable(text, "m.py", "exec")
    scopes = {}

    def sid_of(table):
        found = [s.get_name() for s in table.get_symbols() if s.get_name().startswith("__scope_")]
        # a marker is a plain use: it is listed only by the table of the scope it was inserted in
        assert len(found) == 1, (table.get_name(), found)
        return int(found[0][len("__scope_"):-2])

    def walk(table, parent):
        sid = sid_of(table)
        p = PyScope()
        p.sid = sid
        p.node = nodes[sid]
        p.key = node_key(p.node)
        p.kind = kind_of_node(p.node)
        p.table = table
        p.parent = parent
        p.children = []
        if isinstance(p.node, ast.Module):
            p.start, p.end, p.pos = 1, src.count("\n") + 1, (0, 0)
        else:
            p.start, p.end, p.pos = p.node.lineno, p.node.end_lineno, (p.node.lineno, p.node.col_offset)
        scopes[sid] = p
        if parent is not None:
            parent.children.append(p)
        for c in table.get_children():
            walk(c, p)

    walk(top, None)
    root = scopes[nodes.index(tree)]
    order = []

    def number(p, path):
        p.path = path
        order.append(p)
        p.children.sort(key=lambda c: c.pos)
        for i, c in enumerate(p.children):
            number(c, path + (i,))

    number(root, ())
    special = lambda n: n.startswith("__scope_") or n.startswith(".")
    # module globals: bound at module level, or assigned somewhere under a global declaration
    module_bound = {s.get_name() for s in top.get_symbols() if s.is_local() and not special(s.get_name())}
    for p in order:
        for s in p.table.get_symbols():
            if s.is_declared_global() and (s.is_assigned() or s.is_imported()):
                module_bound.add(s.get_name())

    def module_level(x):
        if x in module_bound:
            return root
        return "B" if x in PY_BUILTINS else None

    module_decl = set()      # names declared by a global statement at module level (as for function scopes)

    def _module_globals(stmts):
        for st in stmts:
            if isinstance(st, ast.Global):
                module_decl.update(st.names)
            elif not isinstance(st, (ast.FunctionDef, ast.AsyncFunctionDef, ast.ClassDef)):
                for f in ("body", "orelse", "finalbody"):
                    _module_globals(getattr(st, f, []) or [])
                for h in getattr(st, "handlers", []) or []:
                    _module_globals(h.body)

    _module_globals(tree.body)
    for p in order:
        t = p.table
        # bound here, or declared global / nonlocal here by a statement (the module table also flags names that a
        # nested scope declares global, and a comprehension table flags its hoisted walrus targets: neither is a
        # declaration in that scope)
        decl = p.kind in ("Function", "Class")
        p.names = {s.get_name() for s in t.get_symbols()
                   if not special(s.get_name())
                   and (s.is_local() or (decl and (s.is_declared_global() or s.is_nonlocal())))}
        if p is root:
            p.names |= module_decl
        if p.kind == "Comp":
            # a walrus target hoisted out of comprehensions at module level is flagged in the comprehension's table
            q = p.parent
            while q.kind == "Comp":
                q = q.parent
            if q is root:
                root.names |= {s.get_name() for s in t.get_symbols() if s.is_declared_global() and s.is_assigned()}
        p.resolve = {}
        for x in idents:
            s = t.lookup(x)
            if p is root:
                p.resolve[x] = module_level(x)
            elif s.is_global():
                p.resolve[x] = module_level(x)
            elif s.is_free():
                q = p.parent
                while q is not None:
                    if q.table.get_type() == "function" and q.table.lookup(x).is_local():
                        break
                    q = q.parent
                p.resolve[x] = q if q is not None else "?"
            elif s.is_local():
                p.resolve[x] = p
            else:
                p.resolve[x] = "?"
    return order, tree


# ============================================================================ structural facts for classification
class Facts:
    """Syntactic facts about a module used to attribute a disagreement to a known departure of rope."""

    def __init__(self, tree):
        self.tree = tree
        self.parent = {}
        for n in ast.walk(tree):
            for c in ast.iter_child_nodes(n):
                self.parent[c] = n
        self.by_key = {}
        for n in ast.walk(tree):
            if isinstance(n, SCOPE_NODES) or isinstance(n, ast.Module):
                self.by_key[node_key(n)] = n

    def position(self, node):
        """how `node` hangs below its nearest enclosing statement / scope node, as a list of (parent class, field)"""
        chain = []
        n = node
        while n in self.parent:
            p = self.parent[n]
            field = None
            for f, v in ast.iter_fields(p):
                if v is n or (isinstance(v, list) and any(x is n for x in v)):
                    field = f
                    if isinstance(v, list):
                        idx = [i for i, x in enumerate(v) if x is n][0]
                        field = (f, idx)
                    break
            chain.append((p, field))
            if isinstance(p, ast.stmt) or isinstance(p, SCOPE_NODES):
                break
            n = p
        return chain

    def why_not_visited(self, node):
        """for an expression node: the reason rope's visitors do not reach it ("unvisited", "lambda"), or reach it
        on behalf of the wrong scope ("misattached"); every position between the node and its statement counts,
        the strongest reason wins"""
        reasons = set()
        n = node
        while n in self.parent:
            p = self.parent[n]
            fld = None
            for f, v in ast.iter_fields(p):
                if v is n or (isinstance(v, list) and any(x is n for x in v)):
                    fld = f
            if isinstance(p, ast.Lambda):
                reasons.add("lambda")
            if isinstance(p, ast.comprehension):
                if fld == "ifs":
                    reasons.add("unvisited")
                if fld == "iter" and self.parent[p].generators[0] is p:
                    reasons.add("misattached")
            if isinstance(p, (ast.Return, ast.AugAssign, ast.AnnAssign, ast.withitem)):
                reasons.add("unvisited")
            if isinstance(p, (ast.For, ast.AsyncFor)) and fld in ("iter", "target"):
                reasons.add("unvisited")
            if isinstance(p, ast.ExceptHandler) and fld == "type":
                reasons.add("unvisited")
            if isinstance(p, ast.Assign) and fld == "targets":
                reasons.add("unvisited")
            if isinstance(p, (ast.FunctionDef, ast.AsyncFunctionDef)) and fld in ("decorator_list", "returns"):
                reasons.add("misattached")
            if isinstance(p, (ast.arguments, ast.arg)):
                reasons.add("misattached")
            if isinstance(p, ast.ClassDef) and fld in ("bases", "keywords", "decorator_list"):
                reasons.add("misattached")
            if isinstance(p, ast.stmt) or isinstance(p, ast.Module):
                break
            n = p
        for r in ("unvisited", "lambda", "misattached"):
            if r in reasons:
                return r
        return None

    def enclosing_scope(self, node):
        """the scope whose code evaluates `node` (CPython's rule: decorators, defaults, annotations, base classes
        and the first iterable of a comprehension belong to the enclosing scope)"""
        child = node
        n = self.parent.get(node)
        via_iter = False
        while n is not None:
            if isinstance(n, ast.Module):
                return n
            if isinstance(n, (ast.FunctionDef, ast.AsyncFunctionDef, ast.ClassDef)):
                if any(child is b for b in n.body):
                    return n
            elif isinstance(n, ast.Lambda):
                if child is n.body:
                    return n
            elif isinstance(n, COMP_NODES):
                if not (via_iter and child is n.generators[0]):
                    return n
            via_iter = isinstance(n, ast.comprehension) and child is n.iter
            child = n
            n = self.parent.get(n)
        return n

    def in_method_assignment(self, node):
        """node lies in the value of an Assign inside a function that is a direct statement of a class body"""
        n = node
        seen_assign_value = False
        while n in self.parent:
            p = self.parent[n]
            if isinstance(p, ast.Assign) and p.value is n:
                seen_assign_value = True
            if isinstance(p, (ast.FunctionDef, ast.AsyncFunctionDef)):
                if not seen_assign_value:
                    return False
                q = self.parent.get(p)
                while q is not None and not (isinstance(q, SCOPE_NODES) or isinstance(q, ast.Module)):
                    q = self.parent.get(q)
                return isinstance(q, ast.ClassDef)
            if isinstance(p, ast.ClassDef):
                return False
            n = p          # lambdas are entered by rope's generic_visit, so they do not stop the search
        return False

    def block_statements(self, scope_node):
        """statements belonging directly to the scope (not to nested scopes)"""
        out = []

        def rec(stmts):
            for s in stmts:
                out.append(s)
                for f in ("body", "orelse", "finalbody"):
                    if not isinstance(s, (ast.FunctionDef, ast.AsyncFunctionDef, ast.ClassDef)):
                        rec(getattr(s, f, []) or [])
                for h in getattr(s, "handlers", []) or []:
                    out.append(h)
                    rec(h.body)

        if isinstance(scope_node, (ast.Module, ast.FunctionDef, ast.AsyncFunctionDef, ast.ClassDef)):
            rec(scope_node.body)
        return out

    def binding_kinds(self, scope_node, x):
        """set of construct kinds that bind x directly in the scope"""
        kinds = set()

        def targets(t, kind):
            for n in ast.walk(t):
                if isinstance(n, ast.Name) and n.id == x and isinstance(n.ctx, (ast.Store, ast.Del)):
                    # names inside subscripts / attributes are loads, so walk is exact here
                    kinds.add(kind)

        if isinstance(scope_node, (ast.FunctionDef, ast.AsyncFunctionDef, ast.Lambda)):
            a = scope_node.args
            for p in a.posonlyargs:
                if p.arg == x:
                    kinds.add("posonly")
            for p in a.kwonlyargs:
                if p.arg == x:
                    kinds.add("kwonly")
            for p in a.args + [q for q in (a.vararg, a.kwarg) if q]:
                if p.arg == x:
                    kinds.add("param")
        if isinstance(scope_node, COMP_NODES):
            for g in scope_node.generators:
                targets(g.target, "comp-target")
        for s in self.block_statements(scope_node):
            if isinstance(s, ast.Assign):
                for t in s.targets:
                    targets(t, "assign")
            elif isinstance(s, ast.AugAssign):
                targets(s.target, "augassign")
            elif isinstance(s, ast.AnnAssign):
                targets(s.target, "assign")
            elif isinstance(s, ast.Delete):
                for t in s.targets:
                    targets(t, "del")
            elif isinstance(s, (ast.For, ast.AsyncFor)):
                targets(s.target, "assign")
            elif isinstance(s, (ast.With, ast.AsyncWith)):
                for it in s.items:
                    if it.optional_vars is not None:
                        targets(it.optional_vars, "assign")
            elif isinstance(s, ast.ExceptHandler):
                if s.name == x:
                    kinds.add("assign")
            elif isinstance(s, (ast.FunctionDef, ast.AsyncFunctionDef, ast.ClassDef)):
                if s.name == x:
                    kinds.add("def")
            elif isinstance(s, ast.Import):
                for a in s.names:
                    if (a.asname or a.name.split(".")[0]) == x:
                        kinds.add("import")
            elif isinstance(s, ast.ImportFrom):
                for a in s.names:
                    if (a.asname or a.name) == x:
                        kinds.add("import")
            elif isinstance(s, ast.Global):
                if x in s.names:
                    kinds.add("global")
            elif isinstance(s, ast.Nonlocal):
                if x in s.names:
                    kinds.add("nonlocal")
        # walrus targets that bind in this scope
        for n in ast.walk(scope_node):
            if isinstance(n, ast.NamedExpr) and n.target.id == x:
                sc = self.enclosing_scope(n)
                hoisted = False
                while isinstance(sc, COMP_NODES):
                    hoisted = True
                    sc = self.enclosing_scope(sc)
                if sc is scope_node:
                    why = self.why_not_visited(n)
                    if hoisted:
                        kinds.add("walrus-in-comprehension")
                    elif why:
                        kinds.add("walrus-" + why)
                    else:
                        kinds.add("assign")
        return kinds

    def instance_attrs(self, class_node):
        """names assigned as <first parameter>.name in functions that are statements of the class body"""
        out = set()
        for s in self.block_statements(class_node):
            if isinstance(s, (ast.FunctionDef, ast.AsyncFunctionDef)) and s.args.args:
                me = s.args.args[0].arg
                for n in ast.walk(s):
                    if isinstance(n, ast.Attribute) and isinstance(n.ctx, ast.Store) \
                            and isinstance(n.value, ast.Name) and n.value.id == me:
                        out.add(n.attr)
        return out


# which kinds of disagreement each known departure of rope is known (and predicted by the model) to produce
ALLOWED_WHAT = {
    "kwonly-param": {"name-missing", "lookup"},
    "posonly-param": {"name-missing", "lookup"},
    "nonlocal": {"name-missing", "lookup"},
    "aug-or-del-only-binding": {"name-missing", "lookup"},
    "class-inherited-attribute": {"lookup"},
    "class-self-attribute": {"lookup"},
    "comprehension-in-class": {"lookup"},
    "global-declaration-not-honoured": {"lookup"},
    "lambda-no-scope": {"scope-missing", "scope-parent", "name-missing", "name-extra", "lookup"},
    "walrus-in-comprehension": {"name-missing", "name-extra", "lookup"},
    "unvisited-expression": {"scope-missing", "name-missing", "lookup"},
    "misattached-expression": {"scope-parent", "scope-duplicate", "name-missing", "name-extra", "lookup"},
    "comprehension-extent": {"scope-end"},
    "module-level-global-unbound": {"lookup"},
    "cyclic-superclasses-order-dependence": {"order-dependence"},
}


# ============================================================================ the oracle pass
def compare(src, idents, rope_scopes, rope_lines, py_scopes, tree):
    """Returns the list of disagreements between rope and CPython, each a dict with a structural `cause`."""
    facts = Facts(tree)
    dis = []
    py_by_key = {p.key: p for p in py_scopes}
    rope_by_key = {}
    for r in rope_scopes:
        r.dup = r.key in rope_by_key
        rope_by_key.setdefault(r.key, r)

    def add(what, cause, **kw):
        if cause in ALLOWED_WHAT and what not in ALLOWED_WHAT[cause]:
            # a known departure explains only the kinds of failure it is known to produce
            kw["would_be"] = cause
            cause = "unattributed"
        d = dict(what=what, cause=cause)
        d.update(kw)
        dis.append(d)

    # ---- the scope tree
    tree_cause = {}      # key -> cause of a structural problem with that scope
    for p in py_scopes:
        r = rope_by_key.get(p.key)
        if r is None:
            if p.kind == "Lambda":
                cause = "lambda-no-scope"
            else:
                # the position of the expression itself explains it first, then a problem with an enclosing scope
                why = facts.why_not_visited(p.node)
                cause = {"unvisited": "unvisited-expression", "lambda": "lambda-no-scope"}.get(why)
                anc = p.parent
                while anc is not None and cause is None:
                    if anc.key in tree_cause:
                        cause = tree_cause[anc.key]
                    anc = anc.parent
                if cause is None:
                    cause = {"misattached": "misattached-expression"}.get(why, "unattributed")
            tree_cause[p.key] = cause
            add("scope-missing", cause, scope=list(p.key))
            continue
        rp = r.parent.key if r.parent is not None else None
        pp = p.parent.key if p.parent is not None else None
        if rp != pp:
            why = facts.why_not_visited(p.node)
            cause = {"misattached": "misattached-expression", "lambda": "lambda-no-scope",
                     "unvisited": "unvisited-expression"}.get(why, None)
            if cause is None:
                # below a scope rope does not have (e.g. inside a lambda)
                anc = p.parent
                while anc is not None and cause is None:
                    cause = tree_cause.get(anc.key)
                    anc = anc.parent
            cause = cause or "unattributed"
            tree_cause[p.key] = cause
            add("scope-parent", cause, scope=list(p.key), rope_parent=list(rp or ()), python_parent=list(pp or ()))
        if r.kind != p.kind:
            add("scope-kind", "unattributed", scope=list(p.key), rope=r.kind, python=p.kind)
        if r.start != p.start:
            add("scope-start", "unattributed", scope=list(p.key), rope=r.start, python=p.start)
        if p.kind != "Module" and r.end != p.end:
            add("scope-end", "comprehension-extent" if p.kind == "Comp" else "unattributed",
                scope=list(p.key), rope=r.end, python=p.end)
    for r in rope_scopes:
        if r.key not in py_by_key:
            add("scope-extra", "unattributed", scope=list(r.key))
        elif r.dup:
            cause = "misattached-expression" if facts.in_method_assignment(py_by_key[r.key].node) else "unattributed"
            add("scope-duplicate", cause, scope=list(r.key), under=list(r.parent.key))
    # source order of sub-scopes
    for r in rope_scopes:
        ks = [c.key for c in rope_scopes if c.parent is r and not c.dup and c.key in py_by_key
              and c.key not in tree_cause]
        if ks != sorted(ks, key=lambda k: (k[1], k[2])):
            add("scope-order", "unattributed", scope=list(r.key))

    # ---- names per scope
    name_cause = {}      # (scope key, x) -> cause
    for p in py_scopes:
        r = rope_by_key.get(p.key)
        if r is None:
            continue
        rn = set(r.names)
        pn = set(p.names)
        inst = facts.instance_attrs(p.node) if p.kind == "Class" else set()
        for x in sorted(pn - rn):
            kinds = facts.binding_kinds(p.node, x)
            if "kwonly" in kinds:
                cause = "kwonly-param"
            elif "posonly" in kinds:
                cause = "posonly-param"
            elif kinds and kinds <= {"nonlocal"}:
                cause = "nonlocal"
            elif kinds and kinds <= {"augassign", "del", "nonlocal"}:
                cause = "aug-or-del-only-binding"
            elif "walrus-in-comprehension" in kinds and not (kinds & {"assign", "def", "import", "param", "global"}):
                cause = "walrus-in-comprehension"
            elif any(k.startswith("walrus-") for k in kinds) and not (kinds & {"assign", "def", "import", "param", "global"}):
                k = [k for k in kinds if k.startswith("walrus-")][0]
                cause = {"walrus-unvisited": "unvisited-expression", "walrus-misattached": "misattached-expression",
                         "walrus-lambda": "lambda-no-scope"}.get(k, "unattributed")
            else:
                cause = "unattributed"
            name_cause[(p.key, x)] = cause
            add("name-missing", cause, scope=list(p.key), name=x, bound_by=sorted(kinds))
        for x in sorted(rn - pn - inst):
            cause = "unattributed"
            for n in ast.walk(p.node):
                if isinstance(n, ast.NamedExpr) and n.target.id == x:
                    sc = facts.enclosing_scope(n)
                    if sc is p.node and isinstance(sc, COMP_NODES):
                        cause = "walrus-in-comprehension"
                    elif p.kind == "Class" and facts.in_method_assignment(n):
                        cause = "misattached-expression"
                    elif facts.why_not_visited(n) == "misattached":
                        cause = "misattached-expression"
                    elif facts.why_not_visited(n) == "lambda" or isinstance(sc, ast.Lambda):
                        cause = "lambda-no-scope"
            name_cause[(p.key, x)] = cause
            add("name-extra", cause, scope=list(p.key), name=x)

    # ---- lookups
    def okey(o):
        if o is None or isinstance(o, str):
            return o
        return o.key

    # `from helpers_lib import *` at module level: the public names of the library are module globals bound by
    # that statement wherever the module does not bind them itself
    star = any(isinstance(st, ast.ImportFrom) and st.module == LIB_NAME and st.names[0].name == "*" and not st.level
               for st in tree.body)
    for p in py_scopes:
        r = rope_by_key.get(p.key)
        if r is None or r.dup:
            continue
        for x in idents:
            want = okey(p.resolve[x])
            if star and want in (None, "B") and x in LIB_PUBLIC:
                want = "LIB"
            got = okey(r.lookups[x])
            if want == got:
                continue
            cause = None
            # a names / tree disagreement for x on the way explains the lookup
            q = p
            while q is not None and cause is None:
                cause = name_cause.get((q.key, x)) or tree_cause.get(q.key)
                q = q.parent
            if cause is None and isinstance(got, tuple) and (got, x) in name_cause:
                cause = name_cause[(got, x)]
            if cause is None and isinstance(want, tuple) and (want, x) in name_cause:
                cause = name_cause[(want, x)]
            if cause is None:
                # x is declared nonlocal in a scope between the one looked up from and its binding
                q = p
                while q is not None and okey(q) != want:
                    if "nonlocal" in facts.binding_kinds(q.node, x):
                        cause = "nonlocal"
                        break
                    q = q.parent
            if cause is None and p.kind == "Class" and x not in p.names:
                if x in facts.instance_attrs(p.node) and got == p.key:
                    cause = "class-self-attribute"
                elif x in r.inherited:
                    cause = "class-inherited-attribute"
            if cause is None and p.kind in ("Comp", "Lambda"):
                q = p.parent
                while q is not None and q.kind in ("Comp", "Lambda"):
                    q = q.parent
                rq = rope_by_key.get(q.key) if q is not None else None
                if q is not None and q.kind == "Class" and rq is not None and okey(rq.lookups[x]) == got \
                        and (x in rq.names or x in rq.inherited):
                    cause = "comprehension-in-class"
            if cause is None and got == ("Module", 0, 0) and "global" in facts.binding_kinds(tree, x) \
                    and not (facts.binding_kinds(tree, x) - {"global"}):
                # a global statement at module level for a name the module never binds: rope records a binding
                cause = "module-level-global-unbound"
            if cause is None:
                # global declarations rope does not honour
                decl = [s for s in py_scopes if "global" in facts.binding_kinds(s.node, x)]
                if decl:
                    module_binds = facts.binding_kinds(tree, x) - {"global"}
                    rebound = any(facts.binding_kinds(s.node, x) & {"def", "import"} for s in decl)
                    if not module_binds or rebound:
                        cause = "global-declaration-not-honoured"
            add("lookup", cause or "unattributed", scope=list(p.key), name=x,
                rope=list(got) if isinstance(got, tuple) else got,
                python=list(want) if isinstance(want, tuple) else want)

    # ---- scope holding a line (non-blank, non-comment lines; first lines of logical lines)
    lay = c15_gen.layout_of(src)
    rope_by_path = {r.path: r for r in rope_scopes}
    blocks = [p for p in py_scopes if p.kind in ("Module", "Function", "Class")]
    for l, (indent, empty, is_start, _e) in enumerate(lay, 1):
        if empty or not is_start:
            continue
        inner = None
        for p in blocks:                # preorder: the last one containing the line is the innermost
            if p.start <= l <= p.end:
                inner = p
        r = rope_by_path[rope_lines[l - 1]]
        # a comprehension scope starting on the line shares it with the enclosing statement
        while r.kind == "Comp":
            r = r.parent
        if r.key != inner.key:
            add("line-scope", "unattributed", line=l, rope=list(r.key), python=list(inner.key))
    return dis


def causes_of(dis):
    return sorted({d["cause"] for d in dis})


# ============================================================================ shrinking a failing module
def _variants(tree):
    """modules obtained by deleting one statement (a body that becomes empty gets `pass`)"""
    bodies = []
    for n in ast.walk(tree):
        for f in ("body", "orelse", "finalbody"):
            b = getattr(n, f, None)
            if isinstance(b, list) and b and isinstance(b[0], ast.stmt):
                bodies.append((n, f))
    for (n, f) in bodies:
        b = getattr(n, f)
        for i in range(len(b)):
            t = copy.deepcopy(tree)
            # locate the same list in the copy by position
            for m in ast.walk(t):
                if type(m) is type(n) and getattr(m, "lineno", None) == getattr(n, "lineno", None) \
                        and getattr(m, "col_offset", None) == getattr(n, "col_offset", None):
                    bb = getattr(m, f)
                    if len(bb) == len(b):
                        del bb[i]
                        if not bb and f == "body":
                            bb.append(ast.Pass())
                        break
            try:
                src = ast.unparse(ast.fix_missing_locations(t)) + "\n"
                compile(src, "m.py", "exec")
            except Exception:
                continue
            yield src


def shrink(src, cause, what, budget=80):
    """greedy statement deletion while a disagreement with the same (what, cause) persists"""
    if what in ("scope-end", "line-scope"):
        return src          # these depend on the layout, which unparsing would change
    cur = src
    progress = True
    while progress and budget > 0:
        progress = False
        try:
            tree = ast.parse(cur)
        except SyntaxError:
            break
        for cand in _variants(tree):
            if budget <= 0:
                break
            if len(cand) >= len(cur):
                continue
            budget -= 1
            try:
                o = observe(cand)
            except Exception:
                continue
            if o is not None and any(d["cause"] == cause and d["what"] == what for d in o.dis):
                cur = cand
                progress = True
                break
    return cur


# ============================================================================ Gallina case
KIND_G = {"Module": "KModule", "Function": "KFunction", "Class": "KClass", "Comp": "KComp", "Lambda": "KLambda"}


def g_path(p):
    return "[" + "; ".join("%d%%nat" % i for i in p) + "]"


def g_binding(o, path_of):
    if o is None:
        return "BNone"
    if o == "B":
        return "BBuiltin"
    if o == "?":
        return "(BScope [999%nat])"
    return "(BScope %s)" % g_path(path_of(o))


def case_term(tr, idents, rope_scopes, rope_lines, py_scopes):
    gi = tr.g_idents
    rs = g_list(["(%s, %s, (%d%%N, %d%%N), %s)" % (g_path(r.path), KIND_G[r.kind], r.start, r.end, gi(sorted(r.names)))
                 for r in rope_scopes])
    rl = g_list([g_list([g_binding(r.lookups[x], lambda o: o.path) for x in idents]) for r in rope_scopes])
    ps = g_list(["(%s, %s, (%d%%N, %d%%N), %s)" % (g_path(p.path), KIND_G[p.kind], p.start, p.end, gi(sorted(p.names)))
                 for p in py_scopes])
    pl = g_list([g_list([g_binding(p.resolve[x], lambda o: o.path) for x in idents]) for p in py_scopes])
    lines = g_list([g_path(p) for p in rope_lines])
    bi = gi([x for x in idents if x in PY_BUILTINS])
    return ("{| c_prog := %s;\n    c_layout := %s;\n    c_builtins := %s; c_idents := %s;\n    c_rope_scopes := %s;\n"
            "    c_rope_lookups := %s;\n    c_rope_lines := %s;\n    c_py_scopes := %s;\n    c_py_lookups := %s |}"
            % (tr.prog, tr.layout, bi, gi(idents), rs, rl, lines, ps, pl))


HEADER = ("From Coq Require Import List NArith Bool.\nImport ListNotations.\n"
          "From RopeVerif.C15 Require Import Syntax Scoping RopeScopes Fragment Runner.\n")

CODE_TEXT = {
    1: "MODEL vs rope: scope tree (paths / kinds / start lines) differs",
    2: "MODEL vs rope: scope end line differs",
    3: "MODEL vs rope: names of a scope differ",
    4: "MODEL vs rope: a lookup differs",
    5: "MODEL vs rope: scope for a line differs",
    9: "outside the model's domain (cyclic superclasses)",
    11: "SPEC vs CPython: scope tree differs",
    12: "SPEC vs CPython: scope end line differs",
    13: "SPEC vs CPython: names of a scope differ",
    14: "SPEC vs CPython: a resolution differs",
    21: "inside the theorems' domain but MODEL and SPEC trees differ",
    22: "inside the domain of C15_scope_ends_agree but MODEL and SPEC end lines differ",
    25: "inside the domain of C15_scope_for_line but MODEL and SPEC disagree on the scope holding a line",
    23: "inside the theorems' domain but MODEL and SPEC names differ",
    24: "inside the theorems' domain but a MODEL lookup and the SPEC resolution differ",
}


# ============================================================================ one module
def all_idents(tree):
    out = []
    seen = set()

    def add(x):
        # __class__ is the compiler's implicit class cell, not a name of the program
        if x and x.isidentifier() and x not in seen and not x.startswith("__scope_") and x != "__class__":
            seen.add(x)
            out.append(x)

    for n in ast.walk(tree):
        if isinstance(n, ast.Name):
            add(n.id)
        elif isinstance(n, ast.arg):
            add(n.arg)
        elif isinstance(n, (ast.FunctionDef, ast.AsyncFunctionDef, ast.ClassDef)):
            add(n.name)
        elif isinstance(n, ast.Attribute):
            add(n.attr)
        elif isinstance(n, ast.alias):
            add(n.asname or n.name.split(".")[0])
        elif isinstance(n, (ast.Global, ast.Nonlocal)):
            for x in n.names:
                add(x)
        elif isinstance(n, ast.ExceptHandler):
            add(n.name)
    return out


class Observed:
    pass


def _jsonable(v):
    return list(v) if isinstance(v, tuple) else v


def cyclic_classes(tree):
    """keys of the class statements that lie on a cycle of the relation "names, as a base, a class statement of the
    module with that name" (by spelling: rope resolves the bases lazily and guards the recursion, caching what it has)"""
    classes = [n for n in ast.walk(tree) if isinstance(n, ast.ClassDef)]
    by_name = {}
    for c in classes:
        by_name.setdefault(c.name, []).append(c)
    edges = {id(c): [d for b in c.bases if isinstance(b, ast.Name) for d in by_name.get(b.id, [])] for c in classes}
    out = set()
    for c in classes:
        seen, todo = set(), list(edges[id(c)])
        while todo:
            d = todo.pop()
            if d is c:
                out.add(node_key(c))
                break
            if id(d) not in seen:
                seen.add(id(d))
                todo.extend(edges[id(d)])
    # classes that inherit from a class on a cycle see the same unstable table
    changed = True
    while changed:
        changed = False
        for c in classes:
            if node_key(c) not in out and any(node_key(d) in out for d in edges[id(c)]):
                out.add(node_key(c))
                changed = True
    return out


def c08_shapes(tree):
    """shapes on which rope's patchedast (property C08) is known not to annotate every node: open findings of C08,
    referred to by id"""
    ids = set()
    for n in ast.walk(tree):
        if isinstance(n, ast.arguments):
            if n.posonlyargs or n.kwonlyargs or any(a.annotation is not None for a in
                                                  n.posonlyargs + n.args + n.kwonlyargs + [x for x in (n.vararg, n.kwarg) if x]):
                ids.add("C08-signature-syntax")
        elif isinstance(n, (ast.FunctionDef, ast.AsyncFunctionDef)) and n.returns is not None:
            ids.add("C08-signature-syntax")
        elif isinstance(n, ast.ClassDef) and n.keywords:
            ids.add("C08-class-keywords-type-params")
    return ids


def check_offsets(o, tree):
    """get_inner_scope_for_offset against CPython's positions: for every offset the scope rope returns must be the
    innermost scope node (among those rope has) whose source span - def / class spans start at the first decorator -
    contains the offset, half-open at the end. The query goes through patchedast (property C08): when that raises,
    the module is skipped and the reason recorded (a known C08 shape by reference, or a failure of its own)."""
    src = o.src
    lines = src.split("\n")
    starts = [0]
    for l in lines[:-1]:
        starts.append(starts[-1] + len(l) + 1)

    def off(line, col):
        text = lines[line - 1]
        if not text.isascii():
            col = len(text.encode("utf-8")[:col].decode("utf-8"))
        return starts[line - 1] + col

    rope_keys = {r.key for r in o.rope_scopes}
    spans = []
    shared = set()      # offsets of parentheses that belong both to a call and to its only, generator, argument
    for n in ast.walk(tree):
        if isinstance(n, ast.Call) and len(n.args) == 1 and not n.keywords and isinstance(n.args[0], ast.GeneratorExp):
            ga = n.args[0]
            a, b = off(ga.lineno, ga.col_offset), off(ga.end_lineno, ga.end_col_offset)
            if src[a] == "(" and b == off(n.end_lineno, n.end_col_offset):
                # `f(x for x in y)`: CPython's span of the generator expression includes the call's parentheses
                shared.update((a, b - 1))
    for n in ast.walk(tree):
        if isinstance(n, SCOPE_NODES) and node_key(n) in rope_keys:
            a = off(n.lineno, n.col_offset)
            if getattr(n, "decorator_list", None):
                d = n.decorator_list[0]
                a = off(d.lineno, d.col_offset)
                while a > 0 and src[a] != "@":
                    a -= 1
            spans.append((a, off(n.end_lineno, n.end_col_offset), node_key(n)))
    g = o.rope_scopes[0].scope
    by = {id(r.scope): r for r in o.rope_scopes}
    o.offsets_checked = 0
    o.offsets_skipped = None
    n = len(src)
    if n <= 2500:
        offsets = range(n + 1)
    else:
        pts = {0, n}
        for a, b, _k in spans:
            pts.update((a - 1, a, a + 1, b - 1, b, b + 1))
        pts.update(range(0, n, 7))
        offsets = sorted(x for x in pts if 0 <= x <= n)
    try:
        answers = [(offset, by[id(g.get_inner_scope_for_offset(offset))].key) for offset in offsets]
    except Exception as e:
        shapes = sorted(c08_shapes(tree))
        if shapes:
            o.offsets_skipped = "patchedast raised %s on a module with the known shape(s) %s" % (type(e).__name__, ", ".join(shapes))
            o.offsets_c08 = shapes
        else:
            o.offsets_skipped = "patchedast raised %s" % type(e).__name__
            o.dis.append(dict(what="offset-raised", cause="unattributed", error="%s: %s" % (type(e).__name__, str(e)[:200])))
        return
    for offset, got in answers:
        if offset in shared:
            continue
        want, width = ("Module", 0, 0), None
        for a, b, k in spans:
            if a <= offset < b and (width is None or b - a < width):
                want, width = k, b - a
        o.offsets_checked += 1
        if got != want:
            o.dis.append(dict(what="offset-scope", cause="unattributed", offset=offset, rope=list(got), python=list(want),
                              text=src[max(0, offset - 15):offset] + "<|>" + src[offset:offset + 15]))
            return


def observe(src, all_orders=False):
    """Everything the check needs about one module. Returns None if the source is outside the translatable syntax."""
    tr = c15_gen.to_gallina(src)
    if tr is None:
        return None
    idents = sorted(set(all_idents(tr.tree)) | {"len"})
    o = Observed()
    o.src = src
    o.tr = tr
    o.idents = idents
    o.rope_scopes, o.rope_lines = observe_rope(src, idents)
    o.py_scopes, tree = observe_python(src, idents)
    o.dis = compare(src, idents, o.rope_scopes, o.rope_lines, o.py_scopes, tree)
    o.unknown_owner = any(v == "?" for r in o.rope_scopes for v in r.lookups.values())
    # the same questions asked of fresh module objects in other orders must get the same answers
    base = answers_of(o.rope_scopes, o.rope_lines, idents)
    paths = [r.path for r in o.rope_scopes]
    rng = random.Random(zlib.crc32(src.encode("utf-8")))
    modes = list(ORDER_MODES) if all_orders else [rng.choice(ORDER_MODES)]
    o.orders = modes
    for mode in modes:
        other = observe_rope_in_order(src, idents, paths, mode, rng)
        diff = sorted((q for q in base if other.get(q) != base[q]), key=repr)
        if diff:
            q = diff[0]
            cyc = cyclic_classes(tree)
            by_path = {r.path: r for r in o.rope_scopes}

            def inherited_only(q):
                """the differing answer concerns only inherited attributes of a class with cyclic superclasses"""
                r = by_path.get(tuple(q[1]))
                while r is not None and r.kind == "Comp":
                    r = r.parent
                if r is None or r.kind != "Class" or r.key not in cyc:
                    return False
                if q[0] == "names":
                    return not (set(base[q]) ^ set(other.get(q) or ())) & set(r.names)
                return q[0] == "lookup" and q[2] not in r.names

            cause = "cyclic-superclasses-order-dependence" if all(inherited_only(x) for x in diff) else "unattributed"
            o.dis.append(dict(what="order-dependence", cause=cause, order=mode, question=list(map(_jsonable, q)),
                              answer_in_preorder=_jsonable(base[q]), answer_in_this_order=_jsonable(other.get(q)),
                              differing_answers=len(diff)))
    check_offsets(o, tree)
    return o


def simple_bases(o):
    """the model resolves a superclass only through a Name bound by a class statement; other bases must be
    unresolvable for rope too (this inspects what the base name is, not any result that is compared)"""
    from rope.base import pynames
    for r in o.rope_scopes:
        if r.kind != "Class":
            continue
        node = r.scope.pyobject.get_ast()
        for b in node.bases:
            if isinstance(b, ast.Name):
                pn = r.parent.scope.lookup(b.id)
                if pn is None or isinstance(pn, (pynames.DefinedName, pynames.ImportedName, pynames.ImportedModule)):
                    continue
                if type(pn).__name__ in ("BuiltinName",) and b.id == "object":
                    continue
                return False
            elif isinstance(b, ast.Attribute):
                continue
            else:
                return False
    return True


def signature(obj):
    """structural signature of a failing input: the cause of the disagreement it was recorded for"""
    if obj.get("kind") != "module":
        return None
    focus = obj.get("focus")
    if focus:
        return focus
    try:
        o = observe(obj["src"])
    except Exception:
        return None
    if o is None:
        return None
    cs = causes_of(o.dis)
    return "+".join(cs) if cs else None


def coq_code(ctx, o, spec_only=False):
    """result code of RopeVerif.C15.Runner.run_case (or run_case_spec) on one observed module"""
    body = HEADER + "Definition cases : list case := [\n%s\n].\nEval vm_compute in (%s cases).\n" % (
        case_term(o.tr, o.idents, o.rope_scopes, o.rope_lines, o.py_scopes),
        "spec_mismatches" if spec_only else "mismatches")
    pairs = ctx.parse_pairs(ctx.coq_file(body))
    return pairs[0][0][1] if pairs and pairs[0] else 0


def exception_focus(e, tb):
    if "get_superclasses" in tb or "_get_bases" in tb:
        return "superclass-inference-crash"
    return "exception:" + type(e).__name__


def replay(ctx, obj):
    """True = the recorded failure still occurs on the current tree"""
    if obj.get("kind") != "module":
        return True
    try:
        try:
            o = observe(obj["src"], all_orders=bool(obj.get("all_orders")))
        except Exception as e:
            import traceback
            return exception_focus(e, traceback.format_exc()) == obj.get("focus") or not obj.get("focus", "").startswith(("superclass", "exception"))
        if o is None:
            return True
        focus = obj.get("focus") or ""
        if focus.startswith("coq:"):
            code = coq_code(ctx, o, spec_only=bool(obj.get("file")))
            return code not in (0, 9)
        if focus.startswith("domain:"):
            return any(d["cause"] == focus[len("domain:"):] for d in o.dis)
        if focus:
            return any(d["cause"] == focus for d in o.dis)
        return bool(o.dis)
    finally:
        close_project()


# ============================================================================ run
FIXED = [
    "from __future__ import annotations, division as d\nx: annotations = d\ndef f(a: x) -> annotations:\n    return annotations, d\n",
    "x = 1\ndef f(a, b=2, *c, **d):\n    y = a\n    return y\n",
    "import os.path, sys as s\nfrom m import a as b, c\nclass C(object):\n    z = 1\n    def m(self):\n        self.w = z\n        return [q for q in self.w]\n",
    "x = 1\ndef f():\n    global x\n    x = 2\n    def g():\n        return x\n    return g\n",
    "def f(a):\n    for i, (j, k) in a:\n        with a as (p, q), j:\n            try:\n                pass\n            except E as e:\n                u = [v for v in a for w in v]\n",
    "a = 1\nclass A:\n    a = 2\n    b = a\n    def m(self):\n        return a\n",
    ("class C:\n    def m(self, a):\n        self.p = 1\n        if a:\n            self.q, (self.r, b) = a\n"
     "        for i in a:\n            self.in_for = i\n        with a as w:\n            self.in_with = w\n"
     "        try:\n            self.t: int = 2\n        except E:\n            self.u += 1\n"
     "        def inner():\n            self.in_def = 1\n        while a:\n            a.not_self = 1\n"
     "    def n(this):\n        this.v = [this.w]\n    z = (p, in_for, v)\n"),
    ("class K:\n    def defaults(self): return dict(\n        a=1,\n    b=2)\n    def other(self):\n        return 1\n"
     "    class Inner: v = [\n        1,\n        2]\n    w = 3\ndef top(): return (1 +\n  2)\nz = 0\n"
     "def cont(): x = 1 + \\\n    2\ny = 1\n"),
    "class A:\n    x = 1\nclass B:\n    x = 2\n    z = 3\nclass C(A, B):\n    y = x\n    def m(self):\n        self.z = y\nclass D(C):\n    w = (x, z)\n",
]


def account_offsets_and_orders(ctx, o, stream):
    ctx.count(stream + ":offsets-compared", getattr(o, "offsets_checked", 0))
    for m in getattr(o, "orders", ()):
        ctx.count(stream + ":question-order:" + m)
    ids = getattr(o, "offsets_c08", None)
    if ids:
        open_ids = {f.get("id") for f in ctx.findings}
        for i in ids:
            ctx.count(stream + ":offsets-skipped(patchedast raised; see finding %s)" % i)
        if not any(i in open_ids for i in ids):
            ctx.violation({"kind": "module", "src": o.src, "focus": "offset-raised",
                           "note": "patchedast raised and none of the C08 findings referred to is open: %s" % ids},
                          "C15: get_inner_scope_for_offset raised on a module with no open C08 finding to refer to")


def check_star_modules(ctx, n):
    """modules that start with `from helpers_lib import *` (a small library module of the scratch project): every
    question order, the oracle with the library's public names as module globals. Imports resolve here, so the
    MODEL is not compared (outside its domain)."""
    known = {f.get("signature") for f in ctx.findings if f.get("property") == PROPERTY}
    done = 0
    while done < n:
        body = c15_gen.gen_module(ctx.rng, (), size=ctx.rng.choice([6, 10]))
        if body is None:
            continue
        if body.startswith("from __future__ import"):
            first, rest = body.split("\n", 1)          # a __future__ import has to stay the first statement
            src = first + "\nfrom %s import *\n" % LIB_NAME + rest
        else:
            src = "from %s import *\n" % LIB_NAME + body
        done += 1
        try:
            o = observe(src, all_orders=True)
        except Exception as e:
            import traceback
            tb = traceback.format_exc()
            ctx.count("star:rope-raised")
            ctx.violation({"kind": "module", "src": src, "focus": exception_focus(e, tb), "traceback": tb[-1500:]},
                          "C15: exception while observing a module: %r" % (e,))
            continue
        if o is None:
            ctx.count("star:untranslatable")
            continue
        ctx.case(("star", src), nontrivial=len(o.py_scopes) >= 3)
        ctx.count("star:modules")
        ctx.count("star:lookups-compared", len(o.idents) * len(o.rope_scopes))
        ctx.count("star:lookups-resolved-to-the-library",
                  sum(1 for r in o.rope_scopes for v in r.lookups.values() if v == "LIB"))
        account_offsets_and_orders(ctx, o, "star")
        for c in causes_of(o.dis):
            ctx.count("star:disagreement:" + c)
            first = [d for d in o.dis if d["cause"] == c][0]
            rep = {"kind": "module", "src": src, "focus": c, "disagreement": first, "all_orders": True}
            if c not in known and len(ctx.violations) < 3 and first["what"] not in ("order-dependence", "offset-scope", "offset-raised"):
                small = shrink(src, c, first["what"])
                if small != src and ("from %s import *" % LIB_NAME) in small:
                    rep["src"] = small
            ctx.violation(rep, "C15: rope disagrees with CPython (%s): %s" % (c, json.dumps(first)[:300]))
        if ctx.too_many(12):
            break


def check_modules(ctx, sources, stream):
    """sources: list of str. Runs rope, CPython, Coq; reports. Returns number of cases inside the theorems' domain."""
    obs = []
    for src in sources:
        try:
            o = observe(src)
        except Exception as e:
            import traceback
            tb = traceback.format_exc()
            ctx.count(stream + ":rope-raised")
            ctx.violation({"kind": "module", "src": src, "focus": exception_focus(e, tb), "traceback": tb[-1500:]},
                          "C15: exception while observing a module: %r" % (e,))
            continue
        if o is None:
            ctx.count(stream + ":untranslatable")
            continue
        if o.unknown_owner or not simple_bases(o):
            ctx.count(stream + ":outside-model-domain(superclass needs inference)")
            o.in_model_domain = False
        else:
            o.in_model_domain = True
        obs.append(o)
    # Coq: model vs rope, spec vs CPython
    shard = 60
    bodies = []
    todo = [o for o in obs if o.in_model_domain]
    for s in range(0, len(todo), shard):
        terms = [case_term(o.tr, o.idents, o.rope_scopes, o.rope_lines, o.py_scopes) for o in todo[s:s + shard]]
        bodies.append(HEADER + "Definition cases : list case := [\n%s\n].\nEval vm_compute in (mismatches cases).\n"
                      "Eval vm_compute in (in_domains cases).\n" % ";\n".join(terms))
    outs = ctx.coq_files_parallel(bodies) if bodies else []
    codes = {}
    domain = {}
    for si, out in enumerate(outs):
        pairs = ctx.parse_pairs(out)
        for (i, code) in (pairs[0] if pairs else []):
            codes[si * shard + i] = code
        nums = ctx.parse_nums(out)
        flags = nums[-1] if nums else []
        for i, fl in enumerate(flags):
            domain[si * shard + i] = fl
    n_dom = 0
    for idx, o in enumerate(todo):
        o.code = codes.get(idx, 0)
        o.in_fragment = bool(domain.get(idx, 0))
        o.domain_level = domain.get(idx, 0)
    for o in obs:
        if not o.in_model_domain:
            o.code = 0
            o.in_fragment = False
    for o in obs:
        causes = causes_of(o.dis)
        nscopes = len(o.py_scopes)
        shadow = len({x for p in o.py_scopes for x in p.names}) < sum(len(p.names) for p in o.py_scopes)
        ctx.case(("mod", o.src), nontrivial=(nscopes >= 3 and shadow))
        ctx.traces += 1
        ctx.count(stream + ":modules")
        if "from __future__ import" in o.src:
            ctx.count(stream + ":modules-with-a-__future__-import")
        ctx.count(stream + ":scopes", nscopes)
        ctx.count(stream + ":lookups-compared", len(o.idents) * len(o.rope_scopes))
        account_offsets_and_orders(ctx, o, stream)
        if o.in_fragment:
            n_dom += 1
            ctx.count(stream + ":inside-theorem-domain")
            if getattr(o, "domain_level", 0) >= 2:
                ctx.count(stream + ":inside-domain-of-C15_scope_ends_agree")
            if getattr(o, "domain_level", 0) >= 3:
                ctx.count(stream + ":inside-domain-of-C15_scope_for_line")
        for c in causes:
            ctx.count(stream + ":disagreement:" + c)
        if not o.dis:
            ctx.count(stream + ":agrees-with-CPython")
        base = {"kind": "module", "src": o.src}
        # oracle verdicts: one report per distinct cause
        known = {f.get("signature") for f in ctx.findings if f.get("property") == PROPERTY}
        # a failure is attributed to a known finding only if the MODEL predicts it: inside the model's domain the
        # case must have passed the comparison inside Coq (model = rope on every observable, spec = CPython), so
        # that rope's deviation from CPython is exactly the model's deviation from the spec
        predicted = (not o.in_model_domain) or o.code in (0, 9)
        for c in causes:
            first = [d for d in o.dis if d["cause"] == c][0]
            rep = dict(base, focus=c if predicted else "unpredicted:" + c, disagreement=first, all_causes=causes)
            if not predicted:
                rep["note"] = "the model does not reproduce rope's observables on this module (Coq code %d)" % o.code
            if c not in known and len(ctx.violations) < 3:
                small = shrink(o.src, c, first["what"])
                if small != o.src:
                    so = observe(small)
                    rep = dict(rep, src=small, original_src=o.src,
                               disagreement=[d for d in so.dis if d["cause"] == c and d["what"] == first["what"]][0])
            ctx.violation(rep, "C15: rope disagrees with CPython (%s): %s" % (c, json.dumps(rep["disagreement"])[:300]))
        if o.in_fragment and o.dis:
            # inside the domain the theorems promise agreement except for the per-query exclusions
            allowed = {"class-self-attribute", "class-inherited-attribute", "comprehension-in-class",
                       "comprehension-extent"}
            bad = [d for d in o.dis if d["cause"] not in allowed
                   and d["what"] not in ("line-scope", "scope-end", "offset-scope", "offset-raised", "order-dependence")]
            if bad:
                ctx.violation(dict(base, focus="domain:" + bad[0]["cause"], disagreement=bad[0],
                                   broken="in_fragment_C15 holds for this module but rope and CPython disagree: "
                                          "theorems C15_names_agree / C15_lookup_agrees no longer speak about the code"),
                              "C15: module inside the theorems' domain on which rope disagrees with CPython", no_input=False)
        if o.code not in (0, 9):
            what = CODE_TEXT.get(o.code, "code %d" % o.code)
            if o.code in (11, 12, 13, 14):
                broken = "SPEC coq/C15/Scoping.v disagrees with CPython's symtable on this module (the spec or the translator is wrong)"
            elif o.code in (21, 22, 23, 24, 25):
                broken = "the MODEL and the SPEC differ on a module inside in_fragment_C15: a theorem of coq/Props/C15.v would be false"
            else:
                broken = ("correspondence RopeVerif.C15.Runner.run_case: MODEL coq/C15/RopeScopes.v vs rope "
                          "(pyobjectsdef visitors / pyscopes lookup); theorems C15_* no longer speak about the code")
            if o.dis and o.code in (1, 2, 3, 4, 5) and all(c != "unattributed" for c in causes):
                # the model differs from rope; rope's failing inputs here are all known: still a model drift
                pass
            ctx.violation(dict(base, focus="coq:%d" % o.code, mismatch=what, broken=broken),
                          "C15: %s" % what, no_input=not bool([d for d in o.dis if d["cause"] == "unattributed"]))
        elif o.code == 9:
            ctx.count(stream + ":outside-model-domain(cyclic superclasses)")
        if ctx.too_many(12):
            break
    return obs


def check_real_modules(ctx, limit):
    """rope's own source files: translator robustness, SPEC vs CPython inside Coq, and the oracle pass.
    The MODEL is not compared here (imports and base classes resolve in real code: outside its domain)."""
    import glob
    from harness.common import REPO
    files = sorted(glob.glob(os.path.join(REPO, "rope", "base", "*.py")) + glob.glob(os.path.join(REPO, "rope", "refactor", "*.py")))
    picked = []
    for f in files:
        src = open(f).read()
        if 5 <= src.count("\n") <= 450 and "import *" not in src:
            picked.append((f, src))
    picked = picked[:limit]
    obs = []
    for f, src in picked:
        try:
            o = observe(src)
        except Exception as e:
            import traceback
            ctx.violation({"kind": "module", "src": src, "focus": "exception:" + type(e).__name__, "file": f,
                           "traceback": traceback.format_exc()[-1500:]},
                          "C15: exception while observing %s: %r" % (f, e))
            continue
        if o is None:
            ctx.count("real:untranslatable")
            continue
        o.file = f
        obs.append(o)
    bodies = [HEADER + "Definition cases : list case := [\n%s\n].\nEval vm_compute in (spec_mismatches cases).\n"
              % case_term(o.tr, o.idents, o.rope_scopes, o.rope_lines, o.py_scopes) for o in obs]
    outs = ctx.coq_files_parallel(bodies) if bodies else []
    known = {f.get("signature") for f in ctx.findings if f.get("property") == PROPERTY}
    for o, out in zip(obs, outs):
        ctx.case(("real", o.file), nontrivial=True)
        ctx.count("real:modules")
        ctx.count("real:scopes", len(o.py_scopes))
        pairs = ctx.parse_pairs(out)
        if pairs and pairs[0]:
            code = pairs[0][0][1]
            ctx.violation({"kind": "module", "src": o.src, "file": o.file, "focus": "coq:%d" % code,
                           "broken": "SPEC coq/C15/Scoping.v disagrees with CPython's symtable on %s" % o.file},
                          "C15: %s (%s)" % (CODE_TEXT.get(code, code), o.file), no_input=True)
        for c in causes_of(o.dis):
            ctx.count("real:disagreement:" + c)
            first = [d for d in o.dis if d["cause"] == c and d["what"] != "line-scope"]
            if c not in known and first:
                ctx.violation({"kind": "module", "src": o.src, "file": o.file, "focus": c, "disagreement": first[0]},
                              "C15: rope disagrees with CPython on %s (%s): %s" % (o.file, c, json.dumps(first[0])[:300]))


def run(ctx):
    ctx.rule = ("modules generated from one PRNG over the identifier pool %s: every binding construct, nesting of "
                "def/class/comprehension up to depth 4, layout noise; PyF+ stream: the same generator with one or two "
                "productions for known departures switched on. A case is non-trivial when it has >= 3 scopes and some "
                "identifier is bound in more than one scope (shadowing); distinct by source text." % (c15_gen.POOL,))
    try:
        n_main = ctx.scale(220, 4000)
        n_plus = ctx.scale(110, 1500)
        srcs = list(FIXED)
        while len(srcs) < n_main:
            s = c15_gen.gen_module(ctx.rng, (), size=ctx.rng.choice([8, 14, 22]))
            if s is not None:
                srcs.append(s)
        obs = check_modules(ctx, srcs, "main")
        for o in obs[5:8]:
            ctx.sample({"source": o.src, "scopes": [[list(p.path), p.kind, p.start, p.end, sorted(p.names)] for p in o.py_scopes],
                        "in_theorem_domain": o.in_fragment, "disagreements": o.dis[:3]})
        plus = []
        feats = list(c15_gen.FEATURES)
        while len(plus) < n_plus:
            k = 1 if ctx.rng.random() < 0.8 else 2
            f = tuple(ctx.rng.sample(feats, k))
            s = c15_gen.gen_module(ctx.rng, f, size=ctx.rng.choice([8, 14]))
            if s is not None:
                plus.append(s)
                for x in f:
                    ctx.count("plus:feature:" + x)
        if not ctx.too_many(12):
            check_modules(ctx, plus, "plus")
        if not ctx.too_many(12):
            check_star_modules(ctx, ctx.scale(50, 600))
        if not ctx.quick() and not ctx.too_many(12):
            check_real_modules(ctx, 40)
        dom = ctx.dist.get("main:inside-theorem-domain", 0)
        ctx.extra["cases_inside_theorem_domain"] = dom + ctx.dist.get("plus:inside-theorem-domain", 0)
        if ctx.dist.get("main:modules", 0) >= 100 and dom * 5 < ctx.dist.get("main:modules", 0):
            ctx.violation({"kind": "generator", "broken": "fewer than 20% of the main stream is inside in_fragment_C15: "
                           "the correspondence no longer exercises the theorems' domain"},
                          "C15: generator degenerate", no_input=True)
    finally:
        close_project()


# ============================================================================ witnesses for the Coq side
EXAMPLE_SOURCE = (
    "import m\n"
    "x = 1\n"
    "class A:\n"
    "    x = 2\n"
    "    def m(self, a, *b, **c):\n"
    "        global x\n"
    "        x = a\n"
    "        self.w = x\n"
    "        for k, (u, v) in b:\n"
    "            with c as w:\n"
    "                pass\n"
    "        return x\n"
    "def f(y):\n"
    "    def g():\n"
    "        return y + x\n"
    "    z = [(i, t) for i in y for t in [j for j in i]]\n"
    "    if (n := len(z)):\n"
    "        del z\n"
    "    return g\n"
)


EXAMPLE_ONELINERS = (
    "class K:\n"
    "    def defaults(self): return dict(\n"
    "        a=1,\n"
    "    b=2)\n"
    "    def other(self):\n"
    "        if self:\n"
    "            return 1\n"
    "\n"
    "        # trailing comment\n"
    "    class Inner: v = [\n"
    "        1,\n"
    "        2]\n"
    "    w = 3\n"
    "def top(): return (1 +\n"
    "  2)\n"
    "z = [i\n"
    "     for i in K]\n"
    "def cont(): x = 1 + \\\n"
    "    2\n"
    "y = 1\n"
)


def write_witnesses(path=None):
    """Regenerates coq/C15/Witnesses.v from findings.d/C15.json (run by hand when a replay input changes):
    /venv/bin/python -c 'from harness import c15; c15.write_witnesses()'"""
    from harness.common import VERIF
    fd = json.load(open(os.path.join(VERIF, "findings.d", "C15.json")))
    out = ['''(* Witness programs of the C15 [_refuted] lemmas and of the non-vacuity examples.  GENERATED by
   harness/c15.py:write_witnesses, which translates the replay inputs of the open findings
   (findings/C15-*.json) with harness/c15_gen.py:to_gallina; each witness therefore *is* the input that is
   replayed against the real library on every run. *)
From Coq Require Import List NArith Bool.
From RopeVerif.C15 Require Import Syntax RopeScopes.
Import ListNotations.
''']
    # the inference crash has no counterpart in the model (type inference is outside it): no witness
    items = [(f["signature"].replace("-", "_"), f["title"], json.load(open(os.path.join(VERIF, f["replay"])))["src"])
             for f in fd["open"] if f["signature"] not in ("superclass-inference-crash", "cyclic-superclasses-order-dependence")]
    items.append(("example", "a module inside the domain of the theorems (non-vacuity examples)", EXAMPLE_SOURCE))
    items.append(("oneliners", "one-line definitions whose body statement continues over several physical lines "
                  "(non-vacuity of the layout hypothesis)", EXAMPLE_ONELINERS))
    for name, title, src in items:
        tr = c15_gen.to_gallina(src)
        out.append("(* %s\n   source:\n%s   identifiers: %s *)" % (
            title, "".join("     | " + l + "\n" for l in src.split("\n")[:-1]),
            ", ".join("%d=%s" % (i, s) for i, s in enumerate(tr.idents))))
        out.append("Definition w_%s : program :=\n  %s." % (name, tr.prog))
        out.append("Definition lay_%s : list lineinfo :=\n  %s." % (name, tr.layout))
        bi = [i for i, s in enumerate(tr.idents) if s in PY_BUILTINS]
        out.append("Definition ids_%s : list ident := %s.\nDefinition bi_%s : list ident := %s.\n" % (
            name, "[" + "; ".join("%d%%N" % i for i in range(len(tr.idents))) + "]",
            name, "[" + "; ".join("%d%%N" % i for i in bi) + "]"))
    with open(path or os.path.join(VERIF, "coq", "C15", "Witnesses.v"), "w") as f:
        f.write("\n".join(out))
