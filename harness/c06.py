"""C06 — signature changes keep every call bound to the same parameter values.

Streams (all from ctx.rng):
  e2e   generated project (1-4 modules, function / method / __init__) x call sites x changer sequences through the real
        ChangeSignature(project, resource, offset).get_changes(changers); observables: the rewritten definition header
        and every rewritten call, abstracted to token structures and compared inside Coq with the model
        (coq/C06/Args.v, Runner.run_ecase); independent oracle: CPython binding (inspect.signature(...).bind on the
        old and the new definition/call, comparing per-parameter argument SOURCE text) + executing the project before
        and after.
  text  the same comparison without a project: _FunctionChangers(None, DefinitionInfo, changers).change_call(None, None, text)
  unit  DefinitionInfo / CallInfo / ArgumentMapping objects driven directly (also ill-formed inputs), and the
        specification `bind` validated against CPython's own call binding.
  beyond keyword-only parameters, nested calls of the changed function, subclass constructors, a starred argument that is
        not last: rope + oracle (+ the model where it applies); the ones that fail are the recorded findings.
  intro IntroduceParameter(project, resource, offset).get_changes(name) on generated functions/methods: new header compared
        with the model (introduce_def), calls must stay untouched, oracle as for e2e.
The model has a boolean for each of two defects fixed in /repo (e1c84b5 header parser, 26a80fc ArgumentRemover); the current
code is `fixed = true`, `rdel = true` and that is what the Coq runner is told to evaluate.  run() probes both
(vararg_fixed(), remover_deletes()) and reports a VIOLATION with the corpus input when rope shows the old behaviour.
"""
import ast
import json
import random

from harness.common import g_N, g_nat, g_bool, g_list, g_opt, g_pair
from harness import c06_lib as L

PROPERTY = "C06"

USER_ERROR = ("duplicate-intermediate-parameters", "call-invalid", "invalid-new-def", "add-without-default-or-value", "star-removed-under-surplus",
              "kw-removed-under-extra", "receiver-moved", "add-collides-with-call-keyword")
# "readd-removed-name" stays a class of its own (side_ok still excludes it) but is no open finding any more
# (fixed by 26a80fc): an oracle failure in it is reported as a VIOLATION
FINDING = ("kwonly", "nested-call", "add-default-under-surplus", "subclass-ctor", "star-call-position-change", "star-not-last", "readd-removed-name")


# ----------------------------------------------------------------------------- interning + Gallina printers
class Intern:
    def __init__(self):
        self.t = {}

    def __call__(self, s):
        s = s.strip()
        if s not in self.t:
            self.t[s] = len(self.t) + 1
        return self.t[s]


def gN(I, s):
    return g_N(I(s))


def g_optN(I, s):
    return g_opt(None if s is None else gN(I, s))


def g_def(I, params, star, kw):
    return "(mkDef %s %s %s)" % (
        g_list([g_pair(gN(I, n), g_optN(I, d)) for (n, d) in params]), g_optN(I, star), g_optN(I, kw))


def g_ast(I, case):
    params = case["params"]
    kwonly = case.get("kwonly", [])
    return "(mkAst %s %s %s %s %s %s %s %s)" % (
        g_list([gN(I, n) for n, _ in params]),
        g_opt(None if case["star"] is None else g_pair(gN(I, case["star"]), gN(I, "*" + case["star"]))),
        g_list([gN(I, d) for _, d in params if d is not None]),
        g_opt(None if case["kw"] is None else g_pair(gN(I, case["kw"]), gN(I, "**" + case["kw"]))),
        g_list([gN(I, n) for n, _ in kwonly]), g_list([g_optN(I, d) for _, d in kwonly]), gN(I, ""), gN(I, "*"))


def g_kws(I, kws):
    return g_list([g_pair(gN(I, n), gN(I, v)) for (n, v) in kws])


def g_rend(I, r):
    return "(mkRend %s %s %s %s %s %s)" % (
        g_optN(I, r["recv"]), gN(I, r["fname"]), g_list([gN(I, x) for x in r["pos"]]), g_kws(I, r["kws"]),
        g_optN(I, r["star"]), g_optN(I, r["kwstar"]))


def g_call(I, c):
    return "(mkCall %s %s %s %s %s %s %s)" % (
        gN(I, c["fname"]), g_list([gN(I, x) for x in c["args"]]), g_kws(I, c["kws"]), g_optN(I, c["star"]),
        g_optN(I, c["kwstar"]), g_bool(c["implicit"]), g_bool(c["ctor"]))


def g_changer(I, ch):
    t = ch[0]
    if t == "norm":
        return "Normalize"
    if t == "rem":
        return "(Remove %s)" % g_nat(ch[1])
    if t == "add":
        return "(Add %s %s %s %s)" % (g_nat(ch[1]), gN(I, ch[2]), g_optN(I, ch[3]), g_optN(I, ch[4]))
    if t == "inl":
        return "(InlineDefault %s %s)" % (g_nat(ch[1]), g_bool(ch[2]))
    return "(Reorder %s %s)" % (g_list([g_nat(i) for i in ch[1]]), g_optN(I, ch[2]))


def g_ptokens(I, toks):
    out = []
    for t in toks:
        if t[0] == "plain":
            out.append("PPlain %s" % gN(I, t[1]))
        elif t[0] == "default":
            out.append("PDefault %s %s" % (gN(I, t[1]), gN(I, t[2])))
        elif t[0] == "star":
            out.append("PStar %s" % gN(I, t[1]))
        else:
            out.append("PKw %s" % gN(I, t[1]))
    return g_list(out)


HEADER = ("From Coq Require Import List NArith Bool Arith.\nImport ListNotations.\n"
          "From RopeVerif.C06 Require Import Args Runner.\n")


def coq_blocks(out):
    import re
    res = []
    for m in re.finditer(r"=\s*(\[[^:]*\])\s*:\s*list", out, re.S):
        res.append([int(x) for x in re.findall(r"\d+", m.group(1).replace("%N", ""))])
    return res


# ----------------------------------------------------------------------------- domain classification (CPython based)
def compiles_header(tokens):
    if tokens is None:
        return False
    parts = []
    for t in tokens:
        parts.append({"plain": "%s", "default": "%s=0", "star": "*%s", "kw": "**%s"}[t[0]] % t[1])
    try:
        compile("def f(%s): pass" % ", ".join(parts), "<hdr>", "exec")
        return True
    except SyntaxError:
        return False


def classify(case, site, new_tokens, old_status):
    """None = inside the domain of C06_preserve; otherwise the name of the excluded class."""
    params = case["params"]
    names = [p[0] for p in params]
    reasons = []
    if case.get("kwonly"):
        return "kwonly"
    if site.get("nested"):
        return "nested-call"
    if site.get("style") == "subctor":
        reasons.append("subclass-ctor")      # modelled: the finders do not reach it, the text stays (user errors come first)
    if old_status == "old-invalid":
        reasons.append("call-invalid")
    if True:
        # the remover deletes by name: the theorem asks for distinct names in every intermediate definition
        cur = (list(params), case["star"], case["kw"])
        for ch in case["changers"]:
            cur = L.sim_def(cur[0], cur[1], cur[2], ch) if cur is not None else None
            if cur is not None and len({p[0] for p in cur[0]}) != len(cur[0]):
                reasons.append("duplicate-intermediate-parameters")
    if not compiles_header(new_tokens):
        # blame the request only if the requested parameter list itself is not a valid header
        cur = (list(params), case["star"], case["kw"])
        for ch in case["changers"]:
            cur = L.sim_def(cur[0], cur[1], cur[2], ch) if cur is not None else None
        exp = None if cur is None else ([("plain", p[0]) if p[1] is None else ("default", p[0], p[1]) for p in cur[0]]
                                        + ([("star", cur[1])] if cur[1] else []) + ([("kw", cur[2])] if cur[2] else []))
        if exp is None or not compiles_header(exp):
            reasons.append("invalid-new-def")
    r = L.site_rendered(site)
    star_call = site["star"] is not None or r["kwstar"] is not None or any(x.startswith("*") for x in r["pos"])
    seen_orig = list(names)
    seen_kw = [k for k, _ in site["kws"]] + list(site.get("kwstar_keys", []))
    added = []
    for ch in case["changers"]:
        if ch[0] == "add":
            if ch[3] is None and ch[4] is None:
                reasons.append("add-without-default-or-value")
            if ch[2] in seen_orig or ch[2] in added:
                reasons.append("readd-removed-name")
            elif ch[2] in seen_kw:
                reasons.append("add-collides-with-call-keyword")
            added.append(ch[2])
    npos = len(site["pos"]) + (1 if (site["implicit"] or site["ctor"]) else 0)
    new_star = any(t[0] == "star" for t in (new_tokens or []))
    new_kw = any(t[0] == "kw" for t in (new_tokens or []))
    if npos > len(params) and not star_call:
        if not new_star:
            reasons.append("star-removed-under-surplus")
        if any(ch[0] == "add" and ch[4] is None for ch in case["changers"]):
            reasons.append("add-default-under-surplus")
    if any(k not in names for k, _ in site["kws"]) and not new_kw:
        reasons.append("kw-removed-under-extra")
    if site["implicit"] or site["ctor"]:
        newfirst = new_tokens[0][1] if new_tokens and new_tokens[0][0] in ("plain", "default") else None
        oldfirst = names[0] if names else None
        if newfirst != oldfirst:
            reasons.append("receiver-moved")
    if star_call:
        if all(ch[0] == "norm" for ch in case["changers"]) and not reasons:
            return "star-call-identity"
        # a starred argument that is not the last positional is read as an ordinary argument (CallInfo.read only
        # looks at args[-1]): a defect of its own, with its own ways of failing
        reasons.append("star-not-last" if site.get("star_first") else "star-call-position-change")
    for cl in USER_ERROR + FINDING:
        if cl in reasons:
            return cl
    return None


# ----------------------------------------------------------------------------- one e2e case through rope + oracle
def observe(case, text_only=False):
    """Runs rope and the oracle.  Returns a dict with everything the Coq case and the verdict need."""
    modules = L.build_modules(case)
    info = {}
    if text_only:
        new, err = run_text_level(case)
    else:
        new, err = L.run_rope(case, modules, info=info)
    ob = {"modules": modules, "new": new, "err": err, "tokens": None, "rendered": [], "site_status": {},
          "case_fail": None, "parse_fail": None, "recompute_differs": bool(info.get("recompute_differs"))}
    if new is None:
        return ob
    if text_only:
        ob["tokens"] = L.parse_def_header("def " + new["def"] + ":")
        ob["rendered"] = [L.parse_call_text(new["calls"][0], case["sites"][0]["implicit"])]
        if ob["tokens"] is None or ob["rendered"][0] is None:
            ob["parse_fail"] = "emitted text cannot be split into arguments"
        return ob
    line = L.extract_def_line(case, new["m.py"])
    ob["tokens"] = L.parse_def_header(line) if line else None
    if ob["tokens"] is None:
        ob["parse_fail"] = "rewritten definition header not found / not splittable"
    for s in case["sites"]:
        txt = L.extract_site_text(new[s["module"]], s["k"])
        r = L.parse_call_text(txt, s["implicit"]) if txt else None
        if r is None:
            ob["parse_fail"] = "rewritten call v%d not found / not splittable: %r" % (s["k"], txt)
            r = {"recv": None, "fname": "?", "pos": [], "kws": [], "star": None, "kwstar": None}
        ob["rendered"].append(r)
    # ---- oracle
    try:
        old_trees = {fn: ast.parse(src) for fn, src in modules.items()}
    except SyntaxError as e:
        raise RuntimeError("generator produced an invalid module: %s\n%s" % (e, modules))
    old_sig = L._sig_from_def(L.find_def(old_trees["m.py"], case), modules["m.py"])
    # the new definition and every rewritten call are judged on their own text, so that one broken
    # site (or a broken header) is not blamed on the others
    new_sig = None
    try:
        hdr = ast.parse(line.strip() + "\n    pass\n").body[0] if line else None
        new_sig = L._sig_from_def(hdr, "") if hdr is not None else None
        if new_sig is None:
            ob["case_fail"] = "definition disappeared"
    except SyntaxError as e:
        ob["case_fail"] = "rewritten definition does not compile: %s" % (e.msg,)
    try:
        new_trees = {fn: ast.parse(src) for fn, src in new.items()}
    except SyntaxError as e:
        new_trees = None
        if ob["case_fail"] is None:
            ob["module_fail"] = "rewritten project does not compile: %s" % (e,)
    for s in case["sites"]:
        oc = L.find_site_call(old_trees[s["module"]], s["k"])
        txt = L.extract_site_text(new[s["module"]], s["k"])
        nc = None
        try:
            nc = ast.parse(txt.strip(), mode="eval").body if txt else None
        except SyntaxError:
            nc = None
        if new_sig is None:
            try:
                L.bind_sources(old_sig, *L.call_actuals(oc, s))
                st = ("fail", ob["case_fail"])
            except TypeError:
                st = ("old-invalid", "")
        elif not isinstance(nc, ast.Call):
            try:
                L.bind_sources(old_sig, *L.call_actuals(oc, s))
                st = ("fail", "rewritten call v%d is not a call expression: %r" % (s["k"], txt))
            except TypeError:
                st = ("old-invalid", "")
        else:
            st = L.oracle_site(case, oc, nc, old_sig, new_sig, s)
        ob["site_status"][s["k"]] = st
    if ob.get("module_fail") and not any(st[0] == "fail" for st in ob["site_status"].values()):
        ob["case_fail"] = ob["module_fail"]       # garbage somewhere else in the rewritten files
    # ---- execute before / after (only meaningful when the original program runs)
    # the generated method bodies use `self`: when the changers take the receiver parameter away or move it
    # (a user error, class receiver-moved) running the program says nothing about the call sites
    recv_kept = case["kind"] == "func" or (ob["tokens"] and ob["tokens"][0][0] in ("plain", "default") and ob["tokens"][0][1] == "self")
    if new_trees is not None and recv_kept and all(st[0] != "old-invalid" for st in ob["site_status"].values()):
        before = L.run_program(modules)
        if "EXC:" not in before:
            after = L.run_program(new)
            ob["exec"] = (before, after)
            if before != after and ob["case_fail"] is None:
                ob["case_fail"] = "program output differs after the change: %r vs %r" % (before[-200:], after[-200:])
    return ob


def run_text_level(case):
    """_FunctionChangers driven without a project: definition and one call as text."""
    from rope.refactor import functionutils
    from rope.refactor.change_signature import _FunctionChangers
    s = case["sites"][0]
    class _Stub:
        def get_kind(self):
            return "function"
    try:
        d = functionutils.DefinitionInfo._read(_Stub(), "f(%s)" % L.fmt_params(case["params"], case["star"], case["kw"], case.get("kwonly", [])))
        fc = _FunctionChangers(None, d, L.make_changers(case["changers"]))
        newdef = fc.change_definition(None)
        newcall = fc.change_call(None, None, L.fmt_call(s["func"], s, 0))
    except Exception as e:   # IndexError, AssertionError, RefactoringError ...
        return None, type(e).__name__
    return {"def": newdef, "calls": [newcall]}, None


_PROBE = {}


def vararg_fixed():
    """Which variant of _FunctionDefParser.get_parameters is rope running: does `f(a, b=1, *r)` read as
    (a, b=1, *r) (True: proposed fix applied) or as (a, b, "*r"=1) (False: the code as found)?"""
    if "fixed" not in _PROBE:
        from rope.refactor import functionutils

        class _Stub:
            def get_kind(self):
                return "function"
        try:
            d = functionutils.DefinitionInfo._read(_Stub(), "f(a, b=1, *r)")
            _PROBE["fixed"] = (d.args_arg == "r" and list(d.args_with_defaults) == [("a", None), ("b", "1")])
        except Exception:
            _PROBE["fixed"] = False
    return _PROBE["fixed"]


def utf8_ranges_ok():
    """Does the call parser cut argument texts correctly when the line contains non-ASCII characters
    (ast column offsets are UTF-8 byte offsets)?  True on the current code (fixed by 737992b: non-ASCII literals are
    ordinary modelled input); run() reports a VIOLATION when this is False again."""
    if "utf8" not in _PROBE:
        from rope.refactor import functionutils
        try:
            _PROBE["utf8"] = functionutils._FunctionCallParser('f("\u00e9", 2)', False).get_parameters() == (['"\u00e9"', "2"], [])
        except Exception:
            _PROBE["utf8"] = False
    return _PROBE["utf8"]


def kwstar_ok():
    """Does the call parser accept a call containing **mapping?  True on the current code (fixed by 091d633, model variant
    kwfix = true); run() reports a VIOLATION when it raises AssertionError again."""
    if "kwstar" not in _PROBE:
        from rope.refactor import functionutils
        try:
            functionutils._FunctionCallParser("f(1, **k)", False).get_parameters()
            _PROBE["kwstar"] = True
        except AssertionError:
            _PROBE["kwstar"] = False
        except Exception:
            _PROBE["kwstar"] = False
    return _PROBE["kwstar"]


def remover_deletes():
    """Which variant of ArgumentRemover.change_argument_mapping is rope running: does it delete the argument
    of the removed parameter from the mapping (True: proposed fix applied) or never (False: the code as found)?"""
    if "rdel" not in _PROBE:
        from rope.refactor import functionutils as fu
        from rope.refactor.change_signature import ArgumentRemover
        try:
            d = fu.DefinitionInfo("f", False, [("a", None), ("b", None)], None, None)
            m = fu.ArgumentMapping(d, fu.CallInfo("f", ["1", "2"], [], None, None, False, False))
            ArgumentRemover(1).change_argument_mapping(d, m)
            _PROBE["rdel"] = "b" not in m.param_dict
        except Exception:
            _PROBE["rdel"] = False
    return _PROBE["rdel"]


def g_callee(s):
    """what the callee expression of the site statically denotes (generator truth)"""
    if s.get("style") == "subctor":
        return "CSubclass"
    return "CClass" if s["ctor"] else "CTarget"


def g_ecase(I, case, ob):
    sites = []
    for s in case["sites"]:
        stars = [] if s["star"] is None else [g_pair(gN(I, s["star"]), gN(I, "*" + s["star"]))]
        sites.append("{| s_callee := %s; s_implicit := %s; s_ctor := %s; s_call := %s; s_stars := %s |}" % (
            g_callee(s), g_bool(s["implicit"]), g_bool(s["ctor"]), g_rend(I, L.site_rendered(s)), g_list(stars)))
    newdef = None if (ob["new"] is None or ob["tokens"] is None) else g_ptokens(I, ob["tokens"])
    calls = [] if ob["new"] is None else [g_rend(I, r) for r in ob["rendered"]]
    return "{| e_kwfix := %s; e_init := %s; e_rdel := %s; e_fixed := %s; e_ast := %s; e_cs := %s; e_sites := %s; e_newdef := %s; e_newcalls := %s |}" % (
        g_bool(True), g_bool(case["kind"] == "init"), g_bool(True), g_bool(True), g_ast(I, case), g_list([g_changer(I, c) for c in case["changers"]]),
        g_list(sites), g_opt(newdef), g_list(calls))


def shrink(case, pred):
    """greedy: fewer sites, fewer changers, while pred(case) stays true"""
    cur = json.loads(json.dumps(case))
    changed = True
    budget = 40
    while changed and budget > 0:
        changed = False
        for i in range(len(cur["sites"]) - 1, -1, -1):
            if len(cur["sites"]) <= 1:
                break
            cand = dict(cur, sites=cur["sites"][:i] + cur["sites"][i + 1:])
            budget -= 1
            if budget > 0 and pred(cand):
                cur, changed = cand, True
        for i in range(len(cur["changers"]) - 1, -1, -1):
            if len(cur["changers"]) <= 1:
                break
            cand = dict(cur, changers=cur["changers"][:i] + cur["changers"][i + 1:])
            rem = L.ever_removed([tuple(p) for p in cand["params"]], cand["star"], cand["kw"], [tuple(c) for c in cand["changers"]])
            cand["used"] = [u for u in cand["used"] if u not in rem]
            budget -= 1
            if budget > 0 and pred(cand):
                cur, changed = cand, True
    return cur


def norm_case(case):
    c = json.loads(json.dumps(case))
    c["params"] = [tuple(p) for p in c["params"]]
    c["changers"] = [tuple(ch) for ch in c["changers"]]
    if c.get("kwonly"):
        c["kwonly"] = [tuple(p) for p in c["kwonly"]]
    for s in c["sites"]:
        s["kws"] = [tuple(x) for x in s["kws"]]
        if "kwstar_items" in s:
            s["kwstar_items"] = [tuple(x) for x in s["kwstar_items"]]
    return c


def failing_sites(case, ob):
    """[(site, class, detail)] for sites on which the oracle fails"""
    out = []
    for s in case["sites"]:
        st = ob["site_status"].get(s["k"])
        if st and st[0] == "fail":
            out.append((s, classify(case, s, ob["tokens"], st[0]), st[1]))
    return out


def case_verdict(case, ob):
    """(failed?, class, detail) for the whole case: the first failing site, or the case-level failure attributed
    to the site classes."""
    if ob["new"] is None:
        if ob["err"] == "AssertionError":
            # an assert that fires is a crash, not a refusal
            return True, None, "get_changes raised AssertionError (a failing assert, not a refusal)"
        return False, None, ""
    if ob.get("recompute_differs"):
        return True, None, RECOMPUTE
    if ob["parse_fail"]:
        classes = [classify(case, s, ob["tokens"], ob["site_status"].get(s["k"], ("ok",))[0]) for s in case["sites"]]
        out = [c for c in classes if c not in (None, "star-call-identity")]
        return True, (out[0] if out else None), ob["parse_fail"]
    fs = failing_sites(case, ob)
    # prefer an in-domain failure
    for s, cl, detail in fs:
        if cl is None or cl == "star-call-identity":
            return True, None, detail
    if fs:
        s, cl, detail = fs[0]
        return True, cl, detail
    if ob["case_fail"]:
        classes = [classify(case, s, ob["tokens"], ob["site_status"].get(s["k"], ("ok",))[0]) for s in case["sites"]]
        out = [c for c in classes if c not in (None, "star-call-identity")]
        if not out and not case["sites"]:
            out = [] if compiles_header(ob["tokens"]) else ["invalid-new-def"]
        return True, (out[0] if out else None), ob["case_fail"]
    return False, None, ""


RECOMPUTE = ("computing the changes a second time on the untouched project (after a discarded preview) gives a different "
             "change set than the first time")


def failure_kind(detail):
    """how the failure shows: part of the signature, so that a known shape failing in a NEW way is a VIOLATION"""
    d = detail or ""
    if d == RECOMPUTE:
        return "recompute"
    if "raised AssertionError" in d:
        return "crash"
    if "not a call expression" in d or "not splittable" in d or "does not compile" in d or "not found" in d:
        return "syntax"
    if "callee expression" in d:
        return "callee"
    if "program output differs" in d:
        return "exec"
    if "does not bind" in d or "no longer binds" in d or "received" in d or "receives" in d or "dropped in favour" in d or "took its default" in d:
        return "binding"
    return "other"


def replay_obj(case, cl, detail, stream):
    return {"kind": stream, "case": case, "class": cl or "in-domain", "failure": failure_kind(detail), "observed": detail}


def signature(obj):
    """structural class of the input + the way it fails (+ a marker when the model does not predict rope's output)"""
    return "%s:%s%s" % (obj.get("class", "in-domain"), obj.get("failure", "other"), obj.get("unpredicted", ""))


def mk_site(k, func, pos=(), kws=(), style="plain", module="m.py", star=None, star_vals=(), **extra):
    s = {"k": k, "module": module, "func": func, "style": style, "implicit": style in ("inst", "self"),
         "ctor": style in ("ctor", "selfctor"), "infunc": False, "layout": 0, "pos": list(pos), "kws": [tuple(x) for x in kws],
         "star": star, "kwstar": None, "star_len": len(star_vals), "star_vals": list(star_vals), "kwstar_keys": []}
    s.update(extra)
    return s


def mk_case(kind, params, star, kw, changers, sites, used=None, **extra):
    c = {"kind": kind, "params": [tuple(p) for p in params], "star": star, "kw": kw,
         "used": used if used is not None else [p[0] for p in params] + [x for x in (star, kw) if x],
         "changers": [tuple(c) for c in changers], "sites": sites}
    c.update(extra)
    return c


def check_e2e(ctx, cases, stream="e2e", text_only=False):
    I = Intern()
    obs = []
    for case in cases:
        obs.append(observe(case, text_only=text_only))
    shard = 150
    bodies = []
    for s0 in range(0, len(cases), shard):
        terms = [g_ecase(I, c, o) for c, o in zip(cases[s0:s0 + shard], obs[s0:s0 + shard])]
        bodies.append(HEADER + "Definition cases : list ecase := %s.\nEval vm_compute in (emismatches cases).\n"
                      "Eval vm_compute in (edomain cases).\n" % g_list(terms).replace("; {| e_kwfix", ";\n {| e_kwfix"))
    outs = ctx.coq_files_parallel(bodies) if bodies else []
    mism, domain = {}, []
    for si, out in enumerate(outs):
        blocks = coq_blocks(out)
        pairs = blocks[0]
        for k in range(0, len(pairs) - 1, 2):
            mism[si * shard + pairs[k]] = pairs[k + 1]
        cur = []
        for x in blocks[1]:
            if x == 9:
                domain.append(cur)
                cur = []
            else:
                cur.append(x)
    assert len(domain) == len(cases), (len(domain), len(cases))
    deferred = []
    for idx, (case, ob) in enumerate(zip(cases, obs)):
        ctx.count("%s:kind=%s" % (stream, case["kind"]))
        ctx.count("%s:changers=%d" % (stream, len(case["changers"])))
        for ch in case["changers"]:
            ctx.count("%s:changer=%s" % (stream, ch[0]))
        if ob["new"] is None:
            ctx.count("%s:refused:%s" % (stream, ob["err"]))
        failed, cl, detail = case_verdict(case, ob)
        in_dom_sites = 0
        for si, s in enumerate(case["sites"]):
            st = ob["site_status"].get(s["k"], ("n/a", ""))[0]
            pcl = classify(case, s, ob["tokens"], st) if ob["new"] is not None and not text_only else None
            code = domain[idx][si] if si < len(domain[idx]) else 0
            nontriv = any(ch[0] != "norm" for ch in case["changers"]) and (len(s["pos"]) + len(s["kws"]) > 0)
            ctx.case((stream, case["kind"], case["params"], case["star"], case["kw"], case["changers"],
                      L.site_rendered(s), s["implicit"], s["ctor"]), nontrivial=nontriv)
            ctx.traces += 1
            ctx.count("%s:site_style=%s" % (stream, s["style"]))
            if s["star"] or s["kwstar"]:
                ctx.count("%s:site_with_star" % stream)
            if code == 1:
                in_dom_sites += 1
            if ob["new"] is not None and not text_only:
                ctx.count("%s:domain=%s" % (stream, pcl or "inside"))
                py_in = pcl is None
                if pcl != "star-call-identity" and py_in != (code != 0) and ob["parse_fail"] is None and not case.get("unmodelled") and not s.get("star_first"):
                    ctx.violation(dict(replay_obj(case, pcl, "domain disagreement at site v%d: CPython-based classification %r, Coq code %d" % (s["k"], pcl, code), stream),
                                       broken="side_ok / bind (coq/C06/Args.v) disagree with CPython about which calls are in the domain of C06_preserve"),
                                  "C06 %s: domain disagreement (python %r, coq %d) on %s" % (stream, pcl, code, short(case)), no_input=True)
        ctx.extra["sites_in_theorem_domain"] = ctx.extra.get("sites_in_theorem_domain", 0) + in_dom_sites
        if failed and cl in USER_ERROR:
            ctx.count("%s:excluded_failure:%s" % (stream, cl))
        elif failed:
            small = case
            if not text_only:
                def pred(c, cl=cl):
                    o = observe(norm_case(c))
                    f2, cl2, _ = case_verdict(norm_case(c), o)
                    return f2 and cl2 == cl
                small = norm_case(shrink(case, pred))
            robj = replay_obj(small, cl, detail, stream)
            if idx in mism and not case.get("unmodelled"):
                # the model does not predict what rope emitted here: not the recorded defect, whatever the shape
                robj["unpredicted"] = "+model-disagreement"
            ctx.violation(robj, "C06 %s: %s [%s] on %s" % (stream, detail, cl or "in-domain", short(small)))
        elif idx in mism and not case.get("unmodelled"):
            deferred.append((idx, case, ob))      # model disagreements are reported after the failing inputs
        if ctx.too_many():
            break
    for idx, case, ob in deferred:
        if ctx.too_many():
            break
        code = mism[idx]
        what = {1: "rewritten definition differs from the model", 2: "rewritten call differs from the model",
                4: "in-domain case on which the model does not preserve the binding"}.get(code, "code %d" % code)
        found = None if text_only else neighbourhood_search(ctx, case)
        if found is None:
            ctx.violation(dict(replay_obj(case, None, what, stream), mismatch=what, rope_error=ob["err"],
                               broken="correspondence RopeVerif.C06.Runner.run_ecase (model coq/C06/Args.v vs rope/refactor/"
                                      "change_signature.py + functionutils.py); theorems C06_* no longer speak about the code"),
                          "C06 %s: %s on %s" % (stream, what, short(case)), no_input=True)
        else:
            ctx.violation(found, "C06 %s: %s" % (stream, found["observed"]))
    return obs


def short(case):
    s = "%s(%s) changers=%s" % (case["kind"], L.fmt_params(case["params"], case["star"], case["kw"]), case["changers"])
    if case["sites"]:
        s += " call=" + L.fmt_call(case["sites"][0]["func"], case["sites"][0], 0)
    return s[:260]


def neighbourhood_search(ctx, case, budget=60):
    rng = random.Random("nb-" + json.dumps(case, sort_keys=True, default=repr))
    for _ in range(budget):
        c = L.gen_case(rng, wild=False, star_calls=False)
        if rng.random() < 0.7:
            c["kind"], c["params"], c["star"], c["kw"] = case["kind"], case["params"], case["star"], case["kw"]
            c["changers"] = case["changers"]
            c["used"] = case["used"]
            if case.get("nested"):
                c["nested"] = True
            else:
                c.pop("nested", None)
            key = "nested" if case.get("nested") else case["kind"]
            c["sites"] = [s for s in c["sites"] if (s["module"], s["func"], s["style"]) in L.SITE_STYLES[key]]
            # regenerate arguments for this signature
            for s in c["sites"]:
                skip = 1 if c["kind"] in ("method", "init") else 0
                s.update(L.gen_call_args(rng, c["params"], c["star"], c["kw"], s["k"], skip, valid=True, allow_star=False))
                if s["style"] in ("cls", "subinit"):
                    s["pos"] = ["self" if s["style"] == "subinit" else ("mm.o" if s["module"] == "u2.py" else "o")] + s["pos"]
        try:
            ob = observe(c)
        except Exception:
            continue
        failed, cl, detail = case_verdict(c, ob)
        if failed and cl is None:
            return replay_obj(c, None, detail, "e2e")
    return None


# ----------------------------------------------------------------------------- interruption
def interrupted_result(case, modules, stop_at):
    """('raised', name) | ('changes', new_modules)"""
    new, err = L.run_rope(case, modules, stop_at=stop_at)
    return ("raised", err) if new is None else ("changes", new)


def check_interrupt(ctx, pairs):
    """get_changes under a real TaskHandle that is stopped at every notification in turn must either raise
    (InterruptedTaskError) or hand back the complete change set: performing a partial one rewrites the definition
    and some modules only, leaving the other call sites bound to the wrong parameters."""
    for case, ob in pairs:
        if ob["new"] is None:
            continue
        events = []
        full, err = L.run_rope(case, ob["modules"], events=events)
        if full != ob["new"]:
            ctx.violation(dict(replay_obj(case, None, "get_changes with an unstopped TaskHandle differs from get_changes without one", "interrupt"), stop_at=0),
                          "C06 interrupt: an unstopped TaskHandle changes the result on %s" % short(case))
            continue
        for k in range(1, events[0] + 1):
            kind, res = interrupted_result(case, ob["modules"], k)
            ctx.case(("interrupt", case["kind"], case["params"], case["changers"], len(case["sites"]), k), nontrivial=True)
            ctx.traces += 1
            ctx.count("interrupt:%s" % (kind if kind == "changes" else "raised:" + str(res)))
            if kind == "changes" and res != ob["new"]:
                partial = sorted(fn for fn in res if res[fn] != ob["new"][fn])
                ctx.violation(dict(replay_obj(case, None, "stopped at notification %d of %d: get_changes returned a change set that leaves %s unchanged "
                                              "while the definition is rewritten" % (k, events[0], ", ".join(partial)), "interrupt"), stop_at=k),
                              "C06 interrupt: partial change set (stopped at %d/%d, %s not rewritten) on %s" % (k, events[0], ", ".join(partial), short(case)))
                break
        if ctx.too_many():
            break


# ----------------------------------------------------------------------------- IntroduceParameter
def gen_introduce(rng):
    while True:
        case = L.gen_case(rng, wild=False, nsites=rng.choice([1, 2, 3]), star_calls=False)
        if case["kind"] == "init":
            continue
        case["changers"] = []
        used = [p[0] for p in case["params"]] + [x for x in (case["star"], case["kw"]) if x]
        case["used"] = used
        name = rng.choice(["p", "p", "p", "q", "a", "r", "z"])
        case["introduce"] = {"expr": rng.choice(["x0", "x0", "cfg.val"]), "name": name}
        if rng.random() < 0.08:
            case["kwonly"] = [("k1", "0")]
            case["used"] = used + ["k1"]
            # the header parser turns a (name, default) tuple into a parameter name here: outside the model
            case["unmodelled"] = any(d is not None for _, d in case["params"])
        return norm_case(case)


def classify_intro(case, site, old_status):
    params = case["params"]
    names = [p[0] for p in params] + [x for x in (case["star"], case["kw"]) if x] + [n for n, _ in case.get("kwonly", [])]
    p = case["introduce"]["name"]
    if case.get("kwonly"):
        return "kwonly"
    if p in names:
        return "introduce-name-collision"
    if old_status == "old-invalid":
        return "call-invalid"
    if p in [k for k, _ in site["kws"]]:
        return "introduce-name-collides-with-call-keyword"
    npos = len(site["pos"]) + (1 if (site["implicit"] or site["ctor"]) else 0)
    if npos > len(params):
        return "introduce-before-vararg"
    return None


INTRO_USER_ERROR = ("introduce-name-collision", "call-invalid", "introduce-name-collides-with-call-keyword")


def observe_introduce(case):
    modules = L.build_modules(case)
    info = {}
    new, err = L.run_introduce(case, modules, info=info)
    ob = {"modules": modules, "new": new, "err": err, "tokens": None, "site_status": {}, "case_fail": None,
          "recompute_differs": bool(info.get("recompute_differs"))}
    if new is None:
        return ob
    line = L.extract_def_line(case, new["m.py"])
    ob["tokens"] = L.parse_def_header(line) if line else None
    if ob["tokens"] is None:
        ob["case_fail"] = "rewritten definition header not found / not splittable"
    for s in case["sites"]:
        if L.extract_site_text(new[s["module"]], s["k"]) != L.extract_site_text(modules[s["module"]], s["k"]):
            ob["case_fail"] = "call site v%d was modified" % s["k"]
    old_trees = {fn: ast.parse(src) for fn, src in modules.items()}
    old_sig = L._sig_from_def(L.find_def(old_trees["m.py"], case), modules["m.py"])
    new_sig = None
    try:
        new_trees = {fn: ast.parse(src) for fn, src in new.items()}
        new_sig = L._sig_from_def(L.find_def(new_trees["m.py"], case), new["m.py"])
    except SyntaxError as e:
        new_trees = None
        ob["case_fail"] = "rewritten project does not compile: %s" % (e,)
    pname, expr = case["introduce"]["name"], ast.unparse(ast.parse(case["introduce"]["expr"], mode="eval").body)
    for s in case["sites"]:
        oc = L.find_site_call(old_trees[s["module"]], s["k"])
        try:
            obd = L.bind_sources(old_sig, *L.call_actuals(oc, s))
        except TypeError:
            ob["site_status"][s["k"]] = ("old-invalid", "")
            continue
        if new_sig is None:
            ob["site_status"][s["k"]] = ("fail", ob["case_fail"])
            continue
        try:
            nbd = L.bind_sources(new_sig, *L.call_actuals(L.find_site_call(new_trees[s["module"]], s["k"]), s))
        except TypeError as e:
            ob["site_status"][s["k"]] = ("fail", "call v%d no longer binds: %s" % (s["k"], e))
            continue
        st = ("ok", "")
        for n in obd:
            if n not in nbd or nbd[n] != obd[n]:
                st = ("fail", "v%d: parameter %s received %r before and %r after" % (s["k"], n, obd[n], nbd.get(n)))
        if st[0] == "ok" and nbd.get(pname) != expr:
            st = ("fail", "v%d: introduced parameter %s receives %r instead of its default %r" % (s["k"], pname, nbd.get(pname), expr))
        ob["site_status"][s["k"]] = st
    if new_trees is not None and all(st[0] != "old-invalid" for st in ob["site_status"].values()):
        before = L.run_program(modules)
        if "EXC:" not in before:
            after = L.run_program(new)
            if before != after and ob["case_fail"] is None:
                ob["case_fail"] = "program output differs after the change: %r vs %r" % (before[-200:], after[-200:])
    return ob


def intro_verdict(case, ob):
    if ob["new"] is None:
        return False, None, ""
    if ob.get("recompute_differs"):
        return True, None, RECOMPUTE
    classes = {s["k"]: classify_intro(case, s, ob["site_status"].get(s["k"], ("ok",))[0]) for s in case["sites"]}
    for s in case["sites"]:
        st = ob["site_status"].get(s["k"])
        if st and st[0] == "fail" and classes[s["k"]] is None:
            return True, None, st[1]
    for s in case["sites"]:
        st = ob["site_status"].get(s["k"])
        if st and st[0] == "fail":
            return True, classes[s["k"]], st[1]
    if ob["case_fail"]:
        out = [c for c in classes.values() if c is not None]
        if not out and not case["sites"]:
            c0 = classify_intro(case, {"kws": [], "pos": [], "implicit": False, "ctor": False}, "ok")
            out = [c0] if c0 else []
        return True, (out[0] if out else None), ob["case_fail"]
    return False, None, ""


def check_introduce(ctx, cases):
    I = Intern()
    obs = [observe_introduce(c) for c in cases]
    terms = []
    for case, ob in zip(cases, obs):
        sites = []
        for s in case["sites"]:
            sites.append("{| s_callee := CTarget; s_implicit := %s; s_ctor := %s; s_call := %s; s_stars := [] |}" % (
                g_bool(s["implicit"]), g_bool(s["ctor"]), g_rend(I, L.site_rendered(s))))
        newdef = None if (ob["new"] is None or ob["tokens"] is None) else g_ptokens(I, ob["tokens"])
        terms.append("{| i_kwfix := true; i_fixed := %s; i_ast := %s; i_p := %s; i_e := %s; i_sites := %s; i_newdef := %s |}" % (
            g_bool(True), g_ast(I, case), gN(I, case["introduce"]["name"]), gN(I, case["introduce"]["expr"]),
            g_list(sites), g_opt(newdef)))
    body = HEADER + "Definition cases : list icase := %s.\nEval vm_compute in (imismatches cases).\nEval vm_compute in (idomain cases).\n" % (
        g_list(terms).replace("; {| i_kwfix", ";\n {| i_kwfix"))
    blocks = coq_blocks(ctx.coq_file(body))
    mism = {blocks[0][k]: blocks[0][k + 1] for k in range(0, len(blocks[0]) - 1, 2)}
    domain, cur = [], []
    for x in blocks[1]:
        if x == 9:
            domain.append(cur)
            cur = []
        else:
            cur.append(x)
    for idx, (case, ob) in enumerate(zip(cases, obs)):
        ctx.count("intro:kind=%s" % case["kind"])
        if ob["new"] is None:
            ctx.count("intro:refused:%s" % ob["err"])
        failed, cl, detail = intro_verdict(case, ob)
        for si, s in enumerate(case["sites"]):
            ctx.case(("intro", case["kind"], case["params"], case["star"], case["kw"], case["introduce"], L.site_rendered(s)),
                     nontrivial=len(s["pos"]) + len(s["kws"]) > 0)
            ctx.traces += 1
            if ob["new"] is None:
                continue
            pcl = classify_intro(case, s, ob["site_status"].get(s["k"], ("ok",))[0])
            ctx.count("intro:domain=%s" % (pcl or "inside"))
            code = domain[idx][si]
            if code == 1:
                ctx.extra["sites_in_theorem_domain"] = ctx.extra.get("sites_in_theorem_domain", 0) + 1
            if (pcl is None) != (code != 0):
                ctx.violation(dict(replay_obj(case, pcl, "domain disagreement at v%d: python %r coq %d" % (s["k"], pcl, code), "intro"),
                                   broken="introduce_ok / bind (coq/C06/Args.v) disagree with CPython about the domain of C06_introduce_parameter"),
                              "C06 intro: domain disagreement (python %r, coq %d) on %s" % (pcl, code, short(case)), no_input=True)
        if failed and cl in INTRO_USER_ERROR:
            ctx.count("intro:excluded_failure:%s" % cl)
        elif failed:
            robj = replay_obj(case, cl, detail, "intro")
            if idx in mism and not case.get("unmodelled"):
                robj["unpredicted"] = "+model-disagreement"
            ctx.violation(robj, "C06 intro: %s [%s] on %s introduce %s" % (
                detail, cl or "in-domain", short(case), case["introduce"]))
        elif idx in mism and not case.get("unmodelled"):
            what = {1: "rewritten definition differs from the model", 4: "in-domain case on which the model does not preserve the binding"}.get(mism[idx], "code %d" % mism[idx])
            ctx.violation(dict(replay_obj(case, None, what, "intro"), mismatch=what, rope_error=ob["err"],
                               broken="correspondence RopeVerif.C06.Runner.run_icase (introduce_def vs rope/refactor/introduce_parameter.py); "
                                      "theorem C06_introduce_parameter no longer speaks about the code"),
                          "C06 intro: %s on %s introduce %s" % (what, short(case), case["introduce"]), no_input=True)
        if ctx.too_many():
            break


# ----------------------------------------------------------------------------- unit level
def cpython_bind(I, params, star, kw, pos, kws):
    """CPython's own call binding on integer tokens; None = SyntaxError / TypeError."""
    parts = []
    for (n, d) in params:
        parts.append("p%d" % I(n) if d is None else "p%d=%d" % (I(n), I(d)))
    if star is not None:
        parts.append("*p%d" % I(star))
    if kw is not None:
        parts.append("**p%d" % I(kw))
    ret = "[%s]" % ", ".join("(%d, p%d)" % (I(n), I(n)) for n, _ in params)
    src = "def f(%s):\n    return (%s, %s, %s)\n" % (
        ", ".join(parts), ret, "list(p%d)" % I(star) if star is not None else "[]",
        "[(int(a[1:]), b) for a, b in p%d.items()]" % I(kw) if kw is not None else "[]")
    call = "f(%s)" % ", ".join([str(I(v)) for v in pos] + ["p%d=%d" % (I(n), I(v)) for n, v in kws])
    ns = {}
    try:
        exec(compile(src, "<bind>", "exec"), ns)
        return eval(compile(call, "<call>", "eval"), ns)
    except (SyntaxError, TypeError):
        return None


def gen_unit(rng):
    pool = ["a", "b", "c", "d"]
    n = rng.randint(0, 4)
    names = [rng.choice(pool) for _ in range(n)] if rng.random() < 0.15 else rng.sample(pool, n)
    params = []
    nd = rng.randint(0, n)
    for i, x in enumerate(names):
        if rng.random() < 0.1:
            params.append((x, rng.choice([None, "D%d" % i])))
        else:
            params.append((x, "D%d" % i if i >= n - nd else None))
    star = rng.choice([None, None, "r", "a"]) if rng.random() < 0.5 else None
    kw = rng.choice([None, "k", "b"]) if rng.random() < 0.4 else None
    npos = rng.randint(0, n + 2) if rng.random() < 0.4 else rng.randint(0, n)
    pos = ["V%d" % i for i in range(npos)]
    kws = []
    for x in names[npos:]:
        if rng.random() < 0.7:
            kws.append((x, "K" + x))
    rng.shuffle(kws)
    if rng.random() < 0.3:
        kws.insert(rng.randint(0, len(kws)), (rng.choice(pool + ["z", "y"]), "E%d" % rng.randint(0, 2)))
    if rng.random() < 0.1:
        kws.append((rng.choice(pool + ["z"]), "E9"))
    implicit = rng.random() < 0.15
    ctor = (not implicit) and rng.random() < 0.15
    call = {"fname": "f", "args": pos, "kws": kws, "star": rng.choice([None] * 8 + ["xs"]),
            "kwstar": rng.choice([None] * 10 + ["kw"]), "implicit": implicit, "ctor": ctor}
    changers = []
    cur = (params, star, kw)
    for _ in range(rng.choice([0, 1, 1, 2, 2, 3])):
        ch = L.gen_changer(rng, cur[0], cur[1], cur[2], "func", wild=rng.random() < 0.35)
        if ch[0] == "add":
            ch = (ch[0], ch[1], ch[2], None if ch[3] is None else "AD", None if ch[4] is None else "AV" + ch[2])
        if ch[0] == "reo" and ch[2] is not None:
            ch = (ch[0], ch[1], "AUTO")
        changers.append(ch)
        nxt = L.sim_def(cur[0], cur[1], cur[2], ch)
        if nxt is None:
            break
        cur = nxt
    return {"params": params, "star": star, "kw": kw, "call": call, "changers": changers}


def run_unit_impl(u):
    from rope.refactor import functionutils as fu
    from rope.refactor.change_signature import _FunctionChangers
    d = fu.DefinitionInfo("f", False, [tuple(p) for p in u["params"]], u["star"], u["kw"])
    c = u["call"]
    ci = fu.CallInfo(c["fname"], list(c["args"]), [tuple(x) for x in c["kws"]], c["star"], c["kwstar"], c["implicit"], c["ctor"])
    res = {"newdef": None, "newcall": None}
    try:
        fc = _FunctionChangers(None, d, L.make_changers(u["changers"]))
    except Exception as e:
        res["err"] = type(e).__name__
        return res
    nd = fc.changed_definition_infos[-1]
    res["newdef"] = ([tuple(p) for p in nd.args_with_defaults], nd.args_arg, nd.keywords_arg)
    try:
        mapping = fu.ArgumentMapping(fc.definition_info, ci)
        for definition_info, changer in zip(fc.changed_definition_infos, fc.changers):   # the loop of change_call
            changer.change_argument_mapping(definition_info, mapping)
        nc = mapping.to_call_info(fc.changed_definition_infos[-1])
    except Exception as e:
        res["newdef"] = res["newdef"]
        res["err"] = type(e).__name__
        return res
    res["newcall"] = {"fname": nc.function_name, "args": list(nc.args), "kws": [tuple(x) for x in nc.keywords],
                      "star": nc.args_arg, "kwstar": nc.keywords_arg, "implicit": nc.implicit_arg, "ctor": nc.constructor}
    return res


def check_unit(ctx, units):
    I = Intern()
    terms, results = [], []
    for u in units:
        r = run_unit_impl(u)
        results.append(r)
        c = u["call"]
        b = None
        if c["star"] is None and c["kwstar"] is None:
            b = cpython_bind(I, u["params"], u["star"], u["kw"], c["args"], c["kws"])
        gb = None
        if b is not None:
            gb = "(mkBind %s %s %s)" % (g_list([g_pair(g_N(x), g_N(y)) for x, y in b[0]]),
                                        g_list([g_N(x) for x in b[1]]), g_list([g_pair(g_N(x), g_N(y)) for x, y in b[2]]))
        nd = None if r["newdef"] is None else g_def(I, *r["newdef"])
        nc = None if r["newcall"] is None else g_call(I, r["newcall"])
        terms.append("{| u_rdel := %s; u_def := %s; u_call := %s; u_cs := %s; u_newdef := %s; u_newcall := %s; u_bind := %s |}" % (
            g_bool(True), g_def(I, u["params"], u["star"], u["kw"]), g_call(I, c), g_list([g_changer(I, x) for x in u["changers"]]),
            g_opt(nd), g_opt(nc), g_opt(gb)))
    shard = 300
    bodies = []
    for s0 in range(0, len(terms), shard):
        bodies.append(HEADER + "Definition cases : list ucase := %s.\nEval vm_compute in (umismatches cases).\n"
                      "Eval vm_compute in (udomain cases).\n" % g_list(terms[s0:s0 + shard]).replace("; {| u_rdel", ";\n {| u_rdel"))
    outs = ctx.coq_files_parallel(bodies)
    indom = 0
    for si, out in enumerate(outs):
        blocks = coq_blocks(out)
        pairs = blocks[0]
        indom += sum(1 for x in blocks[1] if x == 1)
        for k in range(0, len(pairs) - 1, 2):
            idx, code = si * shard + pairs[k], pairs[k + 1]
            u = units[idx]
            what = {1: "changed DefinitionInfo differs from the model", 2: "changed CallInfo differs from the model",
                    3: "specification bind differs from CPython's call binding",
                    4: "in-domain case on which the model does not preserve the binding"}.get(code, "code %d" % code)
            ctx.violation({"kind": "unit", "unit": u, "mismatch": what, "observed": repr(results[idx])[:500],
                           "broken": "correspondence RopeVerif.C06.Runner.run_ucase (%s); theorems C06_* no longer speak about the code" % what},
                          "C06 unit: %s on def(%s) call %s changers %s" % (
                              what, L.fmt_params(u["params"], u["star"], u["kw"]), u["call"], u["changers"]), no_input=True)
            if ctx.too_many():
                return
    for u, r in zip(units, results):
        ctx.case(("unit", u["params"], u["star"], u["kw"], u["call"], u["changers"]), nontrivial=bool(u["changers"]) and bool(u["call"]["args"] or u["call"]["kws"]))
        ctx.traces += 1
        ctx.count("unit:" + ("raised:" + r["err"] if "err" in r else "ok"))
    ctx.extra["unit_cases_in_theorem_domain"] = ctx.extra.get("unit_cases_in_theorem_domain", 0) + indom


# ----------------------------------------------------------------------------- run / replay
def run(ctx):
    ctx.rule = ("e2e: one PRNG generates a function / method / __init__ with 0-5 parameters (defaults, *a, **k), 1-8 call sites "
                "in up to 3 modules (plain, module-qualified, from-import, instance, class-qualified, self., constructor, "
                "A.__init__ in a subclass; positional / keyword / default-relying / *xs / **kw arguments with layout variation) and "
                "1-3 changers (Normalizer, Remover, Adder, DefaultInliner, Reorderer+autodef), mostly applicable, some out of range; "
                "every (definition, changers, site) triple is one case, non-trivial when some changer is not the Normalizer and the call "
                "passes an argument; distinct by structure. text/unit: same without a project, also ill-formed definitions and calls. "
                "beyond: keyword-only parameters, nested calls, subclass constructors, starred argument not last. intro: IntroduceParameter "
                "on generated functions/methods with 1-3 call sites.")
    ctx.extra["rope_variant"] = {"defparser_vararg_fix_applied": vararg_fixed(), "remover_deletes_argument": remover_deletes(),
                                 "source_ranges_utf8_ok": utf8_ranges_ok(), "double_star_call_parses": kwstar_ok()}
    import os
    for ok, what, fn in ((utf8_ranges_ok(), "the call/definition parser cuts argument texts at UTF-8 byte offsets again (737992b reverted?)", "non-ascii-argument-syntax.json"),
                         (kwstar_ok(), "a call passing **mapping trips `assert kw.arg` again (091d633 reverted?)", "kwstar-call.json"),
                         (vararg_fixed(), "_FunctionDefParser.get_parameters attaches the defaults to *args again (e1c84b5 reverted?)", "vararg-with-defaults.json"),
                         (remover_deletes(), "ArgumentRemover.change_argument_mapping no longer deletes the removed parameter's argument (26a80fc reverted?)", "readd-removed-name.json")):
        if not ok:
            obj = json.load(open(os.path.join(os.path.dirname(os.path.dirname(os.path.abspath(__file__))), "corpus", "C06", fn)))
            ctx.violation(dict(obj, probe=what), "C06: " + what)
    n_e2e = ctx.scale(260, 2600)
    cases = [norm_case(c) for c in FIXED_CASES]
    for i in range(n_e2e):
        cases.append(norm_case(L.gen_case(ctx.rng, wild=(i % 7 == 0))))
    for c in cases[len(FIXED_CASES):]:
        if ctx.rng.random() < 0.12:
            L.sprinkle_nonascii(ctx.rng, c)          # ordinary modelled input since 737992b
    obs = check_e2e(ctx, cases, "e2e")
    for c, o in list(zip(cases, obs))[3:6]:
        if o["new"] is not None:
            ctx.sample({"definition": L.fmt_params(c["params"], c["star"], c["kw"]), "kind": c["kind"], "changers": c["changers"],
                        "calls_before": [L.fmt_call(s["func"], s, 0) for s in c["sites"]][:3],
                        "definition_after": L.extract_def_line(c, o["new"]["m.py"]),
                        "calls_after": [L.extract_site_text(o["new"][s["module"]], s["k"]) for s in c["sites"]][:3]})
    if ctx.too_many():
        return
    multi = [(c, o) for c, o in zip(cases, obs) if o["new"] is not None and len({s["module"] for s in c["sites"]}) >= 2
             and any(ch[0] != "norm" for ch in c["changers"])]
    check_interrupt(ctx, multi[:ctx.scale(20, 150)])
    if ctx.too_many():
        return
    bcases = [norm_case(L.gen_beyond(ctx.rng)) for _ in range(ctx.scale(80, 800))]
    check_e2e(ctx, bcases, "beyond")
    if ctx.too_many():
        return
    check_introduce(ctx, [gen_introduce(ctx.rng) for _ in range(ctx.scale(120, 1200))])
    if ctx.too_many():
        return
    tcases = []
    for i in range(ctx.scale(1200, 12000)):
        c = L.gen_case(ctx.rng, wild=(i % 3 == 0), nsites=1)
        c["kind"] = "func"
        c["params"] = [p for p in c["params"] if p[0] != "self"]
        s = c["sites"][0]
        s.update(L.gen_call_args(ctx.rng, c["params"], c["star"], c["kw"], 1, 0, valid=(i % 5 != 0), allow_star=True))
        s.update(func="f", style="plain", implicit=False, ctor=False, module="m.py", infunc=False, layout=0)
        tcases.append(norm_case(c))
    check_e2e(ctx, tcases, "text", text_only=True)
    if ctx.too_many():
        return
    check_unit(ctx, [gen_unit(ctx.rng) for _ in range(ctx.scale(3000, 30000))])


def _model_disagrees(ctx, kind, obj):
    """re-evaluates one recorded model/implementation disagreement inside Coq"""
    I = Intern()
    if kind == "unit":
        u = obj["unit"]
        u["params"] = [tuple(p) for p in u["params"]]
        u["changers"] = [tuple(c) if not isinstance(c, tuple) else c for c in u["changers"]]
        u["changers"] = [tuple(tuple(x) if isinstance(x, list) else x for x in c) for c in u["changers"]]
        before = len(ctx.violations)
        check_unit(ctx, [u])
        bad = len(ctx.violations) > before
        del ctx.violations[before:]
        return bad
    case = norm_case(obj["case"])
    if kind == "intro":
        ob = observe_introduce(case)
        sites = ["{| s_callee := CTarget; s_implicit := %s; s_ctor := %s; s_call := %s; s_stars := [] |}" % (
            g_bool(s["implicit"]), g_bool(s["ctor"]), g_rend(I, L.site_rendered(s))) for s in case["sites"]]
        newdef = None if (ob["new"] is None or ob["tokens"] is None) else g_ptokens(I, ob["tokens"])
        term = "{| i_kwfix := true; i_fixed := %s; i_ast := %s; i_p := %s; i_e := %s; i_sites := %s; i_newdef := %s |}" % (
            g_bool(True), g_ast(I, case), gN(I, case["introduce"]["name"]), gN(I, case["introduce"]["expr"]),
            g_list(sites), g_opt(newdef))
        out = ctx.coq_file(HEADER + "Definition cases : list icase := [%s].\nEval vm_compute in (imismatches cases).\n" % term)
    else:
        ob = observe(case, text_only=(kind == "text"))
        out = ctx.coq_file(HEADER + "Definition cases : list ecase := [%s].\nEval vm_compute in (emismatches cases).\n" % g_ecase(I, case, ob))
    return bool(coq_blocks(out)[0])


def replay(ctx, obj):
    """True = the recorded input still fails: the oracle for failing inputs, the model/implementation
    comparison for recorded disagreements (objects with a "mismatch" / "broken" field)."""
    kind = obj.get("kind")
    if kind == "unit" or (obj.get("broken") and kind in ("e2e", "beyond", "text", "intro") and "domain disagreement" not in obj.get("observed", "")):
        return _model_disagrees(ctx, kind, obj)
    if kind in ("e2e", "text", "beyond"):
        case = norm_case(obj["case"])
        ob = observe(case, text_only=(kind == "text"))
        failed, cl, detail = case_verdict(case, ob)
        return bool(failed)
    if kind == "intro":
        case = norm_case(obj["case"])
        failed, cl, detail = intro_verdict(case, observe_introduce(case))
        return bool(failed)
    if kind == "interrupt":
        case = norm_case(obj["case"])
        modules = L.build_modules(case)
        full, err = L.run_rope(case, modules)
        if full is None:
            return False
        k = obj.get("stop_at", 0)
        res_kind, res = interrupted_result(case, modules, k) if k else ("changes", L.run_rope(case, modules, events=[])[0])
        return res_kind == "changes" and res != full
    return False


FINDING_CASES = {
    "vararg-with-defaults": mk_case("func", [("a", None), ("b", "1")], "r", None, [("norm",)],
                                    [mk_site(1, "f", ["1"]), mk_site(2, "f", ["1", "2", "3"])]),
    "star-call-position-change": mk_case("func", [("a", None), ("b", None)], None, None, [("reo", [1, 0], None)],
                                         [mk_site(1, "f", [], star="xs1", star_vals=["1", "2"])]),
    "readd-removed-name": mk_case("func", [("a", None), ("b", None)], None, None, [("rem", 1), ("add", 1, "b", "0", None)],
                                  [mk_site(1, "f", ["1", "2"])], used=["a"]),
    "add-default-under-surplus": mk_case("func", [("a", None)], "r", None, [("add", 1, "b", "0", None)],
                                         [mk_site(1, "f", ["1", "2", "3"])]),
    "kwonly": mk_case("func", [("a", None)], None, None, [("norm",)], [mk_site(1, "f", ["1"], [("k1", "2")])],
                      kwonly=[("k1", "1")], used=["a", "k1"]),
    "nested-call": mk_case("func", [("a", None), ("b", None)], None, None, [("reo", [1, 0], None)],
                           [mk_site(1, "f", ["f(1, 2)", "3"], nested=True)], unmodelled=True),
    "introduce-before-vararg": mk_case("func", [("a", None)], "r", None, [], [mk_site(1, "f", ["1", "2"])],
                                       introduce={"expr": "x0", "name": "p"}),
    "subclass-ctor": mk_case("init", [("self", None), ("a", None), ("b", None)], None, None, [("reo", [0, 2, 1], None)],
                             [mk_site(1, "S1", ["1", "2"], style="subctor", ctor=True)]),
}

FIXED_CASES = [
    mk_case("func", [("a", None), ("b", "1")], None, None, [("reo", [1, 0], "None")],
            [mk_site(1, "f", ["1", "2"]), mk_site(2, "f", ["1"]), mk_site(3, "m.f", [], [("b", "2"), ("a", "1")], module="u1.py")]),
    mk_case("method", [("self", None), ("x", None), ("y", "1")], None, None, [("reo", [0, 2, 1], "0")],
            [mk_site(1, "o.meth", ["5"], style="inst"), mk_site(2, "A.meth", ["o", "6", "7"], style="cls"),
             mk_site(3, "self.meth", ["1"], [("y", "2")], style="self")]),
    mk_case("init", [("self", None), ("a", None), ("b", "2")], None, "k", [("inl", 2, True), ("add", 3, "x", None, "9")],
            [mk_site(1, "A", ["1"], [("z", "4")], style="ctor"), mk_site(2, "m.A", ["1", "3"], style="ctor", module="u1.py")]),
    mk_case("func", [("a", None), ("b", None), ("c", None)], "r", "k", [("rem", 1)],
            [mk_site(1, "f", ["1", "2", "3", "4"], [("z", "5")])], used=["a", "c", "r", "k"]),
]
