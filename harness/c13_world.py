"""C13 helpers: naming discipline, source generation, abstraction of a live rope project into the state of
coq/C13/Observer.v, Gallina printing, canonical rich answers for the warm-vs-fresh oracle."""
import ast
import os
import shutil

from harness.common import g_N, g_bool, g_list, g_opt

INIT = "__init__.py"
# The model variant the code is compared with: both fixes (repo commits d932e8e fix_move, b19aaa7 fix_forget) are the
# code's behaviour now; the unfixed variants of coq/C13/Observer.v only document the fixed defects.
VARIANT = [True, True]
NMOD = 5            # module ids 0..4: folder zm<k>, file zm<k>.py
NTXT = 2            # zt<k>.txt


# ----------------------------------------------------------------------------- names <-> segments
def seg_of(name):
    if name == INIT:
        return 3
    if name.startswith("zm") and name.endswith(".py~") and name[2:-4].isdigit():
        return 4 * int(name[2:-4]) + 7          # an ignored editor backup (default pattern "*~")
    if name.startswith("zm") and name.endswith(".py") and name[2:-3].isdigit():
        return 4 * int(name[2:-3]) + 1
    if name.startswith("zm") and name[2:].isdigit():
        return 4 * int(name[2:])
    if name.startswith("zt") and name.endswith(".txt") and name[2:-4].isdigit():
        return 4 * int(name[2:-4]) + 2
    raise ValueError("name outside the pool: %r" % (name,))


def name_of(seg):
    if seg == 3:
        return INIT
    k, r = divmod(seg, 4)
    if r == 3:
        return "zm%d.py~" % (k - 1)
    return {0: "zm%d", 1: "zm%d.py", 2: "zt%d.txt"}[r] % k


def path_of(p):
    """'a/b' -> tuple of segments; '' is the root."""
    return tuple(seg_of(x) for x in p.split("/")) if p else ()


def str_of(path):
    return "/".join(name_of(s) for s in path)


def is_folder_name(name):
    return seg_of(name) % 4 == 0


def modid(name):
    """module id of a folder / .py name, None for others"""
    s = seg_of(name)
    return s // 4 if s % 4 in (0, 1) else None


# ----------------------------------------------------------------------------- contents
class Texts:
    """interning of source texts (the model only sees an id, the syntax flag and the import names)"""

    def __init__(self):
        self.ids = {"": 0}

    def content(self, text):
        if text not in self.ids:
            self.ids[text] = len(self.ids)
        ok, imports = True, []
        try:
            tree = ast.parse(text.encode("utf-8"))
        except (SyntaxError, ValueError):
            ok = False
            tree = None
        if tree is not None:
            bound = {}
            for node in tree.body:
                if isinstance(node, ast.Import):
                    for a in node.names:
                        # rope: "import a.b" binds a to ImportedModule("a"); "import a.b as c" binds c to "a.b"
                        first = a.name.split(".")[0]
                        bound[a.asname or first] = first if a.asname is None else None
                elif isinstance(node, (ast.FunctionDef, ast.ClassDef)):
                    bound[node.name] = None
                elif isinstance(node, ast.Assign):
                    for t in node.targets:
                        if isinstance(t, ast.Name):
                            bound[t.id] = None
                elif isinstance(node, ast.ImportFrom):
                    for a in node.names:
                        bound[a.asname or a.name] = None
            for nm, mod in bound.items():
                if mod is not None and mod.startswith("zm") and mod[2:].isdigit():
                    imports.append(int(mod[2:]))
        return (self.ids[text], ok, tuple(sorted(imports)), len(text.encode("utf-8")))


def g_path(p):
    return g_list([g_N(s) for s in p])


def g_content(c):
    return "(Content %s %s %s %s)" % (g_N(c[0]), g_bool(c[1]), g_list([g_N(n) for n in c[2]]), g_N(c[3]))


def g_node(n, mt):
    return "(Dir %s)" % g_N(mt) if n is None else "(File %s %s)" % (g_content(n), g_N(mt))


def g_parsed(v):
    if v[0] == "F":
        return "(PFile %s)" % g_content(v[1])
    return "(pkg %s)" % g_opt(None if v[1] is None else g_list([g_path(p) for p in v[1]]))


def g_state(st):
    # modification times are abstracted to their ranks (1, 2, ...); the model's clock is the next one
    times = sorted(set(st["mtimes"].values()) | set(w[0] for w in st["watched"].values() if w is not None))
    rank = {t: i + 1 for i, t in enumerate(times)}
    d = g_list(["(%s, %s)" % (g_path(p), g_node(n, rank[st["mtimes"][p]])) for p, n in sorted(st["disk"].items())])
    m = g_list(["(%s, %s)" % (g_path(p), g_parsed(v)) for p, v in sorted(st["mods"].items())])
    c = g_list(["((%s, %s), %s)" % (g_path(k[0]), g_N(k[1]), g_path(t)) for k, t in sorted(st["cells"].items())])
    f = g_opt(None if st["flist"] is None else g_list([g_path(p) for p in sorted(st["flist"])]))
    w = g_list(["(%s, %s)" % (g_path(p), g_opt(None if x is None else "(%s, %s)" % (g_N(rank[x[0]]), g_N(x[1]))))
                for p, x in sorted(st["watched"].items())])
    cfg = "(Config %s %s %s true)" % (g_bool(st["soa"]), g_bool(VARIANT[0]), g_bool(VARIANT[1]))
    return "(mk %s %s %s %s %s %s %s)" % (d, m, c, f, w, cfg, g_N(len(times) + 1))


def g_xop(x):
    k = x[0]
    if k == "write":
        return "(XWrite %s %s %s)" % (g_path(x[1]), g_content(x[2]), g_bool(len(x) > 3 and x[3]))
    if k == "create":
        return "(XCreate %s %s)" % (g_path(x[1]), g_bool(x[2]))
    if k == "remove":
        return "(XRemove %s)" % g_path(x[1])
    if k == "move":
        return "(XMove %s %s)" % (g_path(x[1]), g_path(x[2]))
    raise ValueError(k)


def g_query(q):
    k = q[0]
    if k == "files":
        return "QFiles"
    if k == "load":
        return "(QLoad %s)" % g_path(q[1])
    if k == "resolve":
        return "(QResolve %s %s)" % (g_path(q[1]), g_N(q[2]))
    if k == "children":
        return "(QChildren %s)" % g_path(q[1])
    raise ValueError(k)


def g_answer(a):
    k = a[0]
    if k == "files":
        return "(afiles %s)" % g_list([g_path(p) for p in sorted(a[1])])
    if k == "load":
        r = a[1]
        if r == "raised":
            return "(ALoad None)"
        return "(ALoad (Some %s))" % g_opt(None if r is None else g_content(r))
    if k == "target":
        r = a[1]
        if r == "raised":
            return "(ATarget None)"
        return "(ATarget (Some %s))" % g_opt(None if r is None else g_path(r))
    if k == "children":
        r = a[1]
        return "(achildren %s)" % g_opt(None if r is None else g_list([g_path(p) for p in sorted(r)]))
    raise ValueError(k)


def reference_indicator(real_path):
    """rope's stated design (resourceobserver.ChangeIndicator on POSIX): the pair (modification time, size).
    Computed by the harness itself, not through rope, so that a weaker indicator in the code is seen."""
    st = os.stat(real_path)
    return (st.st_mtime, st.st_size)


# ----------------------------------------------------------------------------- abstraction of a project
def read_mtimes(root):
    res = {}
    for dp, dns, fns in os.walk(root):
        rel = os.path.relpath(dp, root)
        base = () if rel == "." else tuple(seg_of(x) for x in rel.split(os.sep))
        for nm in dns + fns:
            res[base + (seg_of(nm),)] = os.stat(os.path.join(dp, nm)).st_mtime
    return res


def read_tree(root, texts):
    disk = {}
    for dp, dns, fns in os.walk(root):
        dns.sort()
        rel = os.path.relpath(dp, root)
        base = () if rel == "." else tuple(seg_of(x) for x in rel.split(os.sep))
        for dn in dns:
            disk[base + (seg_of(dn),)] = None
        for fn in fns:
            with open(os.path.join(dp, fn), "rb") as f:
                disk[base + (seg_of(fn),)] = texts.content(f.read().decode("utf-8"))
    for p, n in disk.items():
        kind = p[-1] % 4
        assert (n is None) == (kind == 0), "naming discipline broken at %r" % (p,)
    return disk


def imported_module_cells(pymodule):
    """(ImportedModule object) for every import statement pyname reachable from the module's structural
    attributes and star imports (nothing is computed: only what is already there is inspected)"""
    from rope.base import pynames
    res = []
    sa = pymodule.structural_attributes
    if sa is not None:
        for name, pn in sa.items():
            if isinstance(pn, pynames.ImportedModule):
                res.append(pn)
            elif isinstance(pn, pynames.ImportedName) and isinstance(pn.imported_module, pynames.ImportedModule):
                res.append(pn.imported_module)
    for si in getattr(pymodule, "star_imports", []) or []:
        if isinstance(si.imported_module, pynames.ImportedModule):
            res.append(si.imported_module)
    return res


def abstract(project, texts, soa):
    from rope.base import pyobjectsdef, pynames, resourceobserver
    from rope.base.resources import File, Folder
    st = {"soa": bool(soa)}
    st["disk"] = read_tree(project.address, texts)
    st["mtimes"] = read_mtimes(project.address)
    mods, cells = {}, {}
    mm = project.pycore.module_cache.module_map
    for res, pm in mm.items():
        p = path_of(res.path)
        if isinstance(pm, pyobjectsdef.PyPackage):
            assert isinstance(res, Folder) and p[-1] % 4 == 0, res
            sa = pm.structural_attributes
            ch = None
            if sa is not None:
                ch = []
                for name, pn in sa.items():
                    assert isinstance(pn, pynames.ImportedModule) and pn.resource is not None, (name, pn)
                    ch.append(path_of(pn.resource.path))
            mods[p] = ("P", None if ch is None else tuple(sorted(ch)))
        else:
            assert isinstance(res, File) and p[-1] % 4 != 0, res
            mods[p] = ("F", texts.content(pm.source_code))
            sa = pm.structural_attributes
            if sa is not None:
                for name, pn in sa.items():
                    if isinstance(pn, pynames.ImportedModule) and pn.resource is None and pn.level == 0:
                        tgt = pn.pymodule.get()
                        if tgt is not None and pn.module_name.startswith("zm") and pn.module_name[2:].isdigit():
                            cells[(p, int(pn.module_name[2:]))] = path_of(tgt.get_resource().path)
    st["mods"], st["cells"] = mods, cells
    fl = project.file_list.files
    st["flist"] = None if fl is None else set(path_of(r.path) for r in fl)
    watched = {}
    for res, stored in project.pycore.observer.resources.items():
        p = path_of(res.path)
        assert (p == ()) or (isinstance(res, Folder) == (p[-1] % 4 == 0)), res
        # the stored indicator must be the pair (mtime, size) of rope's stated design; the size of a folder is
        # abstracted to 0 (unchanged) / 1 (it differs from the folder's current size)
        if stored is None:
            watched[p] = None
        elif not (isinstance(stored, tuple) and len(stored) == 2):
            watched[p] = (float(stored[0] if isinstance(stored, tuple) else stored), 999999999)
        elif isinstance(res, Folder):
            same = (not res.exists()) or os.stat(res.real_path).st_size == stored[1]
            watched[p] = (stored[0], 0 if same else 1)
        else:
            watched[p] = (stored[0], stored[1])
    st["watched"] = watched
    return st


def stale_cells(project):
    """Model-independent diagnosis: concluded ImportedModule cells whose module is not what module lookup
    answers now, or whose module object is no longer the cached one.  Returns (stale_resolution, dangling)."""
    from rope.base import pyobjectsdef
    stale, dangling = [], []
    mm = project.pycore.module_cache.module_map
    for res, pm in list(mm.items()):
        if isinstance(pm, pyobjectsdef.PyPackage):
            continue
        for im in imported_module_cells(pm):
            tgt = im.pymodule.get()
            if tgt is None or im.resource is not None or not hasattr(tgt, "get_resource"):
                continue
            tres = tgt.get_resource()
            if tres is None:
                continue
            if mm.get(tres) is not tgt:
                dangling.append((res.path, im.module_name, tres.path))
            try:
                if im.level == 0:
                    now = project.find_module(im.module_name, im._current_folder())
                else:
                    now = project.find_relative_module(im.module_name, im._current_folder(), im.level)
            except Exception:
                now = None
            if now != tres:
                stale.append((res.path, im.module_name, tres.path, None if now is None else now.path))
    return stale, dangling


# ----------------------------------------------------------------------------- rich answers (oracle)
def _obj_desc(obj, depth=0):
    from rope.base import pyobjects, pyobjectsdef, builtins
    try:
        if isinstance(obj, (pyobjectsdef.PyModule, pyobjectsdef.PyPackage)):
            r = obj.get_resource()
            return ("module", None if r is None else r.path)
        if isinstance(obj, pyobjects.PyClass):
            return ("class", obj.get_name(), tuple(sorted(obj.get_attributes().keys())) if depth < 1 else ())
        if isinstance(obj, pyobjects.PyFunction):
            return ("function", obj.get_name())
        t = obj.get_type()
        if isinstance(t, pyobjects.PyClass):
            return ("instance", t.get_name(), tuple(sorted(obj.get_attributes().keys())) if depth < 1 else ())
        if isinstance(t, builtins.BuiltinClass) or isinstance(obj, builtins.BuiltinClass):
            return ("builtin", type(t).__name__ if not isinstance(obj, builtins.BuiltinClass) else type(obj).__name__)
        return ("other", type(obj).__name__)
    except Exception as e:  # answers that raise must raise alike
        return ("exc", type(e).__name__)


def module_answer(project, path):
    """source, attribute names, and for every attribute its definition location and a description of its object"""
    from rope.base import exceptions
    try:
        res = project.get_resource(path)
    except exceptions.ResourceNotFoundError:
        return ("missing",)
    try:
        pm = project.get_pymodule(res)
    except exceptions.ModuleSyntaxError:
        return ("syntax-error",)
    out = {"source": getattr(pm, "source_code", None)}
    try:
        names = sorted(pm.get_attributes().keys())
    except Exception as e:
        return ("exc-attributes", type(e).__name__)
    out["names"] = tuple(names)
    attrs = []
    for nm in names:
        try:
            pn = pm[nm]
            loc = pn.get_definition_location()
            lm = loc[0]
            lres = None
            if lm is not None:
                r = lm.get_resource() if hasattr(lm, "get_resource") else None
                lres = None if r is None else r.path
            attrs.append((nm, (lres, loc[1]), _obj_desc(pn.get_object())))
        except exceptions.ModuleSyntaxError:
            attrs.append((nm, "syntax-error"))
        except Exception as e:
            attrs.append((nm, ("exc", type(e).__name__)))
    out["attrs"] = tuple(attrs)
    # the same through the module's SCOPE (GlobalScope.get_names / lookup), which keeps its own table
    scope_part = None
    if not res.is_folder():
        try:
            scope = pm.get_scope()
            snames = sorted(set(scope.get_names()) - set(scope.builtin_names))
            looks = []
            for nm in ["e%d" % k for k in range(NMOD)] + ["l0", "l1", "l2", "x0", "K0"]:
                pn = scope.lookup(nm)
                if pn is None:
                    looks.append((nm, None))
                else:
                    loc = pn.get_definition_location()
                    r = loc[0].get_resource() if loc[0] is not None and hasattr(loc[0], "get_resource") else None
                    looks.append((nm, (None if r is None else r.path, loc[1])))
            scope_part = (tuple(snames), tuple(looks))
        except exceptions.ModuleSyntaxError:
            scope_part = "syntax-error"
        except Exception as e:
            scope_part = ("exc", type(e).__name__)
    return ("module", out["source"], out["names"], out["attrs"], scope_part)


def occurrences_answer(project, path, name):
    from rope.base import exceptions
    from rope.contrib import findit
    try:
        res = project.get_resource(path)
        src = res.read()
        off = src.index(name)
        locs = findit.find_occurrences(project, res, off)
        return tuple(sorted((l.resource.path, l.offset, bool(l.unsure)) for l in locs))
    except (exceptions.RopeError, ValueError) as e:
        return ("exc", type(e).__name__)
    except Exception as e:
        return ("exc", type(e).__name__)


def rich_answers(project, sel):
    """sel: {"modules": [paths], "files": bool, "find": [names], "occ": [(path, name)]}"""
    ans = {}
    if sel.get("files"):
        ans["get_files"] = tuple(sorted(r.path for r in project.get_files()))
        ans["get_python_files"] = tuple(sorted(r.path for r in project.get_python_files()))
    for nm in sel.get("find", []):
        r = project.find_module(nm)
        ans["find_module:" + nm] = None if r is None else (r.path if r.project is project else "<python_path>/" + r.name)
    for p in sel.get("modules", []):
        ans["module:" + p] = module_answer(project, p)
    for (p, nm) in sel.get("occ", []):
        ans["occ:%s:%s" % (p, nm)] = occurrences_answer(project, p, nm)
    return ans


def copy_tree(root):
    import tempfile
    dst = tempfile.mkdtemp(prefix="ropeverif-c13f-")
    os.rmdir(dst)
    shutil.copytree(root, dst, copy_function=shutil.copy2)
    return dst
