"""C13 — a long-lived project answers like a freshly opened one.

Histories of changes through rope (primitives, change sets, Rename / MoveModule, undo / redo), changes behind
rope's back followed by project.validate(), and cache-filling queries are run on a real project.

* correspondence (stream A): before and after every primitive event, external batch + validate and controlled
  query the live project is abstracted (module_map, concluded ImportedModule cells, cached file list, watched
  resources with stored-vs-current indicators, directory tree) and the pair is written with the operation into a
  Coq case file; coq/C13/Runner.v computes the model's step and compares.  The invariants [CacheCoherent] /
  [Coherent] of coq/C13/Observer.v are evaluated by Coq on every abstracted real state.
* oracle (streams A and B): at every step a drawn set of rich queries (file lists, find_module, module source,
  attribute names, definition locations and object descriptions of every attribute, occurrences) is answered by
  the long-lived project and by a brand-new Project opened on the same directory (and, for a sample, on a copy).
"""
import json
import os
import random
import shutil
import tempfile

from harness import c13_world as W
from harness.common import g_list, g_opt

PROPERTY = "C13"
HEADER = ("From stdpp Require Import gmap list sets.\nFrom Coq Require Import NArith.\n"
          "From RopeVerif.C13 Require Import Observer Runner.\n")
FOLDER_SIG = "returned: folder-move-raises: a watched resource that no longer exists lies inside the moved folder (_calculate_new_resource uses get_resource)"
KNOWN_SIG = "returned: stale-import-resolution: module cache, file list and watched set coherent; a concluded ImportedModule cell is not what find_module answers now"

_real_listdir = os.listdir


def _sorted_listdir(*a, **k):
    return sorted(_real_listdir(*a, **k))


class Disagree(Exception):
    pass


# ----------------------------------------------------------------------------- source texts
def gen_text_a(rng, allow_error=True):
    """stream A: imports of pool modules, assignments, defs and classes without calls"""
    lines = []
    ks = rng.sample(range(W.NMOD), rng.choice([0, 1, 1, 2]))
    for k in ks:
        lines.append("import zm%d" % k)
    for k in ks:
        if rng.random() < 0.5:
            lines.append("u%d = zm%d.x0" % (k, k))      # data derived from what the import resolves to
    if rng.random() < 0.4:
        lines.append("x0 = %d" % rng.randint(0, 9))
    for j in range(1, rng.randint(1, 3)):
        r = rng.random()
        if r < 0.4:
            lines.append("x%d = %d" % (j, rng.randint(0, 9)))
        elif r < 0.6:
            lines.append("def f%d():\n    return %d" % (j, rng.randint(0, 9)))
        elif r < 0.8:
            lines.append("class K%d:\n    a%d = %d" % (j, j, rng.randint(0, 9)))
        elif lines and lines[0].startswith("import zm"):
            lines.append("y%d = %s.x0" % (j, lines[0].split()[1]))
    text = "\n".join(lines) + ("\n" if lines else "")
    if allow_error and rng.random() < 0.08:
        text += "def (:\n"
    return text


NLIB = 3
LIB_TEXT0 = "x0 = 1\nl%d = 2\nclass K0:\n    a%d = 3\n"


def gen_lib_text(rng, k):
    lines = ["x0 = %d" % rng.randint(0, 9)]
    if rng.random() < 0.6:
        lines.append("l%d = %d" % (k, rng.randint(0, 9)))
    if rng.random() < 0.8:
        lines.append("class K0:\n    a%d = %d\n    def m%d(self):\n        return 1" % (rng.randint(0, 2), rng.randint(0, 9), rng.randint(0, 2)))
    if rng.random() < 0.3:
        lines.append("def f0():\n    return 1")
    return "\n".join(lines) + "\n"


def gen_text_b(rng, in_package=False, own=None):
    """stream B: from-imports, star imports, calls, instances, base classes from other modules, relative imports"""
    lines = []
    ks = rng.sample(range(W.NMOD), rng.choice([1, 1, 2, 3]))
    for k in ks:
        r = rng.random()
        if r < 0.3:
            lines.append("import zm%d" % k)
            lines.append("v%d = zm%d.K0()" % (k, k))
            lines.append("w%d = zm%d.x0" % (k, k))
        elif r < 0.55:
            lines.append("from zm%d import K0 as C%d, x0 as u%d" % (k, k, k))
            lines.append("i%d = C%d()" % (k, k))
        elif r < 0.8 and (own is None or k > own):
            lines.append("from zm%d import *" % k)
            lines.append("t%d = e%d" % (k, k))          # a use of a name that only the star import provides
        elif r < 0.9 and in_package:
            lines.append("from . import zm%d as r%d" % (k, k))
        else:
            lines.append("import zm%d" % k)
            lines.append("class D%d(zm%d.K0):\n    d%d = 1" % (k, k, k))
    if rng.random() < 0.45:
        # a module of the library folder on python_path
        k = rng.randrange(NLIB)
        r = rng.random()
        if r < 0.4:
            lines.append("import zl%d\nq%d = zl%d.x0\nr%d = zl%d.K0()" % (k, k, k, k, k))
        elif r < 0.7:
            lines.append("from zl%d import K0 as L%d, x0 as g%d\nj%d = L%d()" % (k, k, k, k, k))
        else:
            lines.append("from zl%d import *\nh%d = l%d" % (k, k, k))
    lines.append("x0 = %d" % rng.randint(0, 9))
    if own is not None and rng.random() < 0.6:
        lines.append("e%d = %d" % (own, rng.randint(0, 9)))   # the name this module exports to star importers
    if rng.random() < 0.8:
        lines.append("class K0:\n    a%d = %d\n    def m%d(self):\n        return %d"
                     % (rng.randint(0, 2), rng.randint(0, 9), rng.randint(0, 2), rng.randint(0, 9)))
    if rng.random() < 0.4:
        lines.append("def f0():\n    return K0()" if "class K0" in lines[-1] else "def f0():\n    return 1")
    text = "\n".join(lines) + "\n"
    if rng.random() < 0.05:
        text += "def (:\n"
    return text


# ----------------------------------------------------------------------------- the driver
class Driver:
    def __init__(self, stream, soa, record=True):
        from rope.base.project import Project
        from rope.base.resourceobserver import ResourceObserver
        self.stream, self.soa, self.record = stream, bool(soa), record and stream == "A"
        self.texts = W.Texts()
        self.root = tempfile.mkdtemp(prefix="ropeverif-c13-")
        # stream B: a library folder outside the project root, reached through the python_path preference; its
        # modules are resources of the NoProject singleton but are cached and watched by this project
        self.lib = None
        if stream == "B":
            self.lib = tempfile.mkdtemp(prefix="ropeverif-c13lib-")
            for k in range(NLIB - 1):
                with open(os.path.join(self.lib, "zl%d.py" % k), "w") as f:
                    f.write(LIB_TEXT0 % (k, k))
        self.project = self.new_project(self.root)
        self.cases = []          # (pre, kind, post) ; kind = ("rope", xop) | ("ext", xops) | ("q", q, ans) | ("free",)
        self.fake = 1000000000
        self.safe_undo = 0       # changes at the end of the undo list made after the last external batch
        self.safe_redo = 0
        self.cur = self.snap()
        self.project.add_observer(ResourceObserver(changed=self._ev_changed, moved=self._ev_moved,
                                                   created=self._ev_created, removed=self._ev_removed))
        self.events = 0

    def new_project(self, root):
        """a Project with this history's configuration (the reference is a fresh project with the same prefs)"""
        from rope.base.project import Project
        prefs = {"automatic_soa": self.soa}
        if self.lib:
            prefs["python_path"] = [self.lib]
        return Project(root, ropefolder=None, **prefs)

    def close(self):
        try:
            self.project.close()
        finally:
            shutil.rmtree(self.root, ignore_errors=True)
            if self.lib:
                shutil.rmtree(self.lib, ignore_errors=True)

    def libchange(self, act):
        """a library module is edited / created / removed behind rope's back, then project.validate()"""
        real = os.path.join(self.lib, act[1])
        if act[0] == "libremove":
            os.remove(real)
        else:
            with open(real, "w") as f:
                f.write(act[2])
            self.bump(real)
        self.bump(self.lib)
        self.safe_undo = self.safe_redo = 0
        self.project.validate()
        self.case(("free",))

    # -- snapshots and cases -------------------------------------------------------------------
    def snap(self):
        if not self.record:
            return None
        return W.abstract(self.project, self.texts, self.soa)

    def case(self, kind):
        post = self.snap()
        if self.record:
            self.cases.append((self.cur, kind, post))
        self.cur = post

    def tree(self):
        return W.read_tree(self.root, self.texts)

    def _ev_changed(self, res):
        self.events += 1
        self.case(("rope", ("write", W.path_of(res.path), self.texts.content(res.read()))))

    def _ev_created(self, res):
        self.events += 1
        self.case(("rope", ("create", W.path_of(res.path), res.is_folder())))

    def _ev_moved(self, res, new):
        self.events += 1
        self.case(("rope", ("move", W.path_of(res.path), W.path_of(new.path))))

    def _ev_removed(self, res):
        self.events += 1
        self.case(("rope", ("remove", W.path_of(res.path))))

    # -- actions ---------------------------------------------------------------------------------
    def res(self, p):
        return self.project.get_resource(p)

    def build_change(self, a):
        from rope.base import change as ch
        pj = self.project
        k = a[0]
        if k == "write":
            return ch.ChangeContents(pj.get_file(a[1]), a[2])
        if k == "create_file":
            return ch.CreateResource(pj.get_file(a[1]))
        if k == "create_folder":
            return ch.CreateResource(pj.get_folder(a[1]))
        if k == "move":
            r = pj.get_folder(a[1]) if W.is_folder_name(a[1].split("/")[-1]) else pj.get_file(a[1])
            return ch.MoveResource(r, a[2], exact=True)
        if k == "remove":
            r = pj.get_folder(a[1]) if W.is_folder_name(a[1].split("/")[-1]) else pj.get_file(a[1])
            return ch.RemoveResource(r)
        raise ValueError(k)

    def perform(self, act):
        """returns a short status string"""
        from rope.base import change as ch, exceptions
        pj = self.project
        k = act[0]
        nundo = len(pj.history.undo_list)
        nev = self.events
        try:
            return self._perform(act)
        finally:
            if k not in ("undo", "redo", "external", "pending", "q", "libedit", "libcreate", "libremove"):
                if len(pj.history.undo_list) > nundo:
                    self.safe_undo += 1
                    self.safe_redo = 0
                elif self.events > nev:
                    # a change that rope does not record (it only touches ignored resources): undoing older
                    # changes across it is undefined, like across changes made behind rope's back
                    self.safe_undo = self.safe_redo = 0

    def _perform(self, act):
        from rope.base import change as ch, exceptions
        pj = self.project
        k = act[0]
        if k == "write":
            pj.get_file(act[1]).write(act[2])
        elif k == "create_file":
            parent, _, name = act[1].rpartition("/")
            pj.get_folder(parent).create_file(name)
        elif k == "create_folder":
            parent, _, name = act[1].rpartition("/")
            pj.get_folder(parent).create_folder(name)
        elif k == "move":
            self.res(act[1]).move(act[2])
        elif k == "remove":
            self.res(act[1]).remove()
        elif k == "changeset":
            cs = ch.ChangeSet("set")
            for a in act[1]:
                cs.add_change(self.build_change(a))
            pj.do(cs)
        elif k in ("rename_module", "move_module"):
            from rope.refactor.rename import Rename
            from rope.refactor.move import MoveModule
            try:
                if k == "rename_module":
                    changes = Rename(pj, self.res(act[1])).get_changes(act[2])
                else:
                    changes = MoveModule(pj, self.res(act[1])).get_changes(self.res(act[2]) if act[2] else pj.root)
            except (exceptions.RopeError, AttributeError, SyntaxError) as e:
                self.case(("free",))
                return "refused:" + type(e).__name__
            self.case(("free",))
            pj.do(changes)
        elif k == "undo":
            if self.safe_undo <= 0 or not pj.history.undo_list or _has_remove(pj.history.undo_list[-1]):
                return "skipped"
            pj.history.undo()
            self.safe_undo -= 1
            self.safe_redo += 1
        elif k == "redo":
            if self.safe_redo <= 0 or not pj.history.redo_list:
                return "skipped"
            pj.history.redo()
            self.safe_redo -= 1
            self.safe_undo += 1
        elif k == "external":
            self.external(act[1], act[2] if len(act) > 2 else "")
        elif k == "pending":
            self.pending(act[1])
        elif k in ("libedit", "libcreate", "libremove"):
            self.libchange(act)
        elif k == "q":
            self.query(act[1:])
        else:
            raise ValueError(k)
        return "done"

    def bump(self, real):
        self.fake += 7
        os.utime(real, (self.fake, self.fake))

    def external(self, xs, folder=""):
        model_xs = [self.do_xop(x) for x in xs]
        self.safe_undo = self.safe_redo = 0     # undoing across changes made behind rope's back is undefined
        if folder:
            self.project.validate(self.project.get_folder(folder))
        else:
            self.project.validate()
        self.case(("ext", model_xs, W.path_of(folder)))

    def pending(self, items):
        """changes behind rope's back interleaved with queries, project.validate() only at the end"""
        self.safe_undo = self.safe_redo = 0
        for it in items:
            if it[0] == "x":
                self.case(("pendx", self.do_xop(it[1])))
            else:
                self.query(it[1:])
        self.project.validate()
        self.case(("validate", ()))

    def do_xop(self, x):
        """one modification behind rope's back; returns the model's xop"""
        root = self.root
        model_xs = []
        if True:
            k = x[0]
            real = os.path.join(root, *x[1].split("/"))
            par = os.path.dirname(real)
            if k == "xwrite":
                with open(real, "wb") as f:
                    f.write(x[2].encode("utf-8"))
                self.bump(real)
                model_xs.append(("write", W.path_of(x[1]), self.texts.content(x[2])))
            elif k == "xwrite_keep_mtime":
                # cp -p / rsync -t / two writes within one timestamp tick: the modification time is the old one,
                # only the size component of the indicator tells (the generator guarantees a different size)
                st = os.stat(real)
                data = x[2].encode("utf-8")
                assert len(data) != st.st_size, "xwrite_keep_mtime needs a different size"
                with open(real, "wb") as f:
                    f.write(data)
                os.utime(real, ns=(st.st_atime_ns, st.st_mtime_ns))
                model_xs.append(("write", W.path_of(x[1]), self.texts.content(x[2]), True))
            elif k == "xcreate_file":
                with open(real, "xb"):
                    pass
                self.bump(real)
                self.bump(par)
                model_xs.append(("create", W.path_of(x[1]), False))
            elif k == "xmkdir":
                os.mkdir(real)
                self.bump(real)
                self.bump(par)
                model_xs.append(("create", W.path_of(x[1]), True))
            elif k == "xremove":
                if os.path.isdir(real):
                    shutil.rmtree(real)
                else:
                    os.remove(real)
                self.bump(par)
                model_xs.append(("remove", W.path_of(x[1])))
            elif k == "xmove":
                dst = os.path.join(root, *x[2].split("/"))
                os.rename(real, dst)
                if os.path.isdir(dst):
                    for dp, dns, fns in os.walk(dst):
                        self.bump(dp)
                        for fn in fns:
                            self.bump(os.path.join(dp, fn))
                else:
                    self.bump(dst)
                self.bump(par)
                self.bump(os.path.dirname(dst))
                model_xs.append(("move", W.path_of(x[1]), W.path_of(x[2])))
            else:
                raise ValueError(k)
        return model_xs[0]

    def query(self, q):
        from rope.base import exceptions
        pj = self.project
        k = q[0]
        if k == "files":
            ans = ("files", set(W.path_of(r.path) for r in pj.get_files()))
            mq = ("files",)
        elif k == "load":
            mq = ("load", W.path_of(q[1]))
            try:
                pm = pj.get_pymodule(self.res(q[1]))
                ans = ("load", self.texts.content(pm.source_code) if hasattr(pm, "source_code") else None)
            except exceptions.ModuleSyntaxError:
                ans = ("load", "raised")
        elif k == "resolve":
            mq = ("resolve", W.path_of(q[1]), q[2])
            try:
                pm = pj.get_pymodule(self.res(q[1]))
                obj = pm["zm%d" % q[2]].get_object()
                r = obj.get_resource() if hasattr(obj, "get_resource") else None
                ans = ("target", None if r is None else W.path_of(r.path))
            except (exceptions.ModuleSyntaxError, exceptions.AttributeNotFoundError):
                ans = ("target", "raised")
        elif k == "children":
            mq = ("children", W.path_of(q[1]))
            try:
                pm = pj.get_pymodule(self.res(q[1]))
                pm.get_attributes()
                sa = pm.structural_attributes
                ans = ("children", set(W.path_of(pn.resource.path) for pn in sa.values()))
            except exceptions.ModuleSyntaxError:
                ans = ("children", None)
        else:
            raise ValueError(k)
        self.case(("q", mq, ans))

    # -- oracle ----------------------------------------------------------------------------------
    def oracle(self, sel):
        from rope.base.project import Project
        if not sel:
            return None
        warm = W.rich_answers(self.project, sel)
        self.case(("free",))
        roots = [self.root]
        copy = None
        if sel.get("copy"):
            copy = W.copy_tree(self.root)
            roots.append(copy)
        try:
            for r in roots:
                fp = self.new_project(r)
                try:
                    fresh = W.rich_answers(fp, sel)
                finally:
                    fp.close()
                if fresh != warm:
                    for key in sorted(warm):
                        if warm[key] != fresh.get(key):
                            return {"query": key, "warm": _short(warm[key]), "fresh": _short(fresh.get(key)),
                                    "on_copy": r is not self.root}
        finally:
            if copy:
                shutil.rmtree(copy, ignore_errors=True)
        return None


def _short(x):
    s = repr(x)
    return s if len(s) < 1500 else s[:1500] + "..."


def _has_remove(c):
    from rope.base import change as ch
    if isinstance(c, ch.ChangeSet):
        return any(_has_remove(x) for x in c.changes)
    return isinstance(c, ch.RemoveResource)


# ----------------------------------------------------------------------------- generation of steps
def _paths(tree):
    files = sorted(W.str_of(p) for p, n in tree.items() if n is not None)
    folders = [""] + sorted(W.str_of(p) for p, n in tree.items() if n is None)
    return files, folders


def _join(parent, name):
    return parent + "/" + name if parent else name


def _free_file(rng, tree_strs, folders, depth_ok=True):
    for _ in range(12):
        parent = rng.choice(folders)
        r = rng.random()
        name = ("zm%d.py" % rng.randrange(W.NMOD)) if r < 0.66 else (W.INIT if r < 0.86 else (
            "zt%d.txt" % rng.randrange(W.NTXT) if r < 0.94 else "zm%d.py~" % rng.randrange(W.NMOD)))
        if parent == "" and name == W.INIT:
            continue
        p = _join(parent, name)
        if p not in tree_strs:
            return p
    return None


def _free_folder(rng, tree_strs, folders, exclude_under=None):
    for _ in range(12):
        parent = rng.choice(folders)
        if parent.count("/") >= 2:
            continue
        if exclude_under is not None and (parent == exclude_under or parent.startswith(exclude_under + "/")):
            continue
        p = _join(parent, "zm%d" % rng.randrange(W.NMOD))
        if p not in tree_strs:
            return p
    return None


def _imported_ids(drv, f):
    """ids k of the pool modules zm<k> that the file names in any import statement"""
    import re
    try:
        with open(os.path.join(drv.root, *f.split("/")), encoding="utf-8") as fh:
            return sorted(set(int(m) for m in re.findall(r"(?:import|from)\s+zm(\d)\b", fh.read())))
    except OSError:
        return []


def _own_id(p):
    parts = p.split("/")
    nm = parts[-2] if parts[-1] == W.INIT and len(parts) > 1 else parts[-1]
    return W.modid(nm) if nm != W.INIT else None


def _lost_watches(drv, tset):
    """watched resources that no longer exist (indicator None) and could be created again"""
    return sorted(r.path for r, v in drv.project.pycore.observer.resources.items()
                  if not r.exists() and r.path not in tset and r.path.rpartition("/")[0] in tset)


def gen_action(rng, drv, tree):
    """one concrete action valid on the current tree (or None)"""
    stream = drv.stream
    files, folders = _paths(tree)
    tset = set(files) | set(folders)
    if drv.safe_redo > 0 and rng.random() < 0.4:
        return ["redo"]
    if drv.lib and rng.random() < 0.09:
        # the library folder changes behind rope's back
        have = sorted(os.listdir(drv.lib))
        k = rng.random()
        if have and k < 0.7:
            nm = rng.choice(have)
            return ["libedit", nm, gen_lib_text(rng, int(nm[2:-3]))]
        missing = [n for n in ("zl%d.py" % j for j in range(NLIB)) if n not in have]
        if missing and k < 0.85:
            nm = rng.choice(missing)
            return ["libcreate", nm, gen_lib_text(rng, int(nm[2:-3]))]
        if have:
            return ["libremove", rng.choice(have)]

    if rng.random() < 0.04:
        # an editor backup (ignored by the default pattern "*~") is restored under the module's name through rope,
        # or a module is renamed to its backup name
        igs = [f for f in files if f.endswith("~") and f[:-1] not in tset]
        pys = [f for f in files if f.endswith(".py") and not f.endswith(W.INIT) and f + "~" not in tset]
        if igs and (not pys or rng.random() < 0.6):
            f = rng.choice(igs)
            return ["move", f, f[:-1]]
        if pys:
            f = rng.choice(pys)
            return ["move", f, f + "~"]
    txts0 = [f for f in files if f.endswith(".txt")]
    if txts0 and rng.random() < 0.12:
        # a non-Python file is renamed to the name of a module that is imported somewhere but does not exist yet
        wanted = sorted(set("zm%d.py" % k for f in files if f.endswith(".py") for k in _imported_ids(drv, f)
                            if "zm%d.py" % k not in tset and "zm%d" % k not in tset))
        if wanted:
            return ["move", rng.choice(txts0), rng.choice(wanted)]
    lost = _lost_watches(drv, tset)
    if lost and rng.random() < 0.25:
        # re-create a resource whose watch entry is still there: through rope or behind its back
        p = rng.choice(lost)
        isdir = W.is_folder_name(p.split("/")[-1])
        k = rng.random()
        if k < 0.35:
            return ["create_folder" if isdir else "create_file", p]
        if k < 0.6 or isdir:
            return ["external", [["xmkdir" if isdir else "xcreate_file", p]]]
        # re-created behind rope's back, asked for before the next validate, edited again, then validate
        gt = (lambda q: gen_text_a(rng, allow_error=False)) if stream == "A" else (lambda q: gen_text_b(rng, own=_own_id(q)))
        return ["pending", [["x", ["xcreate_file", p]], ["x", ["xwrite", p, gt(p)]], ["q", "load", p],
                            ["x", ["xwrite", p, gt(p) + "# again\n"]]]]
    pyfiles = [f for f in files if f.endswith(".py")]
    gen_text = (lambda p: gen_text_a(rng, allow_error=not p.endswith(W.INIT))) if stream == "A" else \
        (lambda p: gen_text_b(rng, in_package="/" in p, own=_own_id(p)))
    r = rng.random()
    if not files or (r < 0.10 and len(files) < 9):
        # create a module and give it a content, in one change set or as two primitives
        p = _free_file(rng, tset, folders)
        if p is None:
            return None
        if rng.random() < 0.35:
            return ["create_file", p]
        return ["changeset", [["create_file", p], ["write", p, gen_text(p)]]]
    if r < 0.28:
        p = rng.choice(files) if rng.random() < 0.2 else rng.choice(pyfiles or files)
        return ["write", p, gen_text(p)]
    if r < 0.33:
        p = _free_file(rng, tset, folders)
        return None if p is None else ["create_file", p]
    if r < 0.39:
        p = _free_folder(rng, tset, folders)
        if p is None:
            return None
        if rng.random() < 0.5:
            return ["create_folder", p]
        return ["changeset", [["create_folder", p], ["create_file", p + "/" + W.INIT]] +
                ([["create_file", p + "/zm%d.py" % rng.randrange(W.NMOD)]] if rng.random() < 0.5 else [])]
    if r < 0.46:
        src = rng.choice(files)
        dst = _free_file(rng, tset, folders)
        txts = [f for f in files if f.endswith(".txt")]
        if rng.random() < 0.3:
            # a non-Python file becomes a module (shapes.py.disabled -> shapes.py) or a module stops being one
            if txts and rng.random() < 0.6:
                src = rng.choice(txts)
                # preferably under a name that some module imports and that does not resolve yet
                wanted = sorted(set("zm%d.py" % k for f in pyfiles for k in _imported_ids(drv, f)
                                    if "zm%d.py" % k not in tset and "zm%d" % k not in tset))
                if wanted and rng.random() < 0.7:
                    dst = rng.choice(wanted)
                else:
                    for _ in range(8):
                        dst = _join(rng.choice(folders), "zm%d.py" % rng.randrange(W.NMOD))
                        if dst not in tset:
                            break
                    else:
                        dst = None
            elif pyfiles:
                src = rng.choice(pyfiles)
                for _ in range(8):
                    dst = _join(rng.choice(folders), "zt%d.txt" % rng.randrange(W.NTXT))
                    if dst not in tset:
                        break
                else:
                    dst = None
        if dst is None:
            return None
        if dst.endswith(W.INIT) and not tree[W.path_of(src)][1]:
            return None      # model restriction: an __init__.py is always syntactically valid
        return ["move", src, dst]
    if r < 0.52 and len(folders) > 1:
        src = rng.choice(folders[1:])
        dst = _free_folder(rng, tset, folders, exclude_under=src)
        return None if dst is None else ["move", src, dst]
    if r < 0.56:
        p = rng.choice(files + folders[1:])
        return ["remove", p]
    if r < 0.60 and pyfiles:
        src = rng.choice([f for f in pyfiles if not f.endswith(W.INIT)] or [None])
        if src is None:
            return None
        parent = src.rpartition("/")[0]
        for _ in range(6):
            nm = "zm%d" % rng.randrange(W.NMOD)
            if _join(parent, nm + ".py") not in tset and _join(parent, nm) not in tset:
                return ["rename_module", src, nm]
        return None
    if r < 0.63 and pyfiles:
        src = rng.choice([f for f in pyfiles if not f.endswith(W.INIT)] or [None])
        if src is None:
            return None
        dests = [f for f in folders if _join(f, src.rpartition("/")[2]) not in tset and (f + "/" + W.INIT in tset or f == "")]
        return ["move_module", src, rng.choice(dests)] if dests else None
    if r < 0.68:
        return ["undo"]
    if r < 0.71:
        return ["undo"] if drv.safe_undo > 0 else ["redo"]
    if r < 0.80:
        return gen_external(rng, gen_text, tree, drv.root)
    if r < 0.84 and pyfiles:
        # an IDE keeps asking while files change under it: changes and queries interleaved, validate at the end
        p = rng.choice(pyfiles)
        items = [["q", "load", p], ["x", ["xwrite", p, gen_text(p)]], ["q", "load", p]]
        if rng.random() < 0.5:
            c = tree[W.path_of(p)]
            items.append(["q", "resolve", p, rng.choice(list(c[2])) if c[2] else rng.randrange(W.NMOD)])
        items.append(["x", ["xwrite", p, gen_text(p) + "# later\n"]])
        return ["pending", items]
    # controlled queries (stream A only; harmless in B)
    k = rng.random()
    if k < 0.2:
        return ["q", "files"]
    if k < 0.45:
        return ["q", "load", rng.choice(pyfiles + folders[1:] or files)] if (pyfiles or len(folders) > 1) else None
    if k < 0.8 and pyfiles:
        m = rng.choice(pyfiles)
        c = tree[W.path_of(m)]
        n = rng.choice(list(c[2])) if c[2] and rng.random() < 0.9 else rng.randrange(W.NMOD)
        return ["q", "resolve", m, n]
    if len(folders) > 1:
        return ["q", "children", rng.choice(folders[1:])]
    return None


def _syntax_ok(text):
    import ast
    try:
        ast.parse(text.encode("utf-8"))
        return True
    except (SyntaxError, ValueError):
        return False


def gen_external(rng, gen_text, tree, root):
    """1-3 modifications behind rope's back, valid when performed in order.  File rewrites come in the three
    shapes that matter for the (mtime, size) indicator: new mtime + new size, old mtime + new size, new mtime +
    old size.  (Structural changes of a folder are only visible through its mtime: rope's design.)"""
    t = dict(tree)
    xs = []
    sizes = {W.str_of(k): os.path.getsize(os.path.join(root, *W.str_of(k).split("/")))
             for k, n in tree.items() if n is not None}
    orig = dict(sizes)      # the sizes rope may have stored: a rewrite that keeps the mtime must not return to them
    # sometimes everything happens below one folder and only that folder is validated
    all_folders = _paths(t)[1][1:]
    scope = rng.choice(all_folders) if all_folders and rng.random() < 0.3 else ""
    for _ in range(rng.choice([1, 1, 2, 3])):
        files, folders = _paths(t)
        tset = set(files) | set(folders)
        if scope:
            files = [x for x in files if x.startswith(scope + "/")]
            folders = [x for x in folders if x == scope or x.startswith(scope + "/")]
        r = rng.random()
        if r < 0.35 and files:
            p = rng.choice(files)
            text = gen_text(p)
            cur = sizes.get(p)
            shape = rng.random()
            if shape < 0.35 and cur is not None:
                # same modification time, different size
                while len(text.encode("utf-8")) in (cur, orig.get(p)):
                    text += "# pad\n"
                xs.append(["xwrite_keep_mtime", p, text])
            elif shape < 0.55 and cur is not None and cur > 0:
                # new modification time, same size: a comment of the right length replaces the tail
                body = gen_text(p).encode("utf-8")[:max(0, cur - 2)].decode("utf-8", "ignore")
                body = body[:body.rfind("\n") + 1]
                pad = cur - len(body.encode("utf-8"))
                text = body + ("#" * (pad - 1) + "\n" if pad >= 1 else "")
                if len(text.encode("utf-8")) != cur or (p.endswith(W.INIT) and not _syntax_ok(text)):
                    text = gen_text(p)
                xs.append(["xwrite", p, text])
            else:
                xs.append(["xwrite", p, text])
            sizes[p] = len(text.encode("utf-8"))
            t[W.path_of(p)] = ("?", _syntax_ok(text), ())
        elif r < 0.55:
            p = _free_file(rng, tset, folders)
            if p is None:
                continue
            xs.append(["xcreate_file", p])
            t[W.path_of(p)] = ("?", True, ())
            sizes[p] = 0
            if rng.random() < 0.6:
                text = gen_text(p)
                sizes[p] = len(text.encode("utf-8"))
                xs.append(["xwrite", p, text])
                t[W.path_of(p)] = ("?", _syntax_ok(text), ())
        elif r < 0.65:
            p = _free_folder(rng, tset, folders)
            if p is None:
                continue
            xs.append(["xmkdir", p])
            t[W.path_of(p)] = None
            if rng.random() < 0.5:
                xs.append(["xcreate_file", p + "/" + W.INIT])
                t[W.path_of(p + "/" + W.INIT)] = ("?", True, ())
                sizes[p + "/" + W.INIT] = 0
        elif r < 0.80 and (files or len(folders) > 1):
            p = rng.choice(files + folders[1:])
            xs.append(["xremove", p])
            for k in [k for k in sizes if k == p or k.startswith(p + "/")]:
                del sizes[k]
            pp = W.path_of(p)
            for k in [k for k in t if k[:len(pp)] == pp]:
                del t[k]
        elif files or len(folders) > 1:
            src = rng.choice(files + folders[1:])
            if W.is_folder_name(src.split("/")[-1]):
                dst = _free_folder(rng, tset, folders, exclude_under=src)
            else:
                dst = _free_file(rng, tset, folders)
                if dst is not None and dst.endswith(W.INIT) and not t[W.path_of(src)][1]:
                    dst = None
            if dst is None:
                continue
            xs.append(["xmove", src, dst])
            for k in [k for k in sizes if k == src or k.startswith(src + "/")]:
                sizes[dst + k[len(src):]] = sizes.pop(k)
            sp, dp = W.path_of(src), W.path_of(dst)
            for k in [k for k in t if k[:len(sp)] == sp]:
                t[dp + k[len(sp):]] = t.pop(k)
    return ["external", xs, scope] if xs else None


def gen_selection(rng, tree, full=False):
    files, folders = _paths(tree)
    mods = [f for f in files if f.endswith(".py")] + folders[1:]
    sel = {}
    if full:
        sel = {"files": True, "find": ["zm%d" % k for k in range(W.NMOD)], "modules": mods, "occ": []}
    else:
        if rng.random() < 0.5:
            sel["files"] = True
        sel["find"] = ["zm%d" % k for k in range(W.NMOD) if rng.random() < 0.4] + \
                      ["zl%d" % k for k in range(NLIB) if rng.random() < 0.3]
        sel["modules"] = [m for m in mods if rng.random() < 0.5]
        if rng.random() < 0.08:
            sel["copy"] = True
    pys = [f for f in files if f.endswith(".py")]
    if pys and rng.random() < (0.5 if full else 0.12):
        p = rng.choice(pys)
        sel["occ"] = [[p, rng.choice(["x0", "K0", "zm%d" % rng.randrange(W.NMOD), "f0"] +
                                     ["e%d" % k for k in range(W.NMOD)])]]
    return sel


# ----------------------------------------------------------------------------- one history
def run_history(stream, soa, steps=None, rng=None, nsteps=0, full_oracle=False, record=True):
    """Either replays the concrete [steps] or generates [nsteps] steps from rng.
    Returns dict(steps, cases, failure, diagnosis, statuses)."""
    from rope.base import exceptions
    old = os.listdir
    os.listdir = _sorted_listdir
    drv = Driver(stream, soa, record=record)
    out = {"steps": [], "cases": drv.cases, "failure": None, "diagnosis": None, "statuses": [], "events": 0}
    try:
        i = 0
        while True:
            if steps is not None:
                if i >= len(steps):
                    break
                step = steps[i]
            else:
                if i >= nsteps:
                    break
                tree = drv.tree()
                act = gen_action(rng, drv, tree)
                if act is None:
                    act = ["q", "files"]
                step = {"act": act, "sel": None}
            ncases = len(drv.cases)
            try:
                status = drv.perform(step["act"])
            except exceptions.ResourceNotFoundError as e:
                import traceback
                inside = any(fr.name == "_calculate_new_resource" for fr in traceback.extract_tb(e.__traceback__))
                out["steps"].append(dict(step, sel=None))
                out["statuses"].append("raised")
                out["failure"] = {"query": "exception in " + step["act"][0], "warm": "%s: %s" % (type(e).__name__, e),
                                  "fresh": "-", "step": i}
                out["diagnosis"] = FOLDER_SIG if inside else "unexpected-exception:ResourceNotFoundError"
                del drv.cases[ncases:]
                if step["act"][0] == "move" and inside and drv.record:
                    # the tree was changed before the observer raised: one case for the model's [move_raises] branch
                    for pth in (step["act"][1], step["act"][2]):
                        drv.bump(os.path.dirname(os.path.join(drv.root, *pth.split("/"))))
                    drv.case(("rope", ("move", W.path_of(step["act"][1]), W.path_of(step["act"][2]))))
                break
            if steps is None:
                step["sel"] = gen_selection(rng, drv.tree(), full=full_oracle)
            elif full_oracle:
                step = dict(step, sel=gen_selection(random.Random(0), drv.tree(), full=True))
            out["steps"].append(step)
            out["statuses"].append(status)
            bad = drv.oracle(step["sel"])
            if bad is not None:
                stale, dangling = W.stale_cells(drv.project)
                out["failure"] = dict(bad, step=i)
                out["stale_cells"] = [list(x) for x in stale]
                diag = diagnose(drv, stale, dangling)
                if diag == "concluded-data":
                    # the module cache, file list and watched set are coherent: concluded data is out of date.
                    # (Since repo commit b19aaa7 this is a violation whatever its cause; a stale ImportedModule
                    # cell means the fixed defect C13-stale-import-resolution has returned.)
                    if star_cycle(drv):
                        diag = "cyclic-star-import"
                    else:
                        diag = KNOWN_SIG if stale else "concluded-data-out-of-date"
                out["diagnosis"] = diag
                if diag == "cyclic-star-import":
                    # evaluation-order artefact of rope's recursion guards, not a coherence failure: the history ends
                    out["failure"] = None
                    out["order_artefact"] = True
                break
            i += 1
        out["events"] = drv.events
    finally:
        drv.close()
        os.listdir = old
    return out


def diagnose(drv, stale, dangling):
    """structural classification of a warm/fresh disagreement from the live state (model independent)"""
    from rope.base import resourceobserver
    pj = drv.project
    mm = pj.pycore.module_cache.module_map
    # module cache / file list / watched set coherent with the disk?
    for res, pm in mm.items():
        if not res.exists():
            return "cached-module-of-missing-resource"
        if hasattr(pm, "source_code") and not res.is_folder() and pm.source_code != res.read():
            return "cached-module-source-out-of-date"
        if pj.pycore.observer.resources.get(res) != W.reference_indicator(res.real_path):
            return "cached-module-indicator-out-of-date"
    fl = pj.file_list.files
    if fl is not None:
        fp = drv.new_project(drv.root)
        try:
            if set(r.path for r in fl) != set(r.path for r in fp.get_files()):
                return "file-list-out-of-date"
        finally:
            fp.close()
    if dangling:
        return "cell-points-to-uncached-module-object"
    return "concluded-data"


def star_cycle(drv):
    """is there a cycle of `from m import *` among the modules on disk (resolved like a brand-new project does)?"""
    import ast
    fp = drv.new_project(drv.root)
    edges = {}
    try:
        for f in fp.get_python_files():
            try:
                tree = ast.parse(f.read())
            except (SyntaxError, ValueError):
                continue
            for node in tree.body:
                if isinstance(node, ast.ImportFrom) and any(a.name == "*" for a in node.names):
                    try:
                        if node.level == 0:
                            t = fp.find_module(node.module, f.parent)
                        else:
                            t = fp.find_relative_module(node.module or "", f.parent, node.level)
                    except Exception:
                        t = None
                    if t is not None and t.is_folder():
                        t = t.get_child(W.INIT) if t.has_child(W.INIT) else None
                    if t is not None:
                        edges.setdefault(f.path, set()).add(t.path)
    finally:
        fp.close()
    state = {}

    def visit(n):
        state[n] = 1
        for m in edges.get(n, ()):
            if state.get(m) == 1 or (m not in state and visit(m)):
                return True
        state[n] = 2
        return False
    return any(visit(n) for n in list(edges) if n not in state)


def signature(obj):
    if obj.get("kind") in ("history", "autoimport-history"):
        return obj.get("diagnosis")
    return None


# ----------------------------------------------------------------------------- Coq side
def case_term(c):
    pre, kind, post = c
    if kind[0] == "rope":
        k = "(KStep (ORope %s) None)" % W.g_xop(kind[1])
    elif kind[0] == "ext":
        k = "(KStep (OExternal %s %s) None)" % (W.g_path(kind[2]), g_list([W.g_xop(x) for x in kind[1]]))
    elif kind[0] == "pendx":
        k = "(KPendX %s)" % W.g_xop(kind[1])
    elif kind[0] == "validate":
        k = "(KValidate %s)" % W.g_path(kind[1])
    elif kind[0] == "q":
        k = "(KStep (OQuery %s) (Some %s))" % (W.g_query(kind[1]), W.g_answer(kind[2]))
    else:
        k = "KFree"
    return "{| c_pre := %s;\n    c_kind := %s;\n    c_post := %s |}" % (W.g_state(pre), k, W.g_state(post))


MISMATCH = {1: "directory tree", 2: "module cache (module_map)", 3: "concluded ImportedModule cells",
            4: "cached file list", 5: "watched resources / indicators", 6: "answer of the query",
            7: "the tree changed during read-only activity"}


def check_cases(ctx, tagged):
    """tagged: list of (history_index, case).  Returns {history_index: [(case_index_in_history, code)]} and flags."""
    shard = 250
    bodies = []
    for s in range(0, len(tagged), shard):
        terms = [case_term(c) for _, c in tagged[s:s + shard]]
        bodies.append(HEADER + "Definition cases : list case := %s.\nEval vm_compute in (mismatches cases).\n"
                      "Eval vm_compute in (all_flags cases).\n" % g_list(terms).replace("; {|", ";\n {|"))
    outs = ctx.coq_files_parallel(bodies) if bodies else []
    mism, flags = {}, []
    for si, out in enumerate(outs):
        pairs = ctx.parse_pairs(out)
        for (i, code) in (pairs[0] if pairs else []):
            mism[si * shard + i] = code
        nums = ctx.parse_nums(out)
        flags.extend(nums[-1] if nums else [])
    return mism, flags


def run(ctx):
    ctx.rule = (
        "histories of 8-25 steps drawn from one PRNG over a pool of 5 module names (folder zm<k>, file zm<k>.py), "
        "__init__.py and 2 text files, depth <= 3: write / create / move / remove of files, folders and packages through "
        "rope (primitives and change sets), Rename and MoveModule of modules, undo / redo, 1-3 changes behind rope's "
        "back (os calls; rewrites that bump the mtime, that keep the old mtime but change the size, that keep the size) "
        "followed by project.validate(), moves between non-Python and Python file names, controlled queries (get_files, get_pymodule, "
        "resolution of an imported name, package children); automatic_soa on and off. Stream A (model correspondence + "
        "oracle): sources are imports, assignments, defs, classes, 8% with a syntax error; every primitive event / "
        "external batch / query is one Coq case (pre-state, operation, post-state). Stream B (oracle only): from-imports, "
        "star imports, relative imports, calls, instances, inherited classes. Stream C (oracle only): the sqlite global-name "
        "index of rope.contrib.autoimport (observe=True) vs a brand-new index on a copy of the directory. After every step a drawn subset of rich "
        "queries is answered by the long-lived project and by a brand-new Project on the same directory (8%: also on a "
        "copy). A history is non-trivial when it has >= 5 observer events and at least one cache-filling query; distinct "
        "by the concrete step list.")
    ctx.assumptions += [
        "os.listdir is wrapped to return sorted names while histories run (rope's find_module search order among sibling "
        "source folders follows the OS listing order; the model uses the sorted order)",
        "every resource respects the naming discipline (extension <=> file), __init__.py files are syntactically valid, "
        "no module of the pool exists on sys.path",
        "external modifications change at least one component of the (mtime, size) indicator (DESIGN's indicator_sound): "
        "file rewrites come with new mtime + any size, OLD mtime + different size, new mtime + same size; structural "
        "changes bump the mtime of the folders involved (a folder's size does not tell: rope's design); the reference "
        "indicator used to abstract the watched set is computed by the harness, not by rope",
    ]
    _check_pool_names()
    ctx.extra["model_variant"] = "fix_move = fix_forget = true (repo commits d932e8e, b19aaa7)"
    nA = ctx.scale(45, 700)
    nB = ctx.scale(40, 450)
    tagged = []
    hist_info = {}
    hidx = 0
    for stream, n in (("A", nA), ("B", nB)):
        for _ in range(n):
            hseed = ctx.rng.getrandbits(48)
            rng = random.Random(hseed)
            soa = rng.random() < 0.7
            nsteps = rng.randint(8, 25)
            res = run_history(stream, soa, rng=rng, nsteps=nsteps)
            canonical = json.dumps([stream, soa, res["steps"]], sort_keys=True)
            queries = sum(1 for s in res["steps"] if s["sel"] and (s["sel"].get("modules") or s["sel"].get("files")))
            ctx.case(canonical, nontrivial=res["events"] >= 5 and queries >= 1)
            ctx.traces += 1
            ctx.count("stream:" + stream)
            ctx.count("soa:" + ("on" if soa else "off"))
            for s, status in zip(res["steps"], res["statuses"]):
                ctx.count("act:" + s["act"][0] + ("" if s["act"][0] != "q" else ":" + s["act"][1]) +
                          ("" if status == "done" else ":" + status.split(":")[0]))
                if s["act"][0] == "external":
                    for x in s["act"][1]:
                        ctx.count("xop:" + x[0])
                if s["act"][0] == "move" and s["act"][1].endswith(".txt") != s["act"][2].endswith(".txt"):
                    ctx.count("act:move between a non-Python and a Python file name")
                if s["act"][0] == "move" and s["act"][1].endswith("~") != s["act"][2].endswith("~"):
                    ctx.count("act:move between an ignored and a non-ignored name")
            ctx.count("events", res["events"])
            hist_info[hidx] = (stream, soa, res)
            if res.get("order_artefact"):
                ctx.count("ended:cyclic star import (evaluation-order artefact, not counted as failure)")
            if res["failure"] is not None:
                report_failure(ctx, stream, soa, res)
            for c in res["cases"]:
                tagged.append((hidx, c))
            hidx += 1
            if ctx.too_many():
                return
    # the replays of the two fixed defects are also correspondence cases (model variant with both fixes)
    fdir = os.path.join(os.path.dirname(os.path.dirname(os.path.abspath(__file__))), "corpus", "C13")
    for fn in ("shadowing-creation.json", "folder-move-raises.json"):
        fp = os.path.join(fdir, fn)
        if os.path.exists(fp):
            obj = json.load(open(fp))
            res = run_history(obj["stream"], obj["soa"], steps=obj["steps"])
            hist_info[hidx] = (obj["stream"], obj["soa"], res)
            ctx.count("corpus_replayed_as_cases")
            for c in res["cases"]:
                tagged.append((hidx, c))
            hidx += 1
    ctx.extra["coq_cases"] = len(tagged)
    mism, flags = check_cases(ctx, tagged)
    dom = inside = ref = coh_real = 0
    reported = set()
    for gi, (h, c) in enumerate(tagged):
        fl = flags[gi] if gi < len(flags) else 0
        kind = c[1][0]
        ctx.count("case:" + kind)
        coh_pre, coh_post, unaff = bool(fl & 2), bool(fl & 8), bool(fl & 16) and bool(fl & 128)
        if kind == "pendx" and not fl & 128:
            ctx.count("pending change NOT x_sound")
        if kind == "validate" and not coh_post and gi not in mism and h not in reported:
            reported.add(h)
            report_model(ctx, hist_info[h], gi, c, "real state after validate() violates Coherent although the preceding "
                         "changes behind rope's back were visible in the indicators (C13_validate_after_queries)")
        if kind == "ext":
            ctx.count("ext batch: " + ("validate(sub-folder)" if c[1][2] else "validate()") +
                      (", ext_ok (confined and visible in the indicators)" if fl & 128 else ", NOT ext_ok"))
        if fl & 64:
            ctx.count("case:rope raises (model branch move_raises)")
        if kind == "pendx":
            pass        # between a change behind rope's back and validate nothing is claimed (C13_validate_after_queries)
        elif coh_pre:
            dom += 1
            if fl & 64:
                ref += 1
            elif unaff:
                inside += 1
                if not coh_post and gi not in mism and h not in reported:
                    reported.add(h)
                    report_model(ctx, hist_info[h], gi, c, "real post-state violates Coherent although the step is inside "
                                 "the domain of C13_coherent_inv_partial")
            else:
                ref += 1
        if coh_post:
            coh_real += 1
        if kind == "q" and coh_pre and not (fl & 32) and h not in reported:
            reported.add(h)
            report_model(ctx, hist_info[h], gi, c, "model: warm answer differs from fresh answer in a Coherent state")
        if gi in mism and h not in reported:
            reported.add(h)
            report_model(ctx, hist_info[h], gi, c, "model and rope disagree on: " + MISMATCH.get(mism[gi], str(mism[gi])))
        if ctx.too_many():
            break
    ctx.extra["cases_with_coherent_pre_state"] = dom
    ctx.extra["cases_in_domain_of_C13_coherent_inv_partial"] = inside
    ctx.extra["cases_with_find_module_answer_changed_for_a_live_cell"] = ref
    ctx.extra["real_states_satisfying_Coherent"] = coh_real
    from harness import c13_autoimport
    c13_autoimport.run(ctx)
    for h in list(hist_info)[:2]:
        stream, soa, res = hist_info[h]
        ctx.sample({"stream": stream, "automatic_soa": soa, "steps": [s["act"] for s in res["steps"]][:12]})


def report_failure(ctx, stream, soa, res):
    obj = {"kind": "history", "stream": stream, "soa": soa, "steps": res["steps"], "failure": res["failure"],
           "diagnosis": res["diagnosis"], "stale_cells": res.get("stale_cells")}
    small = shrink(obj)
    f = small["failure"]
    ctx.violation(small, "C13: after %d steps the long-lived project answers %s differently from a brand-new project "
                  "(%s): warm %s / fresh %s" % (len(small["steps"]), f["query"], small["diagnosis"], f["warm"][:200], f["fresh"][:200]))


def report_model(ctx, info, gi, c, what):
    stream, soa, res = info
    # the oracle passed on this history: look for a failing input in its neighbourhood
    found = None
    steps = res["steps"]
    for attempt in range(4):
        rr = run_history(stream, soa, steps=steps, full_oracle=True, record=False) if attempt == 0 else \
            run_history(stream, soa, rng=random.Random("nb-%d-%d" % (gi, attempt)), nsteps=25, full_oracle=True, record=False)
        if rr["failure"] is not None:
            found = rr
            break
    if found is not None:
        report_failure(ctx, stream, soa, found)
        return
    ctx.violation({"kind": "model-mismatch", "stream": stream, "soa": soa, "steps": steps, "case_index": gi,
                   "operation": repr(c[1])[:600], "what": what,
                   "broken": "correspondence RopeVerif.C13.Runner.run_case (Observer.step / run_query vs rope's observers "
                             "and caches); theorems C13_cache_coherent_inv, C13_coherent_inv_partial, C13_query_agrees, "
                             "C13_validate_catches_up no longer speak about the code"},
                  "C13: %s (operation %s)" % (what, repr(c[1])[:200]), no_input=True)


def shrink(obj):
    """greedy removal of steps while the same diagnosis is reproduced"""
    steps = list(obj["steps"][:obj["failure"]["step"] + 1])
    best = dict(obj, steps=steps)
    budget = 60
    i = len(steps) - 2
    while i >= 0 and budget > 0:
        cand = steps[:i] + steps[i + 1:]
        budget -= 1
        try:
            rr = run_history(obj["stream"], obj["soa"], steps=cand, record=False)
        except Exception:
            rr = {"failure": None}
        if rr["failure"] is not None and rr["diagnosis"] == obj["diagnosis"]:
            steps = cand[:rr["failure"]["step"] + 1]
            best = dict(obj, steps=steps, failure=rr["failure"], stale_cells=rr.get("stale_cells"))
            i = min(i, len(steps) - 1)
        i -= 1
    return best


def _check_pool_names():
    from rope.base.project import Project
    root = tempfile.mkdtemp(prefix="ropeverif-c13n-")
    try:
        p = Project(root, ropefolder=None)
        for k in range(W.NMOD):
            assert p.find_module("zm%d" % k) is None, "zm%d is importable from sys.path" % k
        for k in range(NLIB):
            assert p.find_module("zl%d" % k) is None, "zl%d is importable from sys.path" % k
        p.close()
    finally:
        shutil.rmtree(root, ignore_errors=True)


def replay(ctx, obj):
    """True iff the property fails on the recorded history."""
    if obj.get("kind") == "autoimport-history":
        from harness import c13_autoimport
        return c13_autoimport.replay(ctx, obj)
    if obj.get("kind") == "history":
        try:
            rr = run_history(obj["stream"], obj["soa"], steps=obj["steps"], record=False)
        except Exception:
            import traceback
            traceback.print_exc()
            return True
        return rr["failure"] is not None
    return False
