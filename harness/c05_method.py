"""C05 MoveMethod stream: execution oracle only (MoveMethod is not modelled in Coq).

A generated project has a class A with an attribute holding an instance of class B (same module or another
one), and a method of A that uses its parameters, optionally self (the "host"), a module-level import and a
global helper.  The real MoveMethod moves the method to the attribute's class; the old method delegates.  An
entry module calls the method before and after; the printed result must be identical and every module must
still import."""
import json
import os
import shutil
import subprocess
import tempfile

from harness import c05_lib as L

RUNNER = r'''
import sys, json, importlib
root = sys.argv[1]
sys.path.insert(0, root)
sys.dont_write_bytecode = True
out = {}
for name in json.loads(sys.argv[2]):
    try:
        mod = importlib.import_module(name)
        out[name] = ["ok", repr(mod.main()) if hasattr(mod, "main") else None]
    except BaseException as e:
        out[name] = ["error", type(e).__name__ + ": " + str(e)[:160]]
print(json.dumps(out))
'''


def gen_project(rng, idx=None):
    same_module = rng.random() < 0.4
    in_pkg = rng.random() < 0.5
    uses_self = rng.random() < 0.6
    uses_import = rng.random() < 0.5
    uses_helper = rng.random() < 0.4
    params = rng.choice(["", "x", "x, y=2", "x, *rest", "x, y=2, **kw"])
    # where the imported module is used: in the body, only on the def line (a default value), or in a
    # one-line method whose whole body is on the def line
    import_use = rng.choice(["body", "body", "default", "one_line"]) if uses_import else None
    if idx is not None and idx % 3 != 2:
        # every run moves methods whose def line alone uses the import, across modules
        uses_import, same_module = True, False
        import_use = ["default", "one_line"][idx % 3]
        if import_use == "default" and ("*" in params):
            params = "x"
    b_has_body = rng.random() < 0.5
    attr_in_init = rng.random() < 0.5
    files = {}
    pkg = "a/" if in_pkg else ""
    if in_pkg:
        files["a/__init__.py"] = ""
    files["lib.py"] = "def val():\n    return 7\n"
    bsrc = ["class B(object):"]
    bsrc.append("    tag = 'b'" if b_has_body else "    pass")
    bmod = pkg + "bmod.py"
    amod = pkg + "amod.py"
    lines = []
    if uses_import:
        lines.append("import lib")
    if not same_module:
        files[bmod] = "".join(x + "\n" for x in bsrc)
        bname = "bmod.B"
        lines.append(("from . import bmod" if in_pkg and rng.random() < 0.5 else
                      "import %sbmod" % ("a." if in_pkg else "")))
        if lines[-1].startswith("import a."):
            bname = "a.bmod.B"
    else:
        lines += bsrc
        bname = "B"
    if uses_helper:
        lines += ["def helper(v):", "    return v * 2"]
    lines.append("class A(object):")
    if attr_in_init:
        lines += ["    def __init__(self):", "        self.attr = %s()" % bname, "        self.n = 3"]
    else:
        lines += ["    attr = %s()" % bname, "    n = 3"]
    header_params = params
    if import_use == "default":
        header_params = (params + ", " if params else "") + "q=lib.val()" if "**" not in params and "*rest" not in params \
            else params
        if header_params == params:
            import_use = "body"
    expr = "1"
    if "x" in params:
        expr += " + x"
    if "y" in params:
        expr += " + y"
    if "rest" in params:
        expr += " + len(rest)"
    if "kw" in params:
        expr += " + len(kw)"
    if uses_self:
        expr += " + self.n"
    if uses_import:
        expr += " + q" if import_use == "default" else " + lib.val()"
    if uses_helper:
        expr = "helper(%s)" % expr
    if import_use == "one_line":
        lines.append("    def meth(self%s): return %s" % (", " + header_params if header_params else "", expr))
    else:
        lines.append("    def meth(self%s):" % (", " + header_params if header_params else ""))
        lines.append("        r = %s" % expr)
        lines.append("        return r")
    files[amod] = "".join(x + "\n" for x in lines)
    args = {"": "", "x": "5", "x, y=2": "5, y=4", "x, *rest": "5, 6, 7", "x, y=2, **kw": "5, z=1"}[params]
    files["entry.py"] = ("from %samod import A\n" % ("a." if in_pkg else "") +
                         "def main():\n    return A().meth(%s)\n" % args)
    return {"files": files, "amod": amod,
            "features": {"same_module": same_module, "in_pkg": in_pkg, "uses_self": uses_self,
                         "uses_import": uses_import, "uses_helper": uses_helper, "params": params,
                         "import_use": import_use,
                         "attr_in_init": attr_in_init}}


def run_names(root, files):
    names = [L.modname_of_rel(r) for r in files if L.modname_of_rel(r)]
    p = subprocess.run([L.PY, "-I", "-c", RUNNER, root, json.dumps(names)], stdout=subprocess.PIPE,
                       stderr=subprocess.PIPE, text=True, timeout=120)
    if p.returncode != 0:
        raise RuntimeError("runner failed: " + p.stderr[-1500:])
    return json.loads(p.stdout)


def run_one(proj):
    root = tempfile.mkdtemp(prefix="ropeverif-")
    try:
        for rel, text in proj["files"].items():
            fp = os.path.join(root, rel)
            os.makedirs(os.path.dirname(fp), exist_ok=True)
            with open(fp, "w") as f:
                f.write(text)
        before = run_names(root, proj["files"])
        from rope.refactor import move
        project = L.new_project(root)
        raised = None
        try:
            res = project.get_resource(proj["amod"])
            offset = res.read().index("def meth(") + 4
            mover = move.create_move(project, res, offset)
            project.do(mover.get_changes("attr", "moved_meth"))
        except Exception as e:
            raised = type(e).__name__ + ": " + str(e)[:200]
        finally:
            project.close()
        texts, _ = L.read_tree_text(root)
        after = run_names(root, proj["files"])
        return raised, before, after, texts
    finally:
        shutil.rmtree(root, ignore_errors=True)


def verdict(before, after):
    for name, b in sorted(before.items()):
        if b[0] != "ok":
            continue
        a = after.get(name)
        if a is None or a[0] != "ok":
            return "module %s no longer works: %s" % (name, a and a[1])
        if a[1] != b[1]:
            return "module %s: main() returns %s instead of %s" % (name, a[1], b[1])
    return None


def signature(obj):
    f = obj.get("features", {})
    if f.get("uses_helper") and not f.get("same_module"):
        # predicted failure: the moved body names the helper, which the destination module does not have
        return "movemethod:uses-global-of-source-module:" + obj.get("failure", "?")
    return "movemethod:" + ",".join(k for k in sorted(f) if f[k] is True)


def replay(ctx, obj):
    raised, before, after, _ = run_one(obj)
    return verdict(before, after) is not None


def run(ctx):
    n = ctx.scale(10, 80)
    for pi in range(n):
        proj = gen_project(ctx.rng, pi)
        raised, before, after, texts = run_one(proj)
        ctx.traces += 1
        ctx.case(("mm", json.dumps(proj["files"], sort_keys=True)), nontrivial=not raised)
        ctx.count("movemethod:" + ("refused" if raised else "done"))
        for k, v in proj["features"].items():
            if v is True:
                ctx.count("movemethod:feature:" + k)
        if before.get("entry", ["error"])[0] != "ok":
            ctx.count("movemethod:generator_invalid")
            continue
        bad = verdict(before, after)
        if bad:
            obj = {"kind": "movemethod", "files": proj["files"], "amod": proj["amod"], "features": proj["features"],
                   "failure": ("NameError:helper" if "NameError: name 'helper'" in bad else "other")}
            ctx.violation(obj, "C05 MoveMethod: " + bad)
        if ctx.too_many():
            break
    ctx.extra["movemethod_rule"] = ("class A with attribute attr = B() (class attribute or assigned in __init__; B in the "
                                    "same or another module, package or flat), method with 5 parameter shapes using "
                                    "self / an imported module / a global helper; MoveMethod to attr; entry module run "
                                    "before and after; execution oracle only")
