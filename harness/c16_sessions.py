"""C16 — sessions: sequences of reads / edits / undos / redos / external rewrites / reopenings on ONE live project
and one File object, with a byte oracle after every step, compared step by step with coq/C16/Session.v.

What is at stake is the `newlines` attribute of File objects across several reads and writes (and which object a
ChangeContents in the history holds), under automatic_soa on/off and for Python / non-Python files.
"""
import codecs
import os
import shutil
import tempfile
import warnings

from harness.common import g_N, g_bool, g_list, g_text, g_pair
from harness import c16

NLC = {None: 3, "\n": 0, "\r\n": 1, "\r": 2}
KINDS = {"read": "SRead", "undo": "SUndo", "redo": "SRedo", "reopen": "SReopen"}


def txt(cps):
    return "".join(chr(c) for c in cps)


def cps(s):
    return [ord(c) for c in s]


# --------------------------------------------------------------------------------------------- rope driver
class SessionImpl:
    def __init__(self, data, py, soa, ropefolder):
        c16.rope_ready()
        from rope.base.project import Project
        self.Project = Project
        self.root = tempfile.mkdtemp(prefix="ropeverif-")
        self.name = "m.py" if py else "notes.txt"
        self.path = os.path.join(self.root, self.name)
        with open(self.path, "wb") as f:
            f.write(data)
        self.kw = {"automatic_soa": soa}
        if not ropefolder:
            self.kw["ropefolder"] = None
        self.writes = 0
        self._open()

    def _open(self):
        self.project = self.Project(self.root, **self.kw)
        fsc = self.project.fscommands
        orig = fsc.write

        def counting_write(path, data, _orig=orig):
            self.writes += 1
            return _orig(path, data)
        fsc.write = counting_write
        self.f = self.project.get_file(self.name)

    def disk(self):
        with open(self.path, "rb") as f:
            return f.read()

    def close(self):
        try:
            self.project.close()
        finally:
            shutil.rmtree(self.root, ignore_errors=True)

    def step(self, st):
        with warnings.catch_warnings():
            warnings.simplefilter("ignore")
            return self._step(st)

    def _step(self, st):
        from rope.base.change import ChangeContents, ChangeSet
        from rope.base.exceptions import HistoryError
        kind = st[0]
        exc = None
        try:
            if kind == "read":
                self.f.read()
                code = 4
            elif kind == "write":
                before = self.writes
                self.f.write(txt(st[1]))
                code = 0 if self.writes > before else 1
            elif kind in ("dofresh", "dosame"):
                res = self.project.get_file(self.name) if kind == "dofresh" else self.f
                cs = ChangeSet("edit")
                cs.add_change(ChangeContents(res, txt(st[1])))
                self.project.do(cs)
                code = 0
            elif kind == "undo":
                self.project.history.undo()
                code = 0
            elif kind == "redo":
                self.project.history.redo()
                code = 0
            elif kind == "external":
                with open(self.path, "wb") as f:
                    f.write(bytes.fromhex(st[1]))
                self.project.validate()
                code = 6
            elif kind == "reopen":
                self.project.close()
                self._open()
                code = 7
            else:
                raise ValueError(kind)
        except LookupError:
            code = 2
        except UnicodeEncodeError:
            code = 3
        except HistoryError:
            code = 5
        except Exception as e:      # nothing else is foreseen by the model
            code = 9
            exc = repr(e)
        disk = self.disk()
        with warnings.catch_warnings():
            warnings.simplefilter("ignore")
            reread = self.project.get_file(self.name).read()       # a fresh object: no state is touched
        return {"code": code, "disk": disk, "nl": NLC[self.f.newlines], "reread": reread, "exc": exc}


def run_session(data, py, soa, ropefolder, steps):
    impl = SessionImpl(data, py, soa, ropefolder)
    try:
        return [impl.step(st) for st in steps]
    finally:
        impl.close()


# --------------------------------------------------------------------------------------------- oracle
def session_oracle(data, steps, obs):
    """Returns (index of the first failing step, message) or (None, None).  Judged from bytes on disk only.
    undo / redo have to restore exactly the bytes the file had before / after the change, as long as the file is
    still as that change left it and nothing rewrote the file outside rope since the change was last used (after an
    external conversion the File objects and the disk may legitimately disagree about the convention: then only the
    TEXT has to come back, in the declared encoding and one convention); an edit has to produce the new text in the
    file's declared encoding and newline convention (any convention if the file has no line break at that moment)."""
    disk = data
    undo, redo = [], []
    for k, (st, o) in enumerate(zip(steps, obs)):
        kind = st[0]
        after = o["disk"]
        fail = None
        if o["code"] == 9:
            fail = "unexpected exception %s" % o["exc"]
        elif kind in ("read", "reopen"):
            if after != disk:
                fail = "%s changed the bytes on disk" % kind
        elif kind == "external":
            for e in undo + redo:
                e["tainted"] = True
        elif kind in ("write", "dofresh", "dosame"):
            new = txt(st[1])
            tag, fail = c16.edit_oracle(disk, new, kind == "write", o["code"], after, o["reread"], lenient_no_break=True)
            if o["code"] == 0:
                undo.append({"before": disk, "after": after, "tainted": False})
                redo = []
        elif kind in ("undo", "redo"):
            src, dst, want = (undo, redo, "before") if kind == "undo" else (redo, undo, "after")
            have = "after" if kind == "undo" else "before"
            if not src:
                if o["code"] != 5 or after != disk:
                    fail = "%s with an empty list: outcome %s" % (kind, o["code"])
            else:
                e = src[-1]
                if o["code"] == 0:
                    src.pop()
                    dst.append(e)
                    if e["tainted"]:
                        specs = [c16.spec_of_bytes(x) for x in (after, e[want], disk, e[have])]
                        if None not in specs and specs[2][1] == specs[3][1] and specs[0][1] != specs[1][1]:
                            fail = "%s does not bring back the text the file had %s the change" % (kind, want)
                    elif disk == e[have] and after != e[want]:
                        fail = "%s does not restore the bytes the file had %s the change: %r instead of %r" % (
                            kind, want, after[:120], e[want][:120])
                elif after != disk:
                    fail = "%s was refused (outcome %s) but the bytes on disk changed" % (kind, o["code"])
        if fail:
            return k, fail
        disk = after
    return None, None


# --------------------------------------------------------------------------------------------- generator
MODEL_OK = lambda enc_key: (enc_key in c16.STD or enc_key in [codecs.lookup(n).name for n in c16.CHARMAP_NAMES])


def current_text(disk):
    spec = c16.spec_of_bytes(disk)
    if spec is not None:
        return spec[1], spec[0]
    return disk.decode("latin-1").replace("\r\n", "\n").replace("\r", "\n"), None


def edit_text(rng, text, pool):
    lines = text.split("\n")
    k = rng.random()
    if k < 0.12:
        return lines[0] if lines[0] else "value = 1"            # collapses the file to one line without line break
    if k < 0.16:
        return ""
    if k < 0.24:
        return text
    if k < 0.30:
        return lines[0] + "\n"
    head = "\n".join(lines[:2]) + ("\n" if len(lines) > 2 else "")
    start_min = min(len(head), len(text))
    i = rng.randint(start_min, len(text))
    j = min(len(text), i + rng.choice([0, 0, 1, 3, 8, 40]))
    ins_lines = c16.gen_body(rng, pool, 0, 3)
    ins = "\n".join(ins_lines) + ("\n" if ins_lines and rng.random() < 0.6 else "")
    new = text[:i] + ins + text[j:]
    if rng.random() < 0.15 and not new.endswith("\n"):
        new += "\n"
    return new


def convert_newlines(rng, disk):
    t = disk.decode("latin-1").replace("\r\n", "\n").replace("\r", "\n")
    return t.replace("\n", rng.choice(["\n", "\r\n", "\r"])).encode("latin-1")


def gen_session(rng):
    """Generates the steps while executing them (the next edit is made from the bytes on disk)."""
    while True:
        base = c16.gen_valid(rng)
        if len(base["data"]) < 400:
            break
    data = base["data"]
    enc_key = base["intent"]["encoding"]
    pool = c16.POOL[enc_key]
    py = rng.random() < 0.7
    soa = rng.random() < 0.6
    ropefolder = rng.random() < 0.3
    impl = SessionImpl(data, py, soa, ropefolder)
    steps, obs = [], []
    try:
        for _ in range(rng.randint(3, 8)):
            disk = impl.disk()
            text, _enc = current_text(disk)
            k = rng.random()
            if k < 0.08:
                st = ["read"]
            elif k < 0.30:
                st = ["write", cps(edit_text(rng, text, pool))]
            elif k < 0.45:
                st = ["dofresh", cps(edit_text(rng, text, pool))]
            elif k < 0.55:
                st = ["dosame", cps(edit_text(rng, text, pool))]
            elif k < 0.72:
                st = ["undo"]
            elif k < 0.82:
                st = ["redo"]
            elif k < 0.94:
                if rng.random() < 0.8:
                    st = ["external", convert_newlines(rng, disk).hex()]
                else:
                    st = ["external", c16.gen_valid(rng)["data"][:400].hex()]
            elif ropefolder:
                st = ["reopen"]
            else:
                st = ["read"]
            steps.append(st)
            obs.append(impl.step(st))
    finally:
        impl.close()
    return {"data": data, "py": py, "soa": soa, "ropefolder": ropefolder, "steps": steps, "encoding": enc_key}, obs


FIXED_SESSIONS = []
for _data, _one in ((b"import os\r\nvalue = 1", "value = 1"), (b"import os\rvalue = 1\r", "value = 1"),
                    ("# coding: latin-1\r\ns = '\xe9'\r\n".encode("latin-1"), "# coding: latin-1")):
    _t = _data.decode("latin-1").replace("\r\n", "\n").replace("\r", "\n")
    for _py in (True, False):
        for _soa in (True, False):
            # an edit collapses the file to one line, undo / redo; then an edit that brings line breaks back
            FIXED_SESSIONS.append({"data": _data, "py": _py, "soa": _soa, "ropefolder": False,
                                   "steps": [["write", cps(_one)], ["undo"], ["redo"], ["write", cps(_t + "z = 3\n")]]})
            # external conversion between two edits through the same File object
            FIXED_SESSIONS.append({"data": _data, "py": _py, "soa": _soa, "ropefolder": False,
                                   "steps": [["read"], ["external", _t.encode("latin-1").hex()],
                                             ["write", cps(_t + "z = 3\n")], ["external", _data.hex()],
                                             ["dosame", cps(_t + "y = 2\n")], ["undo"]]})
    # the open finding: collapse, close/reopen, undo (and the same within one session, which must restore)
    FIXED_SESSIONS.append({"data": _data, "py": True, "soa": False, "ropefolder": True,
                           "steps": [["write", cps(_one)], ["reopen"], ["undo"]]})
    FIXED_SESSIONS.append({"data": _data, "py": False, "soa": False, "ropefolder": True,
                           "steps": [["dosame", cps(_one)], ["read"], ["undo"], ["redo"], ["read"], ["undo"]]})
    # edit, undo, close/reopen, redo, undo (history reloaded with old_contents)
    FIXED_SESSIONS.append({"data": _data, "py": True, "soa": True, "ropefolder": True,
                           "steps": [["write", cps(_t + "z = 3\n")], ["undo"], ["reopen"], ["redo"], ["undo"], ["read"]]})


# --------------------------------------------------------------------------------------------- Gallina
def g_step(st):
    kind = st[0]
    if kind in KINDS:
        return KINDS[kind]
    if kind == "write":
        return "(SWrite %s)" % g_text(txt(st[1]))
    if kind == "dofresh":
        return "(SDoFresh %s)" % g_text(txt(st[1]))
    if kind == "dosame":
        return "(SDoSame %s)" % g_text(txt(st[1]))
    if kind == "external":
        return "(SExternal %s)" % c16.g_bytes(bytes.fromhex(st[1]))
    raise ValueError(kind)


def session_names(sess, obs):
    """codec names that can be asked for during the session (every byte string on disk and every text written)."""
    from rope.base import fscommands
    names = set()
    srcs = [sess["data"]] + [o["disk"] for o in obs]
    for st in sess["steps"]:
        if st[0] in ("write", "dofresh", "dosame"):
            for nl in ("\n", "\r\n", "\r"):
                srcs.append(txt(st[1]).replace("\n", nl).encode("utf-8", "replace"))
        if st[0] == "external":
            srcs.append(bytes.fromhex(st[1]))
    for s in srcs:
        for variant in (s, s.replace(b"\r\n", b"\n").replace(b"\r", b"\n")):
            n = c16.py_cookie_name(variant.split(b"\n", 2)[:2])
            if n is not None:
                names.add(n)
        try:
            n = fscommands.read_str_coding(s)
            if n is not None:
                names.add(n)
        except Exception:
            pass
    return names


def session_term(sess, obs):
    """Gallina term, or None when a codec of the session is not implemented by the model."""
    tbls = []
    for name in sorted(session_names(sess, obs)):
        k = c16.classify_name(name)
        if k[0] == "tbl":
            tbls.append(g_pair(g_text(name), g_list([g_N(x) for x in k[1]])))
        elif k[0] == "unmodelled":
            return None
    if any(o["code"] == 9 for o in obs):
        pass
    return ("{| sc_bytes := %s; sc_tbls := %s; sc_unknown := []; sc_soa := %s; sc_steps := %s; sc_obs := %s |}" % (
        c16.g_bytes(sess["data"]), g_list(tbls), g_bool(sess["soa"] and sess["py"]),
        g_list([g_step(st) for st in sess["steps"]]),
        g_list(["(%s, %s, %s)" % (g_N(o["code"]), c16.g_bytes(o["disk"]), g_N(o["nl"])) for o in obs])))


HEADER = ("From Coq Require Import List NArith Bool.\nImport ListNotations.\n"
          "From RopeVerif.C16 Require Import Newlines Codec Cookie FileModel Session Runner.\n")


def evaluate(ctx, sessions, all_obs):
    terms, index = [], []
    for i, (s, o) in enumerate(zip(sessions, all_obs)):
        t = session_term(s, o)
        if t is not None:
            terms.append(t)
            index.append(i)
    mism = {}
    shard = 60
    bodies = []
    for a in range(0, len(terms), shard):
        bodies.append(HEADER + "Definition cases : list scase := %s.\nEval vm_compute in (smismatches cases).\n" %
                      g_list(terms[a:a + shard]).replace("; {|", ";\n {|"))
    outs = ctx.coq_files_parallel(bodies) if bodies else []
    for si, out in enumerate(outs):
        pairs = ctx.parse_pairs(out)
        for (i, code) in (pairs[0] if pairs else []):
            mism[index[si * shard + i]] = code
    return mism, set(index)


# --------------------------------------------------------------------------------------------- findings
def collapse_then_restore(sess, obs, k):
    """Shape of the open finding C16-oneline-reopen-loses-newlines together with its predicted failure: step k is an
    undo or redo of a change that was last used BEFORE the project was closed and reopened (so the reloaded change
    holds a File object that never read the file), the file it starts from has no line break at all, the bytes to
    restore use CRLF or CR, and what rope wrote is exactly those bytes with every line end turned into LF."""
    if sess["steps"][k][0] not in ("undo", "redo"):
        return False
    disks = [sess["data"]] + [o["disk"] for o in obs]
    before = disks[k]
    if b"\r" in before or b"\n" in before:
        return False                                   # the file restored from must have no line break
    undo, redo, disk = [], [], sess["data"]
    for idx, (st, o) in enumerate(list(zip(sess["steps"], obs))[:k]):
        if st[0] in ("write", "dofresh", "dosame") and o["code"] == 0:
            undo.append([disk, o["disk"], idx])
            redo = []
        elif st[0] == "undo" and o["code"] == 0 and undo:
            redo.append(undo.pop())
            redo[-1][2] = idx
        elif st[0] == "redo" and o["code"] == 0 and redo:
            undo.append(redo.pop())
            undo[-1][2] = idx
        disk = o["disk"]
    src = undo if sess["steps"][k][0] == "undo" else redo
    if not src:
        return False
    want = src[-1][0] if sess["steps"][k][0] == "undo" else src[-1][1]
    last_use = src[-1][2]
    if not any(st[0] == "reopen" for st in sess["steps"][last_use + 1:k]):
        return False                                   # same session: the change's File object remembers (fe48e43)
    if b"\r" not in want:
        return False
    predicted = want.replace(b"\r\n", b"\n").replace(b"\r", b"\n")
    return obs[k]["disk"] == predicted


def replay_obj(sess, obs, k, fail, model_agrees):
    steps = sess["steps"][:k + 1]
    return {"kind": "session", "data_hex": sess["data"].hex(), "py": sess["py"], "soa": sess["soa"],
            "ropefolder": sess["ropefolder"], "steps": steps, "fail_step": k, "observed": fail,
            "model_agrees": model_agrees,
            "shape_collapse_then_restore": collapse_then_restore(sess, obs, k)}


def signature(obj):
    if obj.get("shape_collapse_then_restore") and obj.get("model_agrees"):
        return "session:file left without line break, project reopened, undo/redo restores the old text with LF line ends"
    return "session:other"


def shrink(sess, k):
    """Drop steps in front of the failing one while some step still fails."""
    steps = sess["steps"][:k + 1]
    i = 0
    while i < len(steps) - 1:
        cand = steps[:i] + steps[i + 1:]
        s2 = dict(sess, steps=cand)
        obs = run_session(s2["data"], s2["py"], s2["soa"], s2["ropefolder"], cand)
        kk, fail = session_oracle(s2["data"], cand, obs)
        if kk is not None:
            steps = cand[:kk + 1]
        else:
            i += 1
    return dict(sess, steps=steps)


def replay(ctx, obj):
    sess = {"data": bytes.fromhex(obj["data_hex"]), "py": obj["py"], "soa": obj["soa"],
            "ropefolder": obj.get("ropefolder", False), "steps": obj["steps"]}
    obs = run_session(sess["data"], sess["py"], sess["soa"], sess["ropefolder"], sess["steps"])
    k, fail = session_oracle(sess["data"], sess["steps"], obs)
    return k is not None


# --------------------------------------------------------------------------------------------- run
def run(ctx):
    n = ctx.scale(160, 1600)
    sessions, all_obs = [], []
    for s in FIXED_SESSIONS:
        s = dict(s)
        sessions.append(s)
        all_obs.append(run_session(s["data"], s["py"], s["soa"], s["ropefolder"], s["steps"]))
    for _ in range(n):
        s, o = gen_session(ctx.rng)
        sessions.append(s)
        all_obs.append(o)
    mism, modelled = evaluate(ctx, sessions, all_obs)
    for i, (s, obs) in enumerate(zip(sessions, all_obs)):
        k, fail = session_oracle(s["data"], s["steps"], obs)
        code = mism.get(i, 0)
        kinds = [st[0] for st in s["steps"]]
        nontrivial = (b"\r" in s["data"] or any(b >= 128 for b in s["data"])) and any(
            st in kinds for st in ("undo", "redo", "external", "reopen"))
        ctx.case(("session", s["data"].hex(), s["py"], s["soa"], repr(s["steps"])), nontrivial=nontrivial)
        ctx.count("stream:session")
        ctx.count("session:soa=%s,py=%s" % (s["soa"], s["py"]))
        for kd in kinds:
            ctx.count("session-step:" + kd)
        if i in modelled:
            ctx.traces += 1
            ctx.count("session:model-evaluated")
        else:
            ctx.count("session:codec-not-modelled(oracle only)")
        mismatch_step = (code // 10 - 1) if code >= 10 else None
        reported = False
        if fail:
            # the model has to predict the failure where it can run (codecs it does not implement: nothing to contradict)
            model_agrees = (i not in modelled) or code == 0 or (mismatch_step is not None and mismatch_step > k)
            small = shrink(s, k)
            sobs = run_session(small["data"], small["py"], small["soa"], small["ropefolder"], small["steps"])
            kk, sfail = session_oracle(small["data"], small["steps"], sobs)
            if kk is None:
                small, sobs, kk, sfail = s, obs, k, fail
            reported = ctx.violation(replay_obj(small, sobs, kk, sfail, model_agrees),
                                     "C16 session: %s (step %d %s of %r, file %r, soa=%s py=%s)" % (
                                         sfail, kk, small["steps"][kk][0], [x[0] for x in small["steps"]],
                                         small["data"][:60], small["soa"], small["py"]))
        if code != 0 and not reported and (not fail or (mismatch_step is not None and mismatch_step <= k)):
            what = {1: "outcome", 2: "bytes on disk", 3: "File.newlines of the caller's object"}.get(code % 10, "trace")
            ctx.violation({"kind": "session", "data_hex": s["data"].hex(), "py": s["py"], "soa": s["soa"],
                           "ropefolder": s["ropefolder"], "steps": s["steps"], "mismatch_code": code,
                           "broken": "correspondence RopeVerif.C16.Runner.run_scase (Session.trace): %s after step %s differs; "
                                     "C16_session_preserves no longer speaks about File.read / write_file / History" % (
                                         what, mismatch_step)},
                          "C16 session: model and rope differ on %s after step %s of %r (file %r, soa=%s py=%s)" % (
                              what, mismatch_step, kinds, s["data"][:60], s["soa"], s["py"]), no_input=True)
        if ctx.too_many(8):
            break
