"""C18 — an interrupted save never leaves a project that cannot be opened.

For generated histories (edits / creations / moves / undo / redo / module analysis over two sessions of a
scratch project, saving enabled) the real save is traced, and EVERY byte prefix of each data file is
materialised as a crash state (plus: nothing opened yet, only the pickle opened, old files intact, side file
empty / partial / complete).  Per state the project is reopened and used.
  * oracle (independent of the model): nothing may raise; the history / object db that comes back is the old
    one, the one that was in memory at the save, or the empty one; pickle.load on every prefix obeys the laws
    the theorems assume (cross-checked against pickletools' opcode boundaries);
  * writer strategies outside the model (in-place rewrite, temp file + os.replace, extra files): when the traced
    save is not save_steps, crash states are derived from the traced operations themselves (the rope folder after
    every prefix of the traced open/write/truncate/seek/close/replace/remove operations, byte by byte, starting
    from the folder as it was before the save) and judged by the same oracle; the first failing one is the
    VIOLATION's replay, and only if none fails the disagreement is reported without input;
  * correspondence: trace == save_steps, final disk == run save_steps, crash disk == model crash disk, and
    rope's outcome class / loaded value == the model's, all evaluated inside Coq (coq/C18/Runner.v) with the
    table instance of `unpickle` whose laws are re-checked there by computation.
"""
import json
import multiprocessing
import os
import pickle

from harness import c18_impl as impl
from harness.common import g_bool

PROPERTY = "C18"

SIG_KNOWN = "crash:%s:truncated-inside-pickle-opcode:UnpicklingError"

# ----------------------------------------------------------------------------- generator
MODULES = [
    "def f(a):\n    return a\nx = f(1)\n",
    "def f(a):\n    return a\nx = f(1)\ny = f('s')\n",
    "class C:\n    def m(self, p):\n        self.v = p\n        return [p]\nc = C()\nr = c.m(2)\n",
    "def g(a, b=None):\n    return (a, b)\nt = g('é中', {1: 2})\nu = g(1.5)\n",
    "import m\n\ndef h(k):\n    return m.f(k)\nz = h([1, 2])\n",
    "s = 'plain'\n",
    "def k(*args, **kw):\n    return len(args)\nn = k(1, 2, x=3)\n",
]
PY_FILES = ["m.py", "n.py", "pkg/a.py"]
OTHER_FILES = ["t.txt", "pkg/d.txt"]


def gen_content(rng, path, big=False):
    if path.endswith(".py"):
        c = rng.choice(MODULES)
        k = rng.random()
        if k < 0.3:
            c += "v%d = %d\n" % (rng.randint(0, 3), rng.choice([0, 7, 255, 256, 70000, -1, 2 ** 40]))
        elif k < 0.45:
            c += "w = '%s'\n" % rng.choice(["é", "中文", "\U0001f600", "a" * 300])
        if big:
            c += "# " + "".join(rng.choice("abcdefghij ") for _ in range(rng.randint(9000, 12000))) + "\n"
        return c
    return rng.choice(["", "text\n", "é中\n", "x" * 260])


def gen_session(rng, files, folders, n_ops, big=False):
    """files: set of existing file paths (mutated); returns list of ops."""
    ops = []
    undoable = 0
    for _ in range(n_ops):
        k = rng.random()
        if k < 0.30 or not files:
            cands = [p for p in PY_FILES + OTHER_FILES if p not in files]
            if not cands:
                continue
            p = rng.choice(cands)
            if "/" in p and "pkg" not in folders:
                ops.append(["mkdir", "pkg"])
                folders.add("pkg")
                undoable += 1
            ops.append(["create", p, gen_content(rng, p, big)])
            files.add(p)
            undoable += 1
        elif k < 0.55:
            p = rng.choice(sorted(files))
            kind = rng.choice(["write", "write", "write_bare", "write_api"])
            op = [kind, p, gen_content(rng, p, big)]
            if kind == "write" and rng.random() < 0.3:
                op.append(rng.choice(["é change", "", "x" * 257]))
            ops.append(op)
            undoable += 1
        elif k < 0.65:
            p = rng.choice(sorted(files))
            q = rng.choice(["moved.py", "pkg/moved.py" if "pkg" in folders else "moved2.py", "r.txt"])
            if q not in files:
                ops.append(["move", p, q])
                files.discard(p)
                files.add(q)
                undoable += 1
        elif k < 0.72 and undoable:
            ops.append(["undo"])
            undoable -= 1
            # the file set is no longer tracked exactly; ops rope refuses are skipped by the driver
        elif k < 0.77:
            ops.append(["redo"])
        elif k < 0.80:
            ops.append(["sync"])
        else:
            pys = sorted(p for p in files if p.endswith(".py"))
            if pys:
                ops.append(["analyze", rng.choice(pys)])
    return ops


def gen_scenario(rng, size, big=False):
    files, folders = set(), set()
    sc = {}
    if rng.random() < 0.2:
        sc["session1"] = None
    else:
        sc["session1"] = gen_session(rng, files, folders, rng.randint(0, size), big and rng.random() < 0.5)
    sc["session2"] = gen_session(rng, files, folders, rng.randint(0, size), big)
    pys = sorted(p for p in files if p.endswith(".py"))
    if pys and rng.random() < 0.7:
        sc["session2"].append(["analyze", rng.choice(pys)])
    sc["use_history2"] = rng.random() < 0.85
    k = rng.random()
    sc["prefs"] = {"max_history_items": rng.choice([1, 2, 3])} if k < 0.3 else {}
    # the first session may have kept more history than the second one allows (History.write trims)
    sc["prefs1"] = {} if k < 0.15 else sc["prefs"]
    # chained crashes: the save of session 2 dies, session 3 continues from the torn disk and saves again
    if rng.random() < 0.3:
        sc["session3"] = gen_session(rng, files, folders, rng.randint(0, size))
        sc["crash"] = {"wi": rng.randint(0, 2), "frac": rng.choice([0.02, 0.3, 0.5, 0.9, 0.999])}
        sc["use_history2"] = True
    # the pickle-based contrib.autoimport: third user of the data files ("globalnames")
    if rng.random() < 0.4:
        sc["autoimport"] = {"s1": sc["session1"] is not None and rng.random() < 0.6,
                            "s2": rng.choice(["first", "last", "last", None])}
        for key in ("session1", "session2"):
            if sc[key] is not None and rng.random() < 0.6:
                sc[key].insert(rng.randint(0, len(sc[key])), ["gencache"])
    return sc


FIXED_SCENARIOS = [
    # the witness of C18_truncated_pickle_refuted: saving an empty history into a fresh project
    {"session1": None, "session2": [], "use_history2": True, "prefs": {}},
    {"session1": [["create", "m.py", MODULES[1]], ["analyze", "m.py"]],
     "session2": [["write", "m.py", MODULES[0]], ["analyze", "m.py"], ["undo"]], "use_history2": True, "prefs": {}},
    {"session1": [["create", "m.py", MODULES[2]], ["write", "m.py", MODULES[1]], ["write", "m.py", MODULES[0]]],
     "session2": [["create", "n.py", MODULES[4]], ["analyze", "n.py"]], "use_history2": True,
     "prefs": {"max_history_items": 2}},
    {"session1": [["create", "m.py", MODULES[1]], ["analyze", "m.py"]],
     "session2": [["analyze", "m.py"]], "use_history2": False, "prefs": {}},
    {"session1": [["create", "m.py", MODULES[1]], ["gencache"]],
     "session2": [["create", "n.py", MODULES[2]], ["write", "m.py", MODULES[0]], ["analyze", "n.py"]],
     "use_history2": True, "prefs": {}, "autoimport": {"s1": True, "s2": "first"}},
    {"session1": [["create", "m.py", MODULES[1]], ["analyze", "m.py"]],
     "session2": [["write", "m.py", MODULES[0]], ["analyze", "m.py"]], "use_history2": True, "prefs": {},
     "session3": [["create", "n.py", MODULES[2]], ["analyze", "n.py"]], "crash": {"wi": 1, "frac": 0.5}},
    {"session1": [["create", "m.py", MODULES[1]], ["analyze", "m.py"]],
     "session2": [["write", "m.py", MODULES[0]], ["analyze", "m.py"]], "use_history2": True, "prefs": {},
     "session3": [["undo"]], "crash": {"wi": 0, "frac": 0.3}},
    # three changes kept by session 1, session 2 allows one and performs none: History.write trims
    {"session1": [["create", "m.py", MODULES[2]], ["write", "m.py", MODULES[1]], ["write", "m.py", MODULES[0]]],
     "session2": [["analyze", "m.py"]], "use_history2": True, "prefs1": {}, "prefs": {"max_history_items": 1}},
]


# ----------------------------------------------------------------------------- Gallina printing
def g_bytes(b):
    return "[" + "; ".join(str(x) for x in b) + "]"


def g_pv(v):
    t = v[0]
    if t == "s":
        return "(PStr [%s])" % "; ".join(str(ord(c)) for c in v[1])
    if t == "i":
        return "(PInt (%d)%%Z)" % v[1]
    if t == "b":
        return "(PBool %s)" % g_bool(v[1])
    if t == "n":
        return "PNone"
    if t == "f":
        return "(PFloat [%s])" % "; ".join(str(ord(c)) for c in v[1])
    if t == "t":
        return "(PTuple [%s])" % "; ".join(g_pv(x) for x in v[1])
    if t == "l":
        return "(PList [%s])" % "; ".join(g_pv(x) for x in v[1])
    if t == "d":
        return "(PDict [%s])" % "; ".join("(%s, %s)" % (g_pv(k), g_pv(x)) for k, x in v[1])
    if t == "o":
        return "(PObj [%s] %s)" % ("; ".join(str(ord(c)) for c in v[1]), g_pv(v[2]))
    raise TypeError(v)


def g_optN(x):
    return "None" if x is None else "(Some %d)" % x


def g_obs(o, intern):
    if o[0] == "loaded":
        return "(ObsLoaded %d)" % intern(o[1])
    return "(ObsRaised %d)" % o[1]


FILE_TERM = {"objectdb": "(P Objectdb)", "objectdb.json": "(J Objectdb)",
             "history": "(P History)", "history.json": "(J History)",
             "globalnames": "(P Globalnames)", "globalnames.json": "(J Globalnames)"}
DFILE_TERM = {"objectdb": "Objectdb", "history": "History", "globalnames": "Globalnames"}
EMPTY = {"objectdb": impl.EMPTY_FILES, "history": impl.EMPTY_HISTORY, "globalnames": impl.EMPTY_NAMES}
HEADER = ("From Coq Require Import List NArith ZArith Bool.\nImport ListNotations.\n"
          "From RopeVerif.C18 Require Import Persist Table Runner.\nOpen Scope N_scope.\n")


# ----------------------------------------------------------------------------- one group
class Group:
    """Everything about one traced save, the crash states derived from it and rope's observed outcomes."""

    def __init__(self, res):
        self.res = res
        self.sc = res["scenario"]
        self.old = {n: (None if c is None else c.encode("latin-1")) for n, c in res["old_files"].items()}
        self.new = {n: (None if c is None else c.encode("latin-1")) for n, c in res["new_files"].items()}
        self.blobs, self._blob_ix = [], {}
        self.vals, self._val_ix = [], {}
        self.table = []          # (val idx, blob idx, eofs)
        self._tabled = set()
        self.anomalies = []      # broken laws of pickle (oracle on the hypotheses)
        self.eofs = {}           # blob idx -> set of EOFError lengths
        # the writes, in the order rope performed them (from the trace's opens of pickle files)
        opened = []
        for ev in res["trace"]:
            if ev[0] == "open" and ev[1] not in opened:
                opened.append(ev[1])
        self.order = [n for n in opened if n in impl.PICKLES and self.new.get(n) is not None]
        self.unknown_files = [n for n in opened if n not in impl.DATA_FILES]
        self.states, self.reads = [], []
        self.torn_old = set()

    def blob(self, b):
        if b not in self._blob_ix:
            self._blob_ix[b] = len(self.blobs)
            self.blobs.append(b)
        return self._blob_ix[b]

    def val(self, pv):
        key = g_pv(pv)
        if key not in self._val_ix:
            self._val_ix[key] = len(self.vals)
            self.vals.append(key)
        return self._val_ix[key]

    def add_pickle(self, b):
        """Register a complete pickle found in a data file: value and behaviour of every prefix."""
        bi = self.blob(b)
        if bi in self._tabled:
            return bi
        self._tabled.add(bi)
        f = __import__("io").BytesIO(b)
        try:
            v = pickle.load(f)
            if f.tell() != len(b):
                self.anomalies.append("pickle.load stops at %d of %d bytes" % (f.tell(), len(b)))
        except Exception as e:
            self.anomalies.append("complete data file does not unpickle: %s" % type(e).__name__)
            return bi
        eofs, anomalies = impl.classify_prefixes(b)
        self.anomalies.extend(anomalies)
        self.eofs[bi] = set(eofs)
        self.table.append((self.val(impl.to_pv(v)), bi, eofs))
        return bi

    def prefix_class(self, name, n):
        """Structural class of the first n bytes of the new pickle of data file `name`."""
        b = self.new[name]
        if n == 0:
            return "empty"
        if n >= len(b):
            return "complete"
        return "at-opcode-boundary" if n in self.eofs.get(self.blob(b), ()) else "truncated-inside-pickle-opcode"


def build_states(g, rng, exhaustive=True, stride=1):
    """Crash states of the traced save: list of dicts (wi, stage, np, nj, files, full)."""
    states = []
    cur = dict(g.old)
    states.append({"wi": 0, "stage": 0, "np": 0, "nj": 0, "files": dict(cur), "full": True})
    for wi, name in enumerate(g.order):
        pb, jb = g.new[name] or b"", g.new[name + ".json"] or b""
        st1 = dict(cur)
        st1[name] = b""
        states.append({"wi": wi, "stage": 1, "np": 0, "nj": 0, "files": st1, "full": True})
        ns = list(range(0, len(pb) + 1, stride))
        if ns[-1] != len(pb):
            ns.append(len(pb))
        for np_ in ns:
            k = np_ % 4
            nj = 0 if k == 0 else len(jb) if k == 1 else rng.randint(0, len(jb)) if k == 2 else len(jb) // 2
            if np_ == len(pb):
                nj = len(jb)
            st = dict(cur)
            st[name] = pb[:np_]
            st[name + ".json"] = jb[:nj]
            states.append({"wi": wi, "stage": 2, "np": np_, "nj": nj, "files": st,
                           "full": (np_ + nj <= 48) or (np_ % 97 == 0 and np_ <= 600)})
        # small files are written at close: the side file (closed first) complete while the pickle is still empty
        st = dict(cur)
        st[name] = b""
        st[name + ".json"] = jb
        states.append({"wi": wi, "stage": 2, "np": 0, "nj": len(jb), "files": st, "full": True})
        cur[name], cur[name + ".json"] = pb, jb
    return states


def enc(files):
    return {n: (None if c is None else c.decode("latin-1")) for n, c in files.items()}


def oracle_state(g, st, ob, exp, allow_new=False):
    """Independent judgement of one observed crash state. Returns None or (what, file, exc name)."""
    for name in impl.PICKLES:
        o = ob[impl.OBS_KEY[name]]
        if o[0] == "raised":
            return ("%s raises %s" % (o[3], o[2]), name, o[2])
        allowed = [exp[name + ":old"], exp[name + ":empty"]]
        if name in g.order or allow_new:
            allowed.append(exp[name + ":new"])
        if o[1] not in allowed:
            return ("the loaded %s is neither the old, the new nor the empty one" % name, name, None)
    if ob["errors"]:
        return (ob["errors"][0], None, None)
    return None


def group_term(g):
    def disk_blobs(files):
        return "[" + "; ".join(g_optN(None if files[n] is None else g.blob(files[n])) for n in impl.DATA_FILES) + "]"

    def disk_prefixes(files, src):
        items = []
        for n in impl.DATA_FILES:
            if files[n] is None:
                items.append("None")
            else:
                s = src.get(n)
                if s is None or not s.startswith(files[n]):
                    s = files[n]
                items.append("(Some (%d, %d))" % (g.blob(s), len(files[n])))
        return "[" + "; ".join(items) + "]"

    writes = []
    for name in g.order:
        pb, jb = g.new[name] or b"", g.new[name + ".json"] or b""
        vi = [t[0] for t in g.table if t[1] == g.blob(pb)]
        writes.append("(%s, %d, %d, %d)" % (DFILE_TERM[name],
                                             vi[0] if vi else 0, g.blob(pb), g.blob(jb)))
    trace = []
    for ev in g.res["trace"]:
        ft = FILE_TERM.get(ev[1])
        if ft is None:
            trace.append("TOpen (J History) false")        # a file the model does not know: never matches
        elif ev[0] == "open":
            trace.append("TOpen %s %s" % (ft, g_bool(ev[2])))
        elif ev[0] == "write":
            trace.append("TWrite %s %s" % (ft, g_bytes(ev[2].encode("latin-1"))))
        elif ev[0] == "close":
            trace.append("TClose %s" % ft)
        else:                                               # truncate / seek / replace / remove: not in the model
            trace.append("TOpen (J History) false")
    states = []
    for st, ob in zip(g.states, g.obs):
        src = {}
        for n in impl.DATA_FILES:     # express each file as a prefix of its new (or old) complete content
            c = st["files"][n]
            if c is None:
                continue
            for cand in (g.new.get(n), g.old.get(n)):
                if cand is not None and cand.startswith(c) and (c or cand is g.new.get(n)):
                    src[n] = cand
                    break
        states.append("{| cs_wi := %d; cs_stage := %d; cs_np := %d; cs_nj := %d; cs_disk := %s; cs_odb := %s; "
                      "cs_hist := %s; cs_names := %s; cs_full := %s |}" % (
                          st["wi"], st["stage"], st["np"], st["nj"], disk_prefixes(st["files"], src),
                          g_obs(ob["odb"], g.val), g_obs(ob["hist"], g.val), g_obs(ob["names"], g.val),
                          g_bool(st["full"])))
    reads = []
    for rd, ob in zip(g.reads, g.read_obs):
        reads.append("{| rc_disk := %s; rc_odb := %s; rc_hist := %s; rc_names := %s |}" % (
            disk_prefixes(rd["files"], rd["src"]), g_obs(ob["odb"], g.val), g_obs(ob["hist"], g.val),
            g_obs(ob["names"], g.val)))
    old_ids = (g.val(g.exp["objectdb:old"]), g.val(g.exp["history:old"]), g.val(g.exp["globalnames:old"]))
    d0, final = disk_blobs(g.old), disk_blobs(g.new)
    live = "None"
    if "live_history" in g.res and "history" in g.order:
        live = "(Some (%d, %d))" % (g.val(g.res["live_history"]), g.res["max_undos"])
    tbl = "; ".join("(%d, %d, %s)" % (v, b, g_bytes(e)) for v, b, e in g.table)
    # blobs and values are printed last: building the terms above interned some
    body = ["Definition g : group := {|",
            " g_blobs := [%s];" % ";\n   ".join(g_bytes(b) for b in g.blobs),
            " g_vals := [%s];" % ";\n   ".join(g.vals),
            " g_tbl := [%s];" % tbl,
            " g_d0 := %s;" % d0,
            " g_writes := [%s];" % "; ".join(writes),
            " g_trace := [%s];" % ";\n   ".join(trace),
            " g_final := %s;" % final,
            " g_old := (%d, %d, %d);" % old_ids,
            " g_live := %s;" % live,
            " g_states := [%s];" % ";\n   ".join(states),
            " g_reads := [%s]" % ";\n   ".join(reads),
            "|}.",
            "Eval vm_compute in (group_code g).",
            "Eval vm_compute in (codes_from (state_code g) 0 (g_states g)).",
            "Eval vm_compute in (codes_from (read_code g) 0 (g_reads g))."]
    return HEADER + "\n".join(body) + "\n"


# complete pickles of something that is not what the consumer expects (a stale or foreign file). No crash state
# holds one (C18_reader_total), so they are outside the property; the consumers' behaviour on them is modelled
# with its exception class and compared.
FOREIGN = [
    5, {}, "", "ab", [[]], ([], []), {0: [], 1: []}, {0: [], True: ()}, [5, []], [[5], []], [["ab"], []],
    [[("Nope", ())], []], [[(1, ())], []], [[("ChangeContents", ("a",))], []], [[("ChangeContents", "abc")], []],
    [[("MoveResource", ("a", "b"))], []], [[("ChangeSet", ("d", "x"))], []], [[("ChangeSet", ("d", ""))], []],
    [[("ChangeSet", ("d", [("CreateResource", ("p", 1))]))], [("RemoveResource", ["q", False])]],
    [[("ChangeSet", ("d", 5, 1.5))], []], [[("ChangeSet",)], []], [[{0: "CreateResource", 1: {"p": 1, "q": 2}}], []],
    {"m": ["f", "x"]}, {"m.py": 5},
]


def build_reads(g, rng):
    """Disks that are not crash states, for the reader's and the consumers' other branches: several objects in a
    file, a pickled None, a complete pickle followed by a truncated one, complete pickles of foreign values."""
    reads = []
    none_p = pickle.dumps(None, 2)
    g.add_pickle(none_p)
    base = dict(g.new)
    for name in impl.PICKLES:
        b = g.new.get(name) or g.old.get(name)
        if b:
            other = g.old.get(name) if g.old.get(name) and g.old.get(name) != b else b
            cat = b + other
            for n in (len(cat), len(b) + 1, len(b) + 2, len(b) + max(3, len(other) // 2)):
                if n > len(cat):
                    continue
                files = dict(base)
                files[name] = cat[:n]
                reads.append({"files": files, "src": {name: cat}})
        files = dict(base)
        files[name] = none_p
        reads.append({"files": files, "src": {name: none_p}})
    for v in rng.sample(FOREIGN, 8) + FOREIGN[:4]:
        p = pickle.dumps(v, 2)
        g.add_pickle(p)
        for name in ("history", rng.choice(["objectdb", "globalnames"])):
            files = dict(base)
            files[name] = p
            reads.append({"files": files, "src": {name: p}})
    return reads


def parse_out(ctx, out):
    nums = ctx.parse_nums(out)
    pairs = ctx.parse_pairs(out)
    gcode = nums[0][0] if nums and nums[0] else -1
    st_codes = dict(pairs[0]) if len(pairs) > 0 else {}
    rd_codes = dict(pairs[1]) if len(pairs) > 1 else {}
    return gcode, st_codes, rd_codes


BROKEN = ("correspondence RopeVerif.C18.Runner (%s) between coq/C18/Persist.v and rope/base/project.py "
          "_DataFiles / history.py / oi/memorydb.py; the C18 theorems no longer speak about this code")


def signature(obj):
    if obj.get("kind") == "crash":
        return "crash:%s:%s:%s" % (obj.get("file"), obj.get("prefix_class"), obj.get("exception"))
    if obj.get("kind") == "trace-crash":
        return "trace-crash:%s:%s" % (obj.get("file"), obj.get("exception"))
    return None


def trace_states(res):
    old_dir = {n: c.encode("latin-1") for n, c in res["old_dir"].items()}
    trace = [ev[:2] + [ev[2].encode("latin-1")] + ev[3:] if ev[0] == "write" else ev for ev in res["trace"]]
    return impl.trace_crash_states(old_dir, trace)


def describe_op(res, i):
    if i < 0:
        return "before the save"
    ev = res["trace"][i]
    return "%s %s%s" % (ev[0], ev[1], " (mode %s)" % ev[3] if ev[0] == "open" else
                        " (%d bytes)" % len(ev[2]) if ev[0] == "write" else
                        " -> %s" % ev[2] if ev[0] == "replace" else "")


def search_trace_states(ctx, g):
    """The traced save is not the model's save_steps (another writer strategy): derive the crash states from
    the traced operations themselves - the rope folder after every prefix of them, byte by byte, starting
    from the folder as it was - and run the independent oracle on each. Returns a replay object for the
    first failing state, or None."""
    res = g.res
    states = trace_states(res)
    prefs = g.sc.get("prefs") or {}
    ctx.count("trace_derived_crash_states", len(states))
    chunk = 60
    jobs = [(res["tree"], [enc(st[2]) for st in states[s:s + chunk]], prefs, True) for s in range(0, len(states), chunk)]
    mp = multiprocessing.get_context("fork")
    with mp.Pool(min(12, os.cpu_count() or 4)) as pool:
        for ji, obs in enumerate(pool.imap(impl._observe_job, jobs)):
            for off, ob in enumerate(obs):
                idx = ji * chunk + off
                i, k, files = states[idx]
                ctx.case((json.dumps(g.sc, sort_keys=True), "trace", idx), nontrivial=True)
                verdict = oracle_state(g, None, ob, g.exp, allow_new=True)
                if verdict is not None:
                    what, fname, exc = verdict
                    pool.terminate()
                    return {"kind": "trace-crash", "scenario": g.sc, "op": i, "byte": k, "state_index": idx,
                            "operation": describe_op(res, i), "file": fname, "exception": exc, "observed": what,
                            "folder": {n: len(c) for n, c in files.items()}}
    return None


def replay_obj(g, st, what, fname, exc):
    name = fname or (g.order[st["wi"]] if st["wi"] < len(g.order) else "objectdb")
    in_progress = g.order[st["wi"]] if st["wi"] < len(g.order) else None
    return {"kind": "crash", "scenario": g.sc, "wi": st["wi"], "stage": st["stage"], "np": st["np"], "nj": st["nj"],
            "file": name, "file_in_progress": in_progress,
            "prefix_class": g.prefix_class(name, st["np"]) if (st["stage"] == 2 and in_progress == name) else
            ("empty" if st["stage"] == 1 and in_progress == name else "intact"),
            "exception": exc, "observed": what}


def register_pickles(g):
    parents = {n: c.encode("latin-1") for n, c in (g.res.get("parent_pickles") or {}).items()}
    for name in impl.PICKLES:
        for src in (g.old, g.new):
            b = src.get(name)
            if not b:
                continue
            par = parents.get(name)
            if src is g.old and par is not None and par != b and par.startswith(b):
                g.add_pickle(par)      # the old file is itself torn (chained crash): a strict prefix of this pickle
                g.torn_old.add(name)
            else:
                g.add_pickle(b)


def expectations(g, old_ob, new_ob):
    """What may come back after a crash: the old version (as rope loads it from the untouched old files), the
    empty one, the version that was in memory at the save. Returns (exp, errors)."""
    res = g.res
    exp, errors = {}, []
    for name in impl.PICKLES:
        key = impl.OBS_KEY[name]
        exp[name + ":empty"] = EMPTY[name]
        if old_ob[key][0] != "loaded":
            errors.append("the project as it was before the save cannot be opened (%s)" % old_ob[key][2])
            exp[name + ":old"] = EMPTY[name]
        else:
            exp[name + ":old"] = old_ob[key][1]
    exp["objectdb:new"] = res["expected_objectdb"]
    exp["history:new"] = res.get("expected_history", impl.EMPTY_HISTORY)
    exp["globalnames:new"] = res.get("expected_names", impl.EMPTY_NAMES)
    # the complete save must read back as what was in memory (independent of the model)
    for name in impl.PICKLES:
        key = impl.OBS_KEY[name]
        if name in g.order and (new_ob[key][0] != "loaded" or new_ob[key][1] != exp[name + ":new"]):
            errors.append("the completed save of %s does not read back as what was in memory" % name)
    return exp, errors


def process_groups(ctx, scenarios, pool, stride=1):
    """Run, observe and compare a list of scenarios. Returns the Group objects."""
    results = [impl.run_scenario(sc) for sc in scenarios]
    groups = []
    jobs = []
    for res in results:
        if "failure" in res:
            ctx.count("scenario_failed")
            if ctx.too_many():
                continue
            ctx.violation({"kind": "save", "scenario": res["scenario"], "observed": res["failure"]},
                          "C18: rope raises while a project is saved, reopened and used without any crash: " + res["failure"])
            continue
        g = Group(res)
        register_pickles(g)
        g.states = build_states(g, ctx.rng, stride=stride)
        g.reads = build_reads(g, ctx.rng)
        prefs = g.sc.get("prefs") or {}
        chunk = 150
        g.jobs = []
        for s in range(0, len(g.states), chunk):
            g.jobs.append(len(jobs))
            jobs.append((res["tree"], [enc(st["files"]) for st in g.states[s:s + chunk]], prefs, True))
        g.read_job = len(jobs)
        jobs.append((res["tree"], [enc(r["files"]) for r in g.reads], prefs, False))
        g.exp_job = len(jobs)
        jobs.append((res["tree"], [enc(g.old), enc(g.new)], prefs, False))
        groups.append(g)
    outs = pool.map(impl._observe_job, jobs, chunksize=1)
    bodies = []
    for g in groups:
        g.obs = [o for j in g.jobs for o in outs[j]]
        g.read_obs = outs[g.read_job]
        old_ob, new_ob = outs[g.exp_job]
        g.exp, g.setup_errors = expectations(g, old_ob, new_ob)
        bodies.append(group_term(g))
    couts = ctx.coq_files_parallel(bodies)
    for g, out in zip(groups, couts):
        g.gcode, g.st_codes, g.rd_codes = parse_out(ctx, out)
    return groups


def judge(ctx, g, gi):
    """Oracle + correspondence verdicts for one group."""
    sc_key = json.dumps(g.sc, sort_keys=True)
    ctx.traces += 1
    ctx.count("groups")
    ctx.count("writes_per_save:%d" % len(g.order))
    ctx.count("old_state:" + ("absent" if g.old["objectdb"] is None else "present"))
    if g.torn_old:
        ctx.count("groups_whose_previous_version_is_torn (chained crash)")
    if g.sc.get("session3") is not None:
        ctx.count("groups_third_session_after_crash")
    for a in g.anomalies[:3]:
        ctx.violation({"kind": "pickle-laws", "scenario": g.sc, "observed": a,
                       "broken": "hypothesis good_pickle / unpickle [] = Eof of the C18 theorems does not hold of "
                                 "the real pickle module on this data file"},
                      "C18: pickle breaks an assumed law: " + a, no_input=True)
    for e in g.setup_errors[:2]:
        ctx.violation({"kind": "save", "scenario": g.sc, "observed": e}, "C18: " + e)
    if g.unknown_files or g.gcode & 3:
        # writer strategy outside the model: crash states derived from the traced operations + oracle;
        # the disagreement is reported without input only if no group yields a failing crash state (see run)
        if ctx.extra.get("trace_crash_found"):
            return
        if ctx.extra.get("trace_searches", 0) < 4:
            ctx.extra["trace_searches"] = ctx.extra.get("trace_searches", 0) + 1
            found = search_trace_states(ctx, g)
            if found is not None:
                ctx.extra["trace_crash_found"] = True
                ctx.violation(found, "C18: after a crash during '%s' (%d bytes of it done; rope folder then %s): %s" % (
                    found["operation"], found["byte"], found["folder"], found["observed"]))
                return
        what = (["the save writes files the model does not know: " + ", ".join(g.unknown_files)] if g.unknown_files else []) \
            + [t for b, t in ((1, "traced save differs from save_steps (order / truncation / bytes)"),
                              (2, "final disk differs from run save_steps")) if g.gcode & b]
        ctx.extra.setdefault("_deferred", []).append(
            ({"kind": "group", "scenario": g.sc, "code": g.gcode, "mismatch": what, "files": g.unknown_files,
              "trace_head": [ev[:2] + ([ev[3]] if ev[0] == "open" else []) for ev in g.res["trace"] if ev[0] != "write"][:14],
              "broken": BROKEN % "group_code"},
             "C18: save does not correspond to the model (%s); no crash state derived from the traced operations fails" % "; ".join(what)))
        return
    if g.gcode != 0:
        what = [t for b, t in ((1, "traced save differs from save_steps (order / truncation / bytes)"),
                               (2, "final disk differs from run save_steps"),
                               (4, "table instance of unpickle breaks good_pickle"),
                               (8, "a written value is outside the consumer theorems' domain"),
                               (16, "old values loaded by rope differ from the model's"),
                               (32, "a write's pickle does not decode to its value in the model"),
                               (128, "the history written is not History.write's trimming of the live undo list"),
                               (64, "the data files are not written in the hook order of Project.close (objectdb, history)"))
                if g.gcode & b]
        ctx.violation({"kind": "group", "scenario": g.sc, "code": g.gcode, "mismatch": what,
                       "trace_head": [ev[:2] + ([ev[2]] if ev[0] == "open" else []) for ev in g.res["trace"] if ev[0] != "write"][:12],
                       "broken": BROKEN % "group_code"},
                      "C18: save does not correspond to the model: " + "; ".join(what), no_input=True)
    else:
        ctx.count("groups_in_theorem_domain")
    known = 0
    for si, (st, ob) in enumerate(zip(g.states, g.obs)):
        in_progress = g.order[st["wi"]] if st["wi"] < len(g.order) else None
        cls = (g.prefix_class(in_progress, st["np"]) if st["stage"] == 2 else "empty" if st["stage"] == 1 else "before")
        torn = cls in ("at-opcode-boundary", "truncated-inside-pickle-opcode")
        ctx.case((sc_key, st["wi"], st["stage"], st["np"], st["nj"]), nontrivial=torn)
        ctx.traces += 1
        ctx.count("state:%s:%s" % (in_progress if st["stage"] else "-", cls))
        code = g.st_codes.get(si, 0)
        verdict = oracle_state(g, st, ob, g.exp)
        if verdict is not None:
            what, fname, exc = verdict
            obj = replay_obj(g, st, what, fname, exc)
            is_known = (exc == "UnpicklingError" and obj["prefix_class"] == "truncated-inside-pickle-opcode")
            if is_known:
                # the model of the reader as it stands must predict exactly this (C18_current_reader_partial)
                bad = code & {"objectdb": 16, "history": 32, "globalnames": 512}[fname] or code & (1 | 2 | 64)
                if bad:
                    ctx.violation(dict(obj, code=code, broken=BROKEN % "state_code, current reader"),
                                  "C18: failure at a torn state is not the one the model of the current reader predicts",
                                  no_input=True)
            if ctx.violation(obj, "C18: after a crash at byte %d of %s (%s): %s" % (st["np"], in_progress, cls, what)) is False:
                known += 1
        elif code & (1 | 2 | 4 | 8 | 64 | 256):
            ctx.violation({"kind": "state", "scenario": g.sc, "state": {k: st[k] for k in ("wi", "stage", "np", "nj")},
                           "code": code, "observed": {k: ob[k][0] for k in ("odb", "hist", "names")},
                           "broken": BROKEN % "state_code"},
                          "C18: crash state handled by rope differently from the model (code %d) although the oracle passes" % code,
                          no_input=True)
        if ctx.too_many():
            return
    if known:
        ctx.count("states_hitting_known_finding", known)
    for ri, (rd, ob) in enumerate(zip(g.reads, g.read_obs)):
        ctx.case((sc_key, "read", ri), nontrivial=False)
        code = g.rd_codes.get(ri, 0)
        # the reader as it stands and the repaired one are both acceptable here (these are not crash states);
        # rope must agree with one of the two models on both files
        if (code & (4 | 8 | 256)) and (code & (16 | 32 | 512)):
            ctx.violation({"kind": "read", "scenario": g.sc, "read": ri, "code": code,
                           "files": {n: (None if c is None else len(c)) for n, c in rd["files"].items()},
                           "observed": {k: ob[k][:1] + ob[k][2:] for k in ("odb", "hist", "names")},
                           "broken": BROKEN % "read_code"},
                          "C18: read_data / consumers differ from the model on a multi-object or non-history file (code %d)" % code,
                          no_input=True)
        ctx.count("reader_case:" + ("agrees-with-repaired" if not code & (4 | 8 | 256) else
                                    "agrees-with-pre-fix-reader" if not code & (16 | 32 | 512) else "neither"))
        for k in ("odb", "hist", "names"):
            if ob[k][0] == "raised":
                ctx.count("reader_case_raises:%s:%s" % (k, ob[k][2]))


def run(ctx):
    ctx.rule = ("scenario = two sessions of random create/edit/move/undo/redo/analyze/sync ops on a scratch project "
                "(tiny pools of paths and module bodies, non-ASCII and >255-byte strings, optional max_history_items, "
                "optional first session, history optionally untouched in session 2), then a traced close; cases = every "
                "byte prefix of each pickle written (side file empty/partial/complete), plus nothing-opened, "
                "pickle-opened-only and side-file-complete states; non-trivial = the pickle under write is a non-empty "
                "strict prefix; distinct by (scenario, write, stage, np, nj)")
    ctx.assumptions.append("a crash leaves, for each file, a byte prefix of what the program wrote to it since the "
                           "last truncating open (torn writes yield prefixes; no reordering within a file)")
    ctx.assumptions.append("pickle.load: laws good_pickle / unpickle [] = Eof validated on every prefix of every data "
                           "file of the run against the real module and against pickletools' opcode boundaries")
    n = ctx.scale(7, 90)
    scenarios = list(FIXED_SCENARIOS)
    for i in range(n):
        scenarios.append(gen_scenario(ctx.rng, ctx.scale(4, 7)))
    big = []
    if not ctx.quick():
        big = [gen_scenario(ctx.rng, 4, big=True) for _ in range(2)]     # pickles larger than the 8 KiB buffers
    mp = multiprocessing.get_context("fork")
    with mp.Pool(min(16, os.cpu_count() or 4)) as pool:
        groups = []
        step = 12
        for s in range(0, len(scenarios), step):
            groups.extend(process_groups(ctx, scenarios[s:s + step], pool))
        if big:
            groups.extend(process_groups(ctx, big, pool, stride=7))
    for gi, g in enumerate(groups):
        judge(ctx, g, gi)
        if ctx.too_many():
            break
    deferred = ctx.extra.pop("_deferred", [])
    if not ctx.extra.get("trace_crash_found"):
        for obj, summary in deferred[:2]:
            ctx.violation(obj, summary, no_input=True)
    sizes = [len(g.new[n]) for g in groups for n in g.order]
    ctx.extra["data_file_sizes"] = {"min": min(sizes) if sizes else 0, "max": max(sizes) if sizes else 0,
                                    "total_bytes": sum(sizes)}
    ctx.extra["reader_in_repo"] = ("repaired (survives UnpicklingError)" if not ctx.dist.get("states_hitting_known_finding")
                                   else "catches EOFError only (known finding reproduced by the generated cases)")
    for g in groups[1:3]:
        ctx.sample({"scenario": g.sc, "writes": g.order, "sizes": {n: len(g.new[n]) for n in g.order},
                    "crash_states": len(g.states)})


# ----------------------------------------------------------------------------- replay
def replay(ctx, obj):
    """True iff the property fails on the recorded crash state (or save) on the current tree."""
    kind = obj.get("kind")
    sc = obj.get("scenario")
    if sc is None:
        return True
    res = impl.run_scenario(sc)
    if "failure" in res:
        return True
    g = Group(res)
    register_pickles(g)
    if g.anomalies:
        return True
    prefs = sc.get("prefs") or {}
    old_ob, new_ob = impl.observe_states(res["tree"], [enc(g.old), enc(g.new)], prefs, False)
    exp, errors = expectations(g, old_ob, new_ob)
    if errors:
        return True
    if kind == "trace-crash":
        g.exp = exp
        states = trace_states(res)
        idx = obj.get("state_index", -1)
        cands = [states[idx]] if 0 <= idx < len(states) and states[idx][:2] == (obj["op"], obj["byte"]) else \
            [st for st in states if st[:2] == (obj["op"], obj["byte"])]
        if not cands:
            return True      # the recorded operation no longer exists: the save changed again
        obs = impl.observe_states(res["tree"], [enc(st[2]) for st in cands], prefs, True)
        return any(oracle_state(g, None, ob, exp, allow_new=True) is not None for ob in obs)
    if kind != "crash":
        # group / state / read level disagreements carry no failing input of their own: re-run the comparison
        import random
        ctx2_rng = random.Random(0)
        g.states = build_states(g, ctx2_rng)
        obs = impl.observe_states(res["tree"], [enc(st["files"]) for st in g.states], prefs, True)
        return any(oracle_state(g, st, ob, exp) is not None for st, ob in zip(g.states, obs))
    # rebuild the one crash state
    cur = dict(g.old)
    for wi, name in enumerate(g.order):
        if wi == obj["wi"]:
            if obj["stage"] >= 1:
                cur[name] = g.new[name][:obj["np"]] if obj["stage"] == 2 else b""
            if obj["stage"] == 2:
                cur[name + ".json"] = g.new[name + ".json"][:obj["nj"]]
            break
        cur[name], cur[name + ".json"] = g.new[name], g.new[name + ".json"]
    st = {"wi": obj["wi"], "stage": obj["stage"], "np": obj["np"], "nj": obj["nj"], "files": cur}
    ob = impl.observe_states(res["tree"], [enc(cur)], prefs, True)[0]
    return oracle_state(g, st, ob, exp) is not None
