"""C07 helper: the used-name stream.  The module body is abstracted (CPython ast + symtable) to the small
language of coq/C07/Unbound.v; the model's set of unbound dotted names is compared inside Coq with what
rope's ModuleImports._get_unbound_names returns and with the used primaries that the harness computes on its
own (harness/c07_world.used_and_exported), which are the input of the other streams."""
import ast
import symtable

from harness.common import g_bool, g_list, g_text


def g_dotted(d):
    return g_list([g_text(c) for c in d])


def conv_expr(e):
    if isinstance(e, ast.Name):
        return "(EName %s)" % g_text(e.id)
    if isinstance(e, ast.Attribute):
        return "(EAttr %s %s)" % (conv_expr(e.value), g_text(e.attr))
    if isinstance(e, ast.Call):
        args = list(e.args) + [k.value for k in e.keywords]
        return "(ECall %s %s)" % (conv_expr(e.func), g_list([conv_expr(a) for a in args]))
    subs = [c for c in ast.iter_child_nodes(e) if isinstance(c, ast.expr)]
    return "(EOther %s)" % g_list([conv_expr(c) for c in subs])


def scope_names(table):
    """the names the scope's own table defines (rope: Scope.get_names())"""
    return sorted(s.get_name() for s in table.get_symbols()
                  if s.is_parameter() or s.is_assigned() or s.is_imported() or s.is_namespace())


def child_table(table, node, name):
    for c in table.get_children():
        if c.get_name() == name and c.get_lineno() == node.lineno:
            return c
    for c in table.get_children():
        if c.get_name() == name:
            return c
    raise KeyError(name)


def direct_parts(node):
    """(expressions, statements) directly below a node, looking through non-statement containers
    (arguments, keyword, withitem, except handlers, ...)"""
    exprs, stmts = [], []
    for c in ast.iter_child_nodes(node):
        if isinstance(c, ast.expr):
            exprs.append(c)
        elif isinstance(c, ast.stmt):
            stmts.append(c)
        elif isinstance(c, (ast.expr_context, ast.operator, ast.unaryop, ast.cmpop, ast.boolop)):
            continue
        else:
            e2, s2 = direct_parts(c)
            exprs.extend(e2)
            stmts.extend(s2)
    return exprs, stmts


def conv_stmt(stmt, table):
    if isinstance(stmt, (ast.FunctionDef, ast.AsyncFunctionDef, ast.ClassDef)):
        sub = child_table(table, stmt, stmt.name)
        exprs, stmts = direct_parts(stmt)       # decorators, defaults, annotations, bases: the outer parts
        kids = []
        for s in stmts:
            kids.extend(conv_stmt(s, sub))
        return ["(NScope %s %s %s %s)" % (g_bool(isinstance(stmt, ast.ClassDef)),
                                           g_list([g_text(n) for n in scope_names(sub)]),
                                           g_list([conv_expr(e) for e in exprs]), g_list(kids))]
    exprs, stmts = direct_parts(stmt)
    out = []
    if exprs:
        out.append("(NExprs %s)" % g_list([conv_expr(e) for e in exprs]))
    for s in stmts:
        out.extend(conv_stmt(s, table))
    return out


def supported(src):
    """constructs that open scopes the small language does not have"""
    for n in ast.walk(ast.parse(src)):
        if isinstance(n, (ast.Lambda, ast.ListComp, ast.SetComp, ast.DictComp, ast.GeneratorExp, ast.Global, ast.Nonlocal)):
            return False
    return True


def ucase_term(env, place, src, used, defined, true_used):
    from rope.refactor.importutils import module_imports
    res = env.module_resource(place)
    res.write(src)
    pymodule = env.project.get_pymodule(res)
    rope_names = sorted(module_imports.ModuleImports(env.project, pymodule)._get_unbound_names(pymodule))
    top = symtable.symtable(src, "<m>", "exec")
    body = []
    for stmt in ast.parse(src).body:
        body.extend(conv_stmt(stmt, top))
    return ("{| u_gnames := %s;\n   u_body := %s;\n   u_rope := %s; u_used := %s; u_true := %s |}" % (
        g_list([g_text(n) for n in defined]), g_list(body),
        g_list([g_dotted(n.split(".")) for n in rope_names]), g_list([g_dotted(u) for u in used]),
        g_list([g_dotted(u) for u in true_used])))
