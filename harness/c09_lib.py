"""C09 driver: monitored execution of refactoring requests on real rope projects.

A *world* is a temporary base folder containing
    proj/   the project root (python modules, a package, a non-python file, IGNORED resources)
    ext/    a sibling out-of-project folder on the project's python_path; proj imports from it
A *request* is (kind, resource path, offsets, arguments): one call of a refactoring constructor followed by
get_changes(...).  `serve` computes the request under the audit hook, and, when a change comes back,
performs it with Project.do and undoes it with History.undo(), taking full snapshots
(path, type, bytes, mtime_ns) of the WHOLE base folder before computing, after computing, after do and
after undo.  Nothing here knows the Coq model; c09.py abstracts the record to a Gallina case.
"""
import ast
import io
import keyword
import os
import shutil
import sys
import tempfile
import tokenize

# ------------------------------------------------------------------------------------------ audit hook
WRITE_FLAGS = os.O_WRONLY | os.O_RDWR | os.O_CREAT | os.O_TRUNC | os.O_APPEND
WATCHED = {
    "os.remove", "os.rename", "os.mkdir", "os.rmdir", "os.chmod", "os.utime", "os.truncate", "os.link",
    "os.symlink", "os.chown", "os.chflags", "os.setxattr", "os.removexattr", "os.mkfifo", "os.mknod",
    "shutil.move", "shutil.rmtree", "shutil.copyfile", "shutil.copymode", "shutil.copystat",
    "shutil.copytree", "shutil.chown", "shutil.make_archive", "shutil.unpack_archive",
    "sqlite3.connect", "tempfile.mkstemp", "tempfile.mkdtemp", "subprocess.Popen", "os.system",
    "os.posix_spawn", "os.exec", "os.fork", "os.forkpty", "os.startfile", "os.spawn",
}


class Audit:
    """sys.addaudithook cannot be removed: one hook per process, switched on around the monitored calls."""

    def __init__(self):
        self.on = False
        self.events = []
        sys.addaudithook(self._hook)

    def _hook(self, event, args):
        if not self.on:
            return
        if event == "open":
            path, mode, flags = (tuple(args) + (None, None, None))[:3]
            if isinstance(mode, str):
                writing = any(ch in mode for ch in "wax+")
            else:
                writing = bool(flags) and bool(flags & WRITE_FLAGS)
            if writing:
                # FileIO reports "w" for both open(p, "w") and open(p, "wb"): record whether p existed
                try:
                    existed = os.path.lexists(path)
                except Exception:
                    existed = None
                self.events.append(("open", _s(path), mode if isinstance(mode, str) else "flags:%r" % (flags,), existed))
        elif event in WATCHED:
            self.events.append((event,) + tuple(_s(a) for a in args[:2]))

    def start(self):
        self.events = []
        self.on = True

    def stop(self):
        self.on = False
        ev, self.events = self.events, []
        return ev


def _s(x):
    if isinstance(x, bytes):
        try:
            return x.decode()
        except Exception:
            return repr(x)
    if isinstance(x, (str, int)) or x is None:
        return x
    try:
        return os.fspath(x)
    except Exception:
        return repr(x)


_AUDIT = None


def audit():
    global _AUDIT
    if _AUDIT is None:
        _AUDIT = Audit()
    return _AUDIT


def primitive_events(raw):
    """raw audit events -> the FileSystemCommands primitives they spell (lists, JSON-able):
        ["write", p] open(p,"w"/"wb") (FileIO reports mode "w" for both: create_file and write are one class)
        ["create", True, p] os.mkdir(p)
        ["remove", p] os.remove(p) / shutil.rmtree(p) (+ its own os.rmdir/os.remove/os.unlink)
        ["move", p, q] shutil.move(p,q) (+ its own os.rename)
    anything else is kept as ["other", ...] and can never match a model trace."""
    out = []
    i = 0
    n = len(raw)
    while i < n:
        e = raw[i]
        k = e[0]
        if k == "open" and e[2] == "w":
            out.append(["write", e[1]])           # create_file and write both open(p, "w"/"wb"): one class
        elif k == "os.mkdir":
            out.append(["create", True, e[1]])
        elif k == "shutil.move":
            out.append(["move", e[1], e[2]])
            # shutil.move's own calls: os.rename, and on failure of the rename its copy-and-delete fallback
            src, dst = str(e[1]), str(e[2])
            copying = False
            while i + 1 < n and raw[i + 1][0] in MOVE_INTERNAL and any(
                    isinstance(a, str) and (a.startswith(src) or a.startswith(dst)) for a in raw[i + 1][1:3]):
                nxt = raw[i + 1][0]
                if nxt in ("shutil.copyfile", "shutil.copytree"):
                    copying = True
                elif nxt != "os.rename" and not copying:
                    break
                i += 1
        elif k == "shutil.rmtree":
            out.append(["remove", e[1]])
            top = e[1]
            while i + 1 < n and raw[i + 1][0] in ("os.rmdir", "os.remove") and (
                    not os.path.isabs(str(raw[i + 1][1])) or str(raw[i + 1][1]).startswith(str(top))):
                i += 1
        elif k == "os.remove":
            out.append(["remove", e[1]])
        else:
            out.append(["other"] + [repr(x) for x in e])
        i += 1
    return out


MOVE_INTERNAL = {"os.rename", "shutil.copyfile", "shutil.copystat", "shutil.copymode", "shutil.copytree", "os.mkdir",
                 "open", "os.remove", "os.rmdir", "shutil.rmtree", "os.utime", "os.chmod", "os.setxattr", "os.symlink"}


# ------------------------------------------------------------------------------------------- snapshots
def snapshot(base):
    """{path relative to base: (type, bytes|None, mtime_ns)}; type in 'd','f','l','?'"""
    res = {}
    for d, dirs, files in os.walk(base):
        for x in dirs + files:
            full = os.path.join(d, x)
            rel = os.path.relpath(full, base).replace(os.sep, "/")
            st = os.lstat(full)
            if os.path.islink(full):
                res[rel] = ("l", os.readlink(full).encode(), st.st_mtime_ns)
            elif os.path.isdir(full):
                res[rel] = ("d", None, st.st_mtime_ns)
            elif os.path.isfile(full):
                with open(full, "rb") as f:
                    res[rel] = ("f", f.read(), st.st_mtime_ns)
            else:
                res[rel] = ("?", None, st.st_mtime_ns)
    return res


def snap_diff(a, b, mtime=True):
    """paths whose (type, bytes[, mtime]) differ between two snapshots"""
    out = []
    for p in sorted(set(a) | set(b)):
        x, y = a.get(p), b.get(p)
        if x is None or y is None:
            out.append(p)
        elif x[0] != y[0] or x[1] != y[1]:
            out.append(p)
        elif mtime and x[2] != y[2] and x[0] != "d":
            out.append(p)
    return out


def content_view(s):
    return {p: (v[0], v[1]) for p, v in s.items()}


# --------------------------------------------------------------------------------------------- worlds
# prefs ignored_resources of every generated project: a folder name, a file pattern, and the documented '//' form
# ("gen//*.py": the python files at ANY depth below gen)
IGNORED_PATTERNS = ["skip", "ign_*.py", "gen//*.py"]


def is_ignored_by_construction(rel):
    """independent of rope's matcher: the generator only creates ignored resources named skip/... and ign_*.py"""
    parts = rel.split("/")
    return ("skip" in parts or (parts[-1].startswith("ign_") and parts[-1].endswith(".py")) or ".ropeproject" in parts
            or parts[-1] == "lnk.py" or ("gen" in parts[:-1] and parts[-1].endswith(".py")))


FUNCS = ["f", "g"]
CLASSES = ["C", "D"]
VARS = ["v", "w"]


def gen_world(rng):
    """-> {"files": {relative path: text}, "ropefolder": None | ".ropeproject", "layout": str}"""
    fa, fb = rng.sample(FUNCS, 2)
    ca, cb = rng.sample(CLASSES, 2)
    va, vb = rng.sample(VARS, 2)
    opt = lambda p=0.5: rng.random() < p
    layout = rng.choice(["flat", "pkg", "pkg"])
    a = []
    if opt(0.8):
        a.append("import extmod\n")
    if opt(0.4):
        a.append("from extmod import ext_f\n")
    a.append("\n%s = 1\n\n" % va)
    a.append("def %s(x, y=2):\n    t = x + y\n    return t * %s\n\n" % (fa, va))
    use_ext = "extmod.ext_f(%s)" % vb if a[0].startswith("import extmod") else vb
    a.append("def %s(x):\n    %s = %s(x, 3)\n    return %s\n\n" % (fb, vb, fa, use_ext))
    a.append("class %s:\n    def __init__(self, x):\n        self.x = x\n        self.fld = 0\n\n"
             "    def m(self, y):\n        z = self.x + y\n        return %s(z) + self.fld\n\n" % (ca, fa))
    if opt(0.6):
        a.append("class %s(%s):\n    def m(self, y):\n        return y\n\n" % (cb, ca))
    has_mm = False
    if a[0].startswith("import extmod") and opt(0.9):
        # a class holding instances of a class of ANOTHER project module (h.H) and of the out-of-project module
        # (extmod.ExtC): destinations of MoveMethod inside / outside the project
        a.insert(1, "import h\n")
        a.append("class M:\n    def __init__(self):\n        self.hh = h.H()\n        self.ext = extmod.ExtC()\n\n"
                 "    def mm(self, x):\n        return x + 1\n\n")
        has_mm = True
    if opt(0.5):
        # targets of the wrong kind for most refactorings: class attribute, lambda, static / class method, property,
        # nested function
        a.append("class K:\n    attr = 3\n    lam = lambda q: q + 1\n\n    @staticmethod\n    def sm():\n        return 1\n\n"
                 "    @classmethod\n    def cm(cls, x):\n        return cls.attr + x\n\n    @property\n    def pr(self):\n"
                 "        return self.attr\n\n    def outer(self, y):\n        def inner(z):\n            return z + y\n"
                 "        return inner(1)\n\nk_use = K.sm() + K().pr + K.cm(2) + K.lam(1)\n\n")
    if opt(0.3):
        a.append("# %s and %s in a comment\ns = '%s in a string'\n" % (fa, ca, fa))
    b = []
    b.append("import a\n")
    if opt(0.7):
        b.append("from a import %s, %s\n" % (fa, ca))
        direct = True
    else:
        direct = False
    if opt(0.5):
        b.append("import extmod\n")
        ext_b = True
    else:
        ext_b = False
    b.append("\ndef h(x):\n    c = %s(x)\n    c.fld = 5\n" % (ca if direct else "a." + ca))
    b.append("    r = a.%s(x) + %s(1, y=x) + c.m(2)\n" % (fb, fa if direct else "a." + fa))
    b.append("    return r + a.%s + c.fld%s\n" % (va, " + extmod.EXT_V" if ext_b else ""))
    if opt(0.4):
        b.append("\nprint(h(1))\n")
    files = {"proj/a.py": "".join(a), "proj/b.py": "".join(b)}
    if has_mm:
        files["proj/h.py"] = "class H:\n    def hm(self):\n        return 0\n"
    if layout == "pkg":
        files["proj/pkg/__init__.py"] = "" if opt() else "from . import c\n"
        c = ["from a import %s\nimport a\n" % fa]
        if opt(0.5):
            c.append("from . import d\n")
            files["proj/pkg/d.py"] = "import b\n\nq = b.h(2)\n"
        c.append("\ndef k():\n    return %s(1) + a.%s\n" % (fa, va))
        files["proj/pkg/c.py"] = "".join(c)
        if opt(0.6):
            # a second package and a plain folder: destinations for moving a package INTO an existing folder
            files["proj/sub/__init__.py"] = ""
            files["proj/sub/e.py"] = "import a\n\ne1 = a.%s\n" % va
            files["proj/plain/readme.txt"] = "plain folder\n"
    # ignored resources: reference the same names, must never be touched
    files["proj/skip/z.py"] = "from a import %s\nimport a\nprint(%s(1), a.%s)\n" % (fa, fa, va)
    files["proj/ign_q.py"] = "import a\nprint(a.%s(2), a.%s)\n" % (fb, ca)
    files["proj/notes.txt"] = "%s %s %s\n" % (fa, ca, va)
    files["proj/gen/g1.py"] = "import a\nfrom a import %s\nprint(%s(1), a.%s, a.%s)\n" % (fa, fa, va, ca)
    files["proj/gen/deep/g2.py"] = "import a\nprint(a.%s(2), a.%s(1), a.%s)\n" % (fb, fa, va)
    files["proj/gen/readme.txt"] = "%s\n" % fa
    # the out-of-project folder
    files["ext/extmod.py"] = ("EXT_V = 3\n\ndef ext_f(p):\n    return p + EXT_V\n\n"
                              "class ExtC:\n    def em(self):\n        return 1\n")
    files["ext/other.txt"] = "ext_f\n"
    # a second out-of-project folder on python_path whose path EXTENDS the project root's path (<base>/proj_vendor)
    files["proj_vendor/vmod.py"] = "VV = 7\n\ndef vf(p):\n    return p + VV\n"
    if opt(0.7):
        files["proj/b.py"] = "import vmod\n" + files["proj/b.py"] + "\nvv = vmod.vf(1) + vmod.VV\n"
    # a second project (cross-project refactorings, rope.refactor.multiproject) using the first one's modules
    files["proj2/u.py"] = "import a\nfrom a import %s\n\nprint(a.%s(1), %s(2), a.%s, a.%s)\n" % (fa, fa, fa, va, ca)
    prefs = {}
    if opt(0.25):
        # a module that does not parse: requests reaching it must be refused with ModuleSyntaxError (a RopeError)
        # or skip it (prefs ignore_syntax_errors)
        files["proj/bad.py"] = "import a\n\ndef broken(:\n    return a.%s\n" % va
        if opt(0.5):
            prefs["ignore_syntax_errors"] = True
    links = {}
    if opt(0.3):
        # a symbolic link inside the project to the out-of-project module: rope treats links as ignored resources;
        # b.py uses the module through the link
        links["proj/lnk.py"] = "../ext/extmod.py"
        files["proj/b.py"] = "import lnk\n" + files["proj/b.py"] + "\ndef via_link(p):\n    return lnk.ext_f(p) + lnk.EXT_V\n"
    return {"files": files, "links": links, "ropefolder": rng.choice([None, None, ".ropeproject"]), "layout": layout,
            "prefs": prefs}


def materialize(world):
    base = tempfile.mkdtemp(prefix="ropeverif-c09-")
    os.mkdir(os.path.join(base, "proj"))
    os.mkdir(os.path.join(base, "ext"))
    for rel, text in world["files"].items():
        full = os.path.join(base, *rel.split("/"))
        os.makedirs(os.path.dirname(full), exist_ok=True)
        with open(full, "w", newline="") as f:
            f.write(text)
    for rel, target in world.get("links", {}).items():
        os.symlink(target, os.path.join(base, *rel.split("/")))
    return base


class RefusingFS:
    """fscommands delegating to rope's FileSystemCommands; the `armed`-th mutating call (write / move / create /
    remove, counted from arm()) raises OSError instead of being performed: a disk that is full, a read-only file"""

    def __init__(self):
        from rope.base.fscommands import FileSystemCommands
        self.real = FileSystemCommands()
        self.armed = None
        self.n = 0
        self.fired = False
        self.fired_in_rollback = False

    def arm(self, k):
        self.armed, self.n, self.fired, self.fired_in_rollback = k, 0, False, False

    def _count(self, what):
        if self.armed is not None:
            i = self.n
            self.n += 1
            if i == self.armed:
                self.fired = True
                # called from the `except` block of ChangeSet.do / undo: the refusal hits the ROLLBACK (a second
                # failure, which no implementation can survive; excluded like C10's single_failure)
                self.fired_in_rollback = sys.exc_info()[0] is not None
                raise OSError(28, "No space left on device (injected at mutating call %d: %s)" % (i, what))

    def create_file(self, path):
        self._count("create_file")
        return self.real.create_file(path)

    def create_folder(self, path):
        self._count("create_folder")
        return self.real.create_folder(path)

    def move(self, path, new_location):
        self._count("move")
        return self.real.move(path, new_location)

    def remove(self, path):
        self._count("remove")
        return self.real.remove(path)

    def write(self, path, data):
        self._count("write")
        return self.real.write(path, data)

    def read(self, path):
        return self.real.read(path)


def open_project(base, world):
    from rope.base.project import Project
    return Project(os.path.join(base, "proj"), fscommands=RefusingFS(), ropefolder=world.get("ropefolder"),
                   python_path=[os.path.join(base, "ext"), os.path.join(base, "proj_vendor")],
                   ignored_resources=list(IGNORED_PATTERNS), **world.get("prefs", {}))


def external_crlf(base, project, rel):
    """OUTSIDE rope: the line ends of proj/<rel> become CRLF; rope is told with libutils.report_change"""
    from rope.base import libutils
    full = os.path.join(base, "proj", *rel.split("/"))
    with open(full, "rb") as f:
        old = f.read()
    new = old.replace(b"\r\n", b"\n").replace(b"\n", b"\r\n")
    with open(full, "wb") as f:
        f.write(new)
    libutils.report_change(project, full, old.decode("utf-8"))


def open_second_project(base):
    from rope.base.project import Project
    return Project(os.path.join(base, "proj2"), ropefolder=None)


def external_symlink_swap(base, project, rel):
    """OUTSIDE rope: the project file proj/<rel> is replaced by a symbolic link to a copy kept in the out-of-project
    folder (ext/shared_<name>); then rope is told with project.validate()"""
    src = os.path.join(base, "proj", *rel.split("/"))
    dst = os.path.join(base, "ext", "shared_" + rel.replace("/", "_"))
    shutil.copyfile(src, dst)
    os.remove(src)
    os.symlink(dst, src)
    project.validate()


def python_files(world):
    """project python files that are not ignored, relative to proj/"""
    return sorted(p[len("proj/"):] for p in world["files"]
                  if p.startswith("proj/") and p.endswith(".py") and not is_ignored_by_construction(p))


# -------------------------------------------------------------------------------------------- offsets
def offset_category(text, off):
    if off < 0:
        return "negative"
    if off > len(text):
        return "past-end"
    if off == len(text):
        return "eof"
    spans = _token_spans(text)
    for kind, s, e in spans:
        if s <= off < e:
            if kind == "name":
                return "identifier"
            if kind == "keyword":
                return "keyword"
            return kind
        if off == e and kind == "name" and (off >= len(text) or not (text[off].isalnum() or text[off] == "_")):
            return "identifier-end"
    return "whitespace"


_SPAN_CACHE = {}


def _token_spans(text):
    if text in _SPAN_CACHE:
        return _SPAN_CACHE[text]
    lines = text.splitlines(True)
    starts = [0]
    for ln in lines:
        starts.append(starts[-1] + len(ln))
    spans = []
    try:
        for tok in tokenize.generate_tokens(io.StringIO(text).readline):
            s = starts[tok.start[0] - 1] + tok.start[1]
            e = starts[tok.end[0] - 1] + tok.end[1]
            if tok.type == tokenize.NAME:
                spans.append(("keyword" if keyword.iskeyword(tok.string) else "name", s, e))
            elif tok.type == tokenize.STRING:
                spans.append(("string", s, e))
            elif tok.type == tokenize.COMMENT:
                spans.append(("comment", s, e))
            elif tok.type == tokenize.NUMBER:
                spans.append(("number", s, e))
            elif tok.type == tokenize.OP:
                spans.append(("operator", s, e))
    except (tokenize.TokenError, IndentationError, SyntaxError):
        pass
    _SPAN_CACHE[text] = spans
    return spans


def interesting_offsets(text):
    """every identifier start / middle / end, one offset inside every other token, line starts, 0, eof, past"""
    offs = set([0, len(text), len(text) + 1, len(text) + 40, max(len(text) - 1, 0)])
    for kind, s, e in _token_spans(text):
        offs.add(s)
        if kind == "name":
            offs.add(e)
            offs.add((s + e) // 2)
        elif e - s > 2:
            offs.add(s + 1)
    for i, ch in enumerate(text):
        if ch == "\n":
            offs.add(i)
            offs.add(i + 1)
    return sorted(offs)


def regions(text):
    """(start, end) of statements and expressions (ast), used for the extract refactorings"""
    out = []
    try:
        tree = ast.parse(text)
    except SyntaxError:
        return out
    lines = text.splitlines(True)
    starts = [0]
    for ln in lines:
        starts.append(starts[-1] + len(ln.encode("utf-8")))
    data = text.encode("utf-8")

    def off(line, col):
        return len(data[:starts[line - 1] + col].decode("utf-8", "ignore"))
    for node in ast.walk(tree):
        if isinstance(node, (ast.stmt, ast.expr)) and hasattr(node, "end_lineno"):
            out.append((off(node.lineno, node.col_offset), off(node.end_lineno, node.end_col_offset),
                        "stmt" if isinstance(node, ast.stmt) else "expr"))
    return sorted(set(out))


# ------------------------------------------------------------------------------------------- requests
KINDS = ["rename", "rename_module", "extract_method", "extract_variable", "inline", "change_signature", "move",
         "move_module", "organize_imports", "encapsulate_field", "introduce_factory", "restructure",
         "introduce_parameter", "local_to_field", "method_object", "use_function", "module_to_package"]

CHANGERS = ["normalize", "remove0", "remove1", "add", "reorder", "inline_default"]
IMPORT_ACTIONS = ["organize_imports", "expand_star_imports", "froms_to_imports", "relatives_to_absolutes",
                  "handle_long_imports"]
RESTRUCTURES = [("${a} + ${b}", "${b} + ${a}"), ("${x}.fld", "${x}.fld2"), ("${f}(${x}, 3)", "${f}(${x}, 4)"),
                ("${a} * ${b}", "(${a}) * (${b})"), ("${", "x"), ("f(", "g("), ("${a} +", "${a}"), ("${a}", "${b}"),
                ("", "")]


def compute(project, req):
    """runs the request on the project: constructor + get_changes.  Returns the Change (or None)."""
    kind = req["kind"]
    res = project.get_resource(req["resource"]) if req.get("resource") is not None else None
    off = req.get("offset")
    kw = {}
    if req.get("resources") is not None:
        kw["resources"] = [project.get_resource(p) for p in req["resources"]]
    if kind in ("rename", "rename_module"):
        from rope.refactor.rename import Rename
        r = Rename(project, res, off)
        return r.get_changes(req["new_name"], in_file=req.get("in_file"), docs=bool(req.get("docs")),
                             in_hierarchy=bool(req.get("in_hierarchy")), **kw)
    if kind == "extract_method":
        from rope.refactor.extract import ExtractMethod
        return ExtractMethod(project, res, req["start"], req["end"]).get_changes(
            req["new_name"], similar=bool(req.get("similar")), global_=bool(req.get("global_")))
    if kind == "extract_variable":
        from rope.refactor.extract import ExtractVariable
        return ExtractVariable(project, res, req["start"], req["end"]).get_changes(
            req["new_name"], similar=bool(req.get("similar")), global_=bool(req.get("global_")))
    if kind == "inline":
        from rope.refactor.inline import create_inline
        r = create_inline(project, res, off)
        if r.get_kind() == "parameter":          # InlineParameter.get_changes(**kwds) -> ChangeSignature.get_changes
            return r.get_changes(**kw)
        return r.get_changes(remove=req.get("remove", True), only_current=bool(req.get("only_current")), **kw)
    if kind == "change_signature":
        from rope.refactor import change_signature as cs
        r = cs.ChangeSignature(project, res, off)
        which = req["changer"]
        if which == "normalize":
            changers = [cs.ArgumentNormalizer()]
        elif which == "remove0":
            changers = [cs.ArgumentRemover(0)]
        elif which == "remove1":
            changers = [cs.ArgumentRemover(1)]
        elif which == "add":
            changers = [cs.ArgumentAdder(1, req.get("new_name", "p"), "None", "0")]
        elif which == "reorder":
            changers = [cs.ArgumentReorderer([1, 0])]
        else:
            changers = [cs.ArgumentDefaultInliner(1)]
        return r.get_changes(changers, in_hierarchy=bool(req.get("in_hierarchy")), **kw)
    if kind in ("move", "move_module"):
        from rope.refactor.move import create_move
        r = create_move(project, res, off)
        dest = req["dest"]
        if r.__class__.__name__ == "MoveMethod":
            return r.get_changes(dest if isinstance(dest, str) and "/" not in dest and not dest.endswith(".py") else "x",
                                 new_name=req.get("new_name"), **kw)
        return r.get_changes(project.get_resource(dest), **kw)
    if kind == "organize_imports":
        from rope.refactor.importutils import ImportOrganizer
        return getattr(ImportOrganizer(project), req["action"])(res, off)
    if kind == "encapsulate_field":
        from rope.refactor.encapsulate_field import EncapsulateField
        return EncapsulateField(project, res, off).get_changes(**kw)
    if kind == "introduce_factory":
        from rope.refactor.introduce_factory import IntroduceFactory
        return IntroduceFactory(project, res, off).get_changes(req["new_name"], global_factory=bool(req.get("global_")), **kw)
    if kind == "restructure":
        from rope.refactor.restructure import Restructure
        return Restructure(project, req["pattern"], req["goal"]).get_changes(**kw)
    if kind == "introduce_parameter":
        from rope.refactor.introduce_parameter import IntroduceParameter
        return IntroduceParameter(project, res, off).get_changes(req["new_name"])
    if kind == "local_to_field":
        from rope.refactor.localtofield import LocalToField
        return LocalToField(project, res, off).get_changes()
    if kind == "method_object":
        from rope.refactor.method_object import MethodObject
        return MethodObject(project, res, off).get_changes(classname=req.get("new_name"))
    if kind == "use_function":
        from rope.refactor.usefunction import UseFunction
        return UseFunction(project, res, off).get_changes(**kw)
    if kind == "module_to_package":
        from rope.refactor.topackage import ModuleToPackage
        return ModuleToPackage(project, res).get_changes()
    if kind == "synthetic":
        return build_change(project, req["spec"])
    raise ValueError(kind)


def build_change(project, spec):
    """hand-built change trees (the leaf kinds no refactoring produces: RemoveResource, CreateFile ...)"""
    from rope.base import change as ch
    k = spec[0]
    if k == "CC":
        return ch.ChangeContents(project.get_file(spec[1]), spec[2])
    if k == "MV":
        res = project.get_folder(spec[1]) if spec[3] else project.get_file(spec[1])
        return ch.MoveResource(res, spec[2], exact=not (len(spec) > 4 and spec[4] == "as-requested"))
    if k == "CR":
        parent, _, name = spec[1].rpartition("/")
        if len(spec) > 3 and spec[3]:
            return (ch.CreateFolder if spec[2] else ch.CreateFile)(project.get_folder(parent), name)
        return ch.CreateResource(project.get_folder(spec[1]) if spec[2] else project.get_file(spec[1]))
    if k == "RM":
        return ch.RemoveResource(project.get_folder(spec[1]) if spec[2] else project.get_file(spec[1]))
    cs = ch.ChangeSet(spec[1])
    for c in spec[2]:
        cs.add_change(build_change(project, c))
    return cs


def compute_multi(project, other, req):
    """cross-project refactoring: rope.refactor.multiproject with `other` as the second project"""
    from rope.refactor import multiproject
    res = project.get_resource(req["resource"])
    if req["refactoring"] == "rename":
        from rope.refactor.rename import Rename
        m = multiproject.MultiProjectRefactoring(Rename, [other])(project, res, req["offset"])
        return m.get_all_changes(req["new_name"])
    from rope.refactor import change_signature as cs
    m = multiproject.MultiProjectRefactoring(cs.ChangeSignature, [other])(project, res, req["offset"])
    return m.get_all_changes([cs.ArgumentNormalizer()])


def serve_multi(base, world, project, other, req):
    """-> list of Served records, one per (project, changes) pair returned by get_all_changes (or one record for a
    refusal).  The changes are performed and undone project by project."""
    import copy
    au = audit()
    r = Served()
    r.req = req
    r.s0 = snapshot(base)
    r.exc = None
    r.hang = False
    allc = None
    au.start()
    try:
        try:
            with time_limit():
                allc = compute_multi(project, other, req)
        except Hang:
            r.hang = True
        except Exception as e:          # noqa: BLE001
            r.exc = exc_info(e)
    finally:
        r.compute_raw = au.stop()
    r.s1 = snapshot(base)
    r.outcome = "hang" if r.hang else "raised" if r.exc is not None else "changes"
    r.performed = False
    r.root = "proj"
    if allc is None:
        return [r]
    out = []
    for i, (p, changes) in enumerate(allc):
        ri = copy.copy(r)
        ri.root = os.path.basename(p.address)
        if i > 0:
            ri.compute_raw = []
            ri.s0 = ri.s1 = snapshot(base)
        out.append(finish(base, p, changes, ri, req, True))
    return out


# --------------------------------------------------------------------------------- abstracting changes
def resource_path(project, r):
    """rope path of a resource as seen from the project root; an out-of-project resource (NoProject) is
    spelled with '..' segments from the root, which is how the model sees that it is not in_root"""
    if r.project is project:
        return r.path
    rel = os.path.relpath(r.real_path, project.address).replace(os.sep, "/")
    return rel


def abstract_change(project, c):
    from rope.base import change as ch
    if isinstance(c, ch.ChangeSet):
        return ["CS", c.description, [abstract_change(project, x) for x in c.changes]]
    if isinstance(c, ch.ChangeContents):
        return ["CC", resource_path(project, c.resource), c.new_contents, c.old_contents]
    if isinstance(c, ch.MoveResource):
        return ["MV", resource_path(project, c.resource), resource_path(project, c.new_resource), c.resource.is_folder()]
    if isinstance(c, ch.CreateResource):
        return ["CR", resource_path(project, c.resource), c.resource.is_folder()]
    if isinstance(c, ch.RemoveResource):
        return ["RM", resource_path(project, c.resource), c.resource.is_folder()]
    raise TypeError(type(c))


def leaves(spec):
    if spec[0] == "CS":
        return [l for c in spec[2] for l in leaves(c)]
    return [spec]


def describe(project, c):
    """[(leaf kind, rope path, get_description(), new_contents or None)] for every leaf, plus the composite text"""
    from rope.base import change as ch
    out = []

    def walk(x):
        if isinstance(x, ch.ChangeSet):
            for y in x.changes:
                walk(y)
        else:
            out.append([type(x).__name__, resource_path(project, x.resource), x.get_description(),
                        x.new_contents if isinstance(x, ch.ChangeContents) else None])
    walk(c)
    return out


def composite_description_ok(c):
    """ChangeSet.get_description() is str(self) + ':\\n\\n\\n' + every child's description + '\\n' (structure only)"""
    from rope.base import change as ch
    if not isinstance(c, ch.ChangeSet):
        return True
    exp = str(c) + ":\n\n\n" + "".join(x.get_description() + "\n" for x in c.changes)
    return c.get_description() == exp and all(composite_description_ok(x) for x in c.changes)


# ------------------------------------------------------------------------------------ unified diffs
def apply_unified(old, diff):
    """apply a unified diff (as produced for ONE file) to `old`; returns the new text or raises ValueError.
    Written from the format's definition; does not use difflib."""
    lines = diff.splitlines(True)
    if not lines:
        return old
    if len(lines) < 2 or not lines[0].startswith("--- ") or not lines[1].startswith("+++ "):
        raise ValueError("no file header")
    src = old.splitlines(True)
    out = []
    pos = 0
    i = 2
    import re
    while i < len(lines):
        m = re.match(r"@@ -(\d+)(?:,(\d+))? \+(\d+)(?:,(\d+))? @@", lines[i])
        if not m:
            raise ValueError("bad hunk header %r" % lines[i])
        a_start = int(m.group(1))
        a_len = int(m.group(2)) if m.group(2) is not None else 1
        b_len = int(m.group(4)) if m.group(4) is not None else 1
        start = a_start - 1 if a_len else a_start
        if start < pos:
            raise ValueError("overlapping hunks")
        out.extend(src[pos:start])
        pos = start
        i += 1
        seen_a = seen_b = 0
        while i < len(lines) and (seen_a < a_len or seen_b < b_len):
            ln = lines[i]
            tag, body = ln[:1], ln[1:]
            if tag == " ":
                if pos >= len(src) or src[pos] != body:
                    raise ValueError("context mismatch at old line %d" % (pos + 1))
                out.append(body)
                pos += 1
                seen_a += 1
                seen_b += 1
            elif tag == "-":
                if pos >= len(src) or src[pos] != body:
                    raise ValueError("removed line mismatch at old line %d" % (pos + 1))
                pos += 1
                seen_a += 1
            elif tag == "+":
                out.append(body)
                seen_b += 1
            else:
                raise ValueError("bad line tag %r" % ln)
            i += 1
        if seen_a != a_len or seen_b != b_len:
            raise ValueError("short hunk")
    out.extend(src[pos:])
    return "".join(out)


# --------------------------------------------------------------------------------------------- serving
class Served:
    pass


class Hang(BaseException):
    """raised by the interval timer when a monitored call does not return (BaseException: not swallowed by
    `except Exception` inside rope)"""


def _on_alarm(signum, frame):
    raise Hang()


TIME_LIMIT = 3.0


class time_limit:
    def __enter__(self):
        import signal
        self.old = signal.signal(signal.SIGALRM, _on_alarm)
        signal.setitimer(signal.ITIMER_REAL, TIME_LIMIT)

    def __exit__(self, *a):
        import signal
        signal.setitimer(signal.ITIMER_REAL, 0)
        signal.signal(signal.SIGALRM, self.old)
        return False


def exc_info(e):
    from rope.base import exceptions
    tb = e.__traceback__
    site = None
    while tb is not None:
        fn = tb.tb_frame.f_code.co_filename.replace("\\", "/")
        if "/rope/" in fn and not fn.endswith(("rope/base/ast.py", "rope/base/codeanalyze.py")):
            # generic helpers (ast.parse wrapper, line tables): blame their caller
            site = "%s:%s" % (fn.split("/rope/", 1)[1], tb.tb_frame.f_code.co_name)
        tb = tb.tb_next
    return {"cls": type(e).__name__, "module": type(e).__module__,
            "rope_error": isinstance(e, exceptions.RopeError), "os_error": isinstance(e, OSError), "msg": str(e)[:160], "site": site}


def do_class_code(e):
    """class code of coq/C09/Runner.v for an exception raised by Project.do / History.undo"""
    from rope.base import exceptions
    if isinstance(e, OSError):
        return 1
    if type(e) is exceptions.RopeError:
        return 2
    if isinstance(e, exceptions.ResourceNotFoundError):
        return 3
    if isinstance(e, exceptions.HistoryError):
        return 4
    if isinstance(e, exceptions.InterruptedTaskError):
        return 5
    if isinstance(e, NotImplementedError):
        return 6
    return 0


def serve(base, world, project, req, perform=True):
    """One request on an open project, with the current directory inside the snapshotted base folder (a path that
    is wrongly taken relative to the cwd then lands where the snapshots see it)."""
    cwd = os.getcwd()
    os.chdir(base)
    try:
        return _serve(base, world, project, req, perform)
    finally:
        os.chdir(cwd)


def _serve(base, world, project, req, perform=True):
    """One request on an open project.  Returns a Served record (all fields JSON-able except snapshots)."""
    au = audit()
    r = Served()
    r.req = req
    r.s0 = snapshot(base)
    r.changes = None
    r.exc = None
    r.hang = False
    au.start()
    try:
        try:
            with time_limit():
                changes = compute(project, req)
        except Hang:
            changes = None
            r.hang = True
        except Exception as e:          # noqa: BLE001 - classifying whatever comes out IS the check
            changes = None
            r.exc = exc_info(e)
    finally:
        r.compute_raw = au.stop()
    r.s1 = snapshot(base)
    r.outcome = "hang" if r.hang else "raised" if r.exc is not None else ("none" if changes is None else "changes")
    r.performed = False
    r.root = "proj"
    if changes is None:
        return r
    return finish(base, project, changes, r, req, perform)


class Stopper:
    """TaskHandle observer: calls handle.stop() during its `at`-th notification (counted as in C10's model:
    create_jobset informs once, every started_job / finished_job informs once)"""

    def __init__(self, handle, at):
        self.handle, self.at, self.n, self.busy = handle, at, 0, False

    def __call__(self):
        if self.busy:
            return
        i = self.n
        self.n += 1
        if i == self.at:
            self.busy = True
            try:
                self.handle.stop()
            finally:
                self.busy = False


def finish(base, project, changes, r, req, perform=True):
    """describe, perform and undo one computed change on its project (r.s0 / r.s1 are already taken)"""
    au = audit()
    from rope.base import change as ch
    if not isinstance(changes, ch.Change):
        r.outcome = "not-a-change"
        return r
    r.spec = abstract_change(project, changes)
    r.announced = sorted(set(resource_path(project, x) for x in changes.get_changed_resources()))
    r.announced_foreign = sorted(resource_path(project, x) for x in changes.get_changed_resources()
                                 if x.project is not project)
    r.announced_ignored_by_rope = sorted(resource_path(project, x) for x in changes.get_changed_resources()
                                         if x.project is project and project.is_ignored(x))
    r.descriptions = describe(project, changes)
    r.composite_ok = composite_description_ok(changes)
    r.s1b = snapshot(base)              # get_description / get_changed_resources must be pure too
    if not perform:
        return r
    r.performed = True
    r.do_exc = None
    r.stop = req.get("stop")
    r.notifications = None
    handle = stopper = None
    if r.stop is not None:
        from rope.base import taskhandle
        handle = taskhandle.TaskHandle("C09")
        stopper = Stopper(handle, r.stop)
        handle.add_observer(stopper)
    r.fault = req.get("fault")
    fsc = getattr(project, "fscommands", None)
    if r.fault is not None and hasattr(fsc, "arm"):
        fsc.arm(r.fault)
    au.start()
    try:
        try:
            if handle is not None:
                project.do(changes, task_handle=handle)
            else:
                project.do(changes)
        except Exception as e:          # noqa: BLE001
            r.do_exc = exc_info(e)
            r.do_code = do_class_code(e)
    finally:
        r.do_raw = au.stop()
        r.fault_fired = bool(getattr(fsc, "fired", False))
        r.fault_in_rollback = bool(getattr(fsc, "fired_in_rollback", False))
        if hasattr(fsc, "arm"):
            fsc.arm(None)
    if stopper is not None:
        r.notifications = stopper.n
    r.s2 = snapshot(base)
    r.undone = False
    r.undo_exc = None
    r.undo_raw = []
    r.s3 = r.s2
    r.changes_obj = changes
    if r.do_exc is None and not req.get("no_undo") and project.history.undo_list \
            and project.history.undo_list[-1] is changes:
        r.undone = True
        au.start()
        try:
            try:
                project.history.undo()
            except Exception as e:      # noqa: BLE001
                r.undo_exc = exc_info(e)
                r.undo_code = do_class_code(e)
        finally:
            r.undo_raw = au.stop()
        r.s3 = snapshot(base)
    return r
