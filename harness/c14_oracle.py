"""C14 oracle: what CPython's own tokenizer / parser say about a source text, and the comparison of rope's answers
with it. Independent of the Coq model and of rope's scanners (only `tokenize`, `ast`, `str.split`)."""
import ast
import io
import token as T
import tokenize
import warnings

SKIP = (T.NL, T.COMMENT, T.INDENT, T.DEDENT, T.ENDMARKER)
FS_START = getattr(T, "FSTRING_START", -1)
FS_MIDDLE = getattr(T, "FSTRING_MIDDLE", -2)
FS_END = getattr(T, "FSTRING_END", -3)


class Facts:
    pass


def string_prefix(s):
    i = 0
    while i < len(s) and s[i] not in "'\"":
        i += 1
    return s[:i]


def analyze(text):
    """Facts about a valid program, or (None, reason)."""
    if "\r" in text or "\x00" in text:
        return None, "cr-or-nul"
    try:
        with warnings.catch_warnings():
            warnings.simplefilter("ignore")
            tree = ast.parse(text)
    except (SyntaxError, ValueError, RecursionError, MemoryError) as e:
        return None, "syntax:" + type(e).__name__
    try:
        with warnings.catch_warnings():
            warnings.simplefilter("ignore")
            toks = list(tokenize.generate_tokens(io.StringIO(text, newline="\n").readline))
    except Exception as e:               # noqa: BLE001 - TokenError, SyntaxError, and CPython 3.12 SystemError on odd f-strings
        return None, "tokenize:" + type(e).__name__
    # domain: a numeric literal immediately followed by a name or keyword (`3else`, `1if x`, `0x1for y`) still tokenizes in
    # 3.12 but is deprecated (SyntaxWarning "invalid ... literal", to become a syntax error): such texts are not counted as
    # valid source text; they stay in the malformed stream (model vs rope only). Generator, oracle and shrinker all go
    # through this predicate.
    for t1, t2 in zip(toks, toks[1:]):
        if t1.type == T.NUMBER and t2.type == T.NAME and t1.end == t2.start:
            return None, "number-glued-to-name"
    starts = [0]
    for i, c in enumerate(text):
        if c == "\n":
            starts.append(i + 1)
    lines = text.split("\n")

    def off(pos):
        return starts[pos[0] - 1] + pos[1]

    f = Facts()
    f.text = text
    f.tree = tree
    f.lines = lines
    f.starts = starts
    f.spans = []          # (start, end, prefix|None, kind)  kind: 'c' comment, 's' string, 'f' f-string
    f.plain = []          # (type, start, end, string, bracket_depth_before) for tokens outside f-strings
    f.names = []          # (start, end, string, inside_fstring)
    f.inner = []          # (type, start, end, string): NAME/NUMBER/OP tokens inside the replacement fields of f-strings
    f.fstrings = []       # (start, end, quote, nested_same_quote: bool)
    f.stmts = []          # (first_line, last_line)
    fdepth = 0
    fstart = None
    fquotes = []
    nested_same = False
    bdepth = 0
    cur = None
    for tok in toks:
        ty = tok.type
        if ty in (T.NAME, T.OP, T.NUMBER, T.STRING, T.COMMENT, FS_START, FS_END):
            # (CPython 3.12 reports the end column of multi-line tokens in bytes: the end is recomputed from the start)
            if tok.start[0] - 1 >= len(starts) or text[off(tok.start):off(tok.start) + len(tok.string)] != tok.string:
                return None, "tokpos"
            a = off(tok.start)
            b = a + len(tok.string)
        else:
            a, b = (off(tok.start), off(tok.end)) if tok.start[0] - 1 < len(starts) else (len(text), len(text))
            b = max(a, min(b, len(text) + 1))
        if ty == FS_START:
            q = tok.string[len(string_prefix(tok.string)):]
            if fdepth == 0:
                fstart = (a, string_prefix(tok.string), q)
                nested_same = False
            elif any(q[0] == x[0] and (len(x) == 1 or len(q) == 3) for x in fquotes):
                nested_same = True
            fquotes.append(q)
            fdepth += 1
        elif ty == FS_END:
            fdepth -= 1
            fquotes.pop()
            if fdepth == 0:
                f.spans.append((fstart[0], b, fstart[1], "f"))
                f.fstrings.append((fstart[0], b, fstart[2], nested_same))
        elif fdepth > 0:
            if ty == T.STRING:
                body = tok.string[len(string_prefix(tok.string)):]
                q = body[:3] if body[:3] in ("'''", '"""') and len(body) >= 6 else body[0]
                if any(q[0] == x[0] and (len(x) == 1 or len(q) == 3) for x in fquotes):
                    nested_same = True
            if ty == T.NAME:
                f.names.append((a, b, tok.string, True))
            if ty in (T.NAME, T.NUMBER, T.OP):
                f.inner.append((ty, a, b, tok.string))
        else:
            if ty == T.STRING:
                f.spans.append((a, b, string_prefix(tok.string), "s"))
            elif ty == T.COMMENT:
                f.spans.append((a, b, None, "c"))
            elif ty == T.NAME:
                f.names.append((a, b, tok.string, False))
            f.plain.append((ty, a, b, tok.string, bdepth))
            if ty == T.OP:
                if tok.string in "([{":
                    bdepth += 1
                elif tok.string in ")]}":
                    bdepth -= 1
        # statements
        if ty in SKIP:
            continue
        if ty == T.NEWLINE:
            if cur is not None:
                f.stmts.append((cur, tok.start[0]))
            cur = None
        elif cur is None:
            cur = tok.start[0]
    f.spans.sort()
    return f, "ok"


def byte_col_to_char(line, col):
    return len(line.encode("utf-8")[:col].decode("utf-8", "replace"))


def chains(f):
    """[(name_start, name_end, chain_start)] for identifiers that end a Name(.attr | (...) | [...])* chain"""
    out = []
    name_by_end = {b: (a, b) for (a, b, s, _) in f.names}

    def root_ok(n):
        while True:
            if isinstance(n, ast.Name):
                return True
            if isinstance(n, ast.Attribute):
                n = n.value
            elif isinstance(n, ast.Call):
                n = n.func
            elif isinstance(n, ast.Subscript):
                n = n.value
            else:
                return False

    def pos(lineno, col):
        return f.starts[lineno - 1] + byte_col_to_char(f.lines[lineno - 1], col)

    for n in ast.walk(f.tree):
        if isinstance(n, (ast.Name, ast.Attribute)) and root_ok(n) and getattr(n, "end_lineno", None):
            try:
                a = pos(n.lineno, n.col_offset)
                b = pos(n.end_lineno, n.end_col_offset)
            except IndexError:
                continue
            if b in name_by_end and name_by_end[b][0] >= a:
                out.append((name_by_end[b][0], b, a))
    return sorted(set(out))


def in_span(spans, o):
    for (a, b, *_r) in spans:
        if a <= o < b:
            return True
    return False


def check(f, obs):
    """Compare rope's observables `obs` (see c14.observe) with the facts. Returns [(observable, offset, message)]."""
    text = f.text
    fails = []
    # 1. regions are exactly the comment / string tokens
    want = [(a, b, p) for (a, b, p, k) in f.spans]
    got = [(a, b, p) for (a, b, p) in obs["regions"]]
    if want != got:
        loc = None
        for x, y in zip(want, got):
            if x != y:
                loc = min(x[0], y[0])
                break
        if loc is None:
            loc = (want[len(got)][0] if len(want) > len(got) else got[len(want)][0])
        fails.append(("regions", loc, "ignored_regions %r, tokenizer %r" % (got[:6], want[:6])))
    # 2. real_code
    rc = obs["real"]
    if len(rc) != len(text):
        fails.append(("real_code", 0, "len(real_code) = %d, len(source) = %d" % (len(rc), len(text))))
    else:
        for (ty, a, b, s, bd) in f.plain:
            seg = rc[a:b]
            if ty in (T.NAME, T.NUMBER) or (ty == T.OP and s != ";"):
                if seg != text[a:b]:
                    fails.append(("real_code", a, "token %r became %r" % (text[a:b], seg)))
                    break
            elif ty == T.OP:
                if seg != "\n":
                    fails.append(("real_code", a, "semicolon became %r" % seg))
                    break
            elif ty == T.STRING:
                if seg != '"' + " " * (b - a - 2) + '"':
                    fails.append(("real_code", a, "string %r became %r" % (text[a:b][:40], seg[:40])))
                    break
            elif ty == T.COMMENT:
                if seg.strip(" ") != "":
                    fails.append(("real_code", a, "comment became %r" % seg[:40]))
                    break
            elif ty == T.NEWLINE and s == "\n":
                if seg != "\n":
                    fails.append(("real_code", a, "statement-ending newline became %r" % seg))
                    break
            elif ty == T.NL and s == "\n":
                if seg != ("\n" if bd == 0 else " "):
                    fails.append(("real_code", a, "non-logical newline (bracket depth %d) became %r" % (bd, seg)))
                    break
        else:
            # f-strings (every prefix spelling with an f, raw ones included) are left verbatim: the tokens that tokenize
            # reports inside their replacement fields keep their characters (a ';' cannot occur there)
            for (ty, a, b, s) in f.inner:
                if rc[a:b] != text[a:b]:
                    fails.append(("real_code", a, "token %r inside an f-string field became %r" % (text[a:b], rc[a:b])))
                    break
        if not fails or fails[-1][0] != "real_code":
            covered = [False] * len(text)
            for (ty, a, b, s, bd) in f.plain:
                for i in range(a, min(b, len(text))):
                    covered[i] = True
            for (a, b, p, k) in f.spans:
                for i in range(a, b):
                    covered[i] = True
            for i, c in enumerate(text):
                if not covered[i]:
                    ok = (rc[i] == c and c != "\t") or rc[i] == " "
                    if not ok:
                        fails.append(("real_code", i, "inter-token character %r became %r" % (c, rc[i])))
                        break
    # 3. line index: str.split / count
    ln = obs["lines"]
    if ln["length"] != len(f.lines) or ln["get_line"] != f.lines:
        fails.append(("lines", 0, "get_line/length differ from str.split"))
    else:
        for o, n in enumerate(ln["linenos"]):
            if o <= len(text) and n != text.count("\n", 0, o) + 1:
                fails.append(("lines", o, "get_line_number(%d) = %d" % (o, n)))
                break
        for n in range(1, ln["length"] + 1):
            a, b = ln["starts"][n - 1], ln["ends"][n - 1]
            if text[a:b] != f.lines[n - 1] or ln["linenos"][a] != n or ln["linenos"][b] != n:
                fails.append(("lines", a, "line %d: start/end %d/%d not inverse to get_line_number" % (n, a, b)))
                break
    # 4. logical lines
    # a logical line physically starts at the first line joined to it: lines holding nothing but a backslash that
    # directly precede the first token's line belong to the statement (corrected false alarm: "\\\nx")
    stmts = []
    for (a, b) in f.stmts:
        while a > 1 and f.lines[a - 2].strip() == "\\":
            a -= 1
        stmts.append((a, b))
    cg = obs["custom"]
    extra = [r for r in cg if r not in stmts]
    missing = [r for r in stmts if r not in cg]
    # other reported ranges may only hold comment lines (and lone-backslash / blank lines joined to them): no tokens
    def token_free(r):
        ls = [f.lines[i - 1].strip() for i in range(r[0], r[1] + 1)]
        if all(l.startswith("#") for l in ls):
            return True
        return "\\" in ls and all(l.startswith("#") or l in ("\\", "") for l in ls)

    bad_extra = [r for r in extra if not token_free(r)]
    if missing or bad_extra:
        r = (missing or bad_extra)[0]
        fails.append(("custom_generator", f.starts[r[0] - 1], "custom_generator %r, tokenizer statements %r" % (cg[:8], stmts[:8]),
                      {"range": r}))
    else:
        for (a, b) in stmts:
            for n in range(a, b + 1):
                if obs["logical_in"][n - 1] != (a, b):
                    fails.append(("logical_line_in", f.starts[n - 1], "logical_line_in(%d) = %r, statement %r" % (n, obs["logical_in"][n - 1], (a, b)),
                                  {"range": (a, b)}))
                    break
            else:
                continue
            break
    if "llf_in" in obs:
        prev_end = 0
        for (a, b) in stmts:
            gap_has_lone_backslash = any(f.lines[i - 1].strip() == "\\" for i in range(prev_end + 1, b + 1))
            prev_end = b
            if gap_has_lone_backslash:
                continue          # a physical line holding nothing but a backslash: outside the compared domain
            for n in range(a, b + 1):
                if obs["llf_in"][n - 1] != (a, b):
                    fails.append(("LogicalLineFinder", f.starts[n - 1], "LogicalLineFinder.logical_line_in(%d) = %r, statement %r" % (n, obs["llf_in"][n - 1], (a, b)),
                                  {"line": n, "stmt": (a, b), "got": obs["llf_in"][n - 1]}))
                    break
            else:
                continue
            break
    # 5. words / primaries
    q = obs["queries"]
    for (a, b, s, inf) in f.names:
        for o in range(a, b):
            if o in q:
                wr, wa = q[o][0], q[o][1]
                if wr != (a, b) or wa != s:
                    fails.append(("word", o, "get_word_range(%d) = %r, get_word_at = %r; NAME token %r at %r" % (o, wr, wa, s, (a, b))))
                    break
        else:
            continue
        break
    for (a, b, start) in chains(f):
        for o in range(a, b):
            if o in q:
                pr, pa = q[o][2], q[o][3]
                if pr != (start, b) or pa != text[start:b]:
                    fails.append(("primary", o, "get_primary_range(%d) = %r (%r); expression %r at %r" % (o, pr, pa, text[start:b][:60], (start, b)),
                                  {"span": (start, b)}))
                    break
        else:
            continue
        break
    return fails
