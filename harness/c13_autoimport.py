"""C13, stream C (oracle only): the global-name index of rope.contrib.autoimport (sqlite, in memory, observe=True)
on a long-lived project vs the index built by a brand-new AutoImport on a copy of the directory, after every step of
histories of changes through rope and behind its back (+ project.validate())."""
import os
import random
import shutil
import tempfile
import warnings

FOLDER_SIG = "autoimport-folder-events: the index ignores moves and removals of folders (only file events are handled)"
EXTERNAL_SIG = "autoimport-no-validate: the index is not told about changes found by project.validate()"

NAMES = ["ka", "kb", "kc"]
MODS = ["ma", "mb", "mc"]
DIRS = ["pa", "pb", "pc"]


def modname(path):
    parts = path.split("/")
    if parts[-1] == "__init__.py":
        return ".".join(parts[:-1])
    return ".".join(parts[:-1] + [parts[-1][:-3]])


def index_of(ai):
    names, _packages = ai._dump_all()
    return set((row[0], row[1], row[4]) for row in names)


def fresh_index(root):
    from rope.base.project import Project
    from rope.contrib.autoimport.sqlite import AutoImport
    copy = tempfile.mkdtemp(prefix="ropeverif-c13ai-")
    os.rmdir(copy)
    shutil.copytree(root, copy)
    try:
        p = Project(copy, ropefolder=None)
        ai = AutoImport(p, observe=False, memory=True)
        try:
            for f in p.get_python_files():
                ai.update_resource(f)
            return index_of(ai)
        finally:
            ai.close()
            p.close()
    finally:
        shutil.rmtree(copy, ignore_errors=True)


def tree_of(root):
    files, dirs = [], []
    for dp, dns, fns in os.walk(root):
        dns.sort()
        rel = os.path.relpath(dp, root)
        base = "" if rel == "." else rel.replace(os.sep, "/") + "/"
        dirs.extend(base + d for d in dns)
        files.extend(base + f for f in sorted(fns))
    return files, dirs


def gen_text(rng):
    r = rng.random()
    if r < 0.08:
        return ""                                   # the module is emptied
    if r < 0.16:
        return "_%s = 1\n" % rng.choice(NAMES)     # only underscored (not indexed) names are left
    if r < 0.22:
        return "%s = (\n" % rng.choice(NAMES)      # a syntax error: no names can be read
    if r < 0.27:
        return "import os\n"                        # only an import
    lines = ["%s = %d" % (n, rng.randint(0, 9)) for n in rng.sample(NAMES, rng.randint(1, 2))]
    if rng.random() < 0.3:
        lines.append("def %s():\n    return 1" % rng.choice(["fa", "fb"]))
    if rng.random() < 0.3:
        lines.append("class %s:\n    pass" % rng.choice(["Ca", "Cb"]))
    return "\n".join(lines) + "\n"


def gen_step(rng, root):
    files, dirs = tree_of(root)
    pys = [f for f in files if f.endswith(".py")]
    folders = [""] + dirs
    tset = set(files) | set(dirs)

    def free_file():
        for _ in range(10):
            d = rng.choice(folders)
            nm = rng.choice(MODS) + ".py" if rng.random() < 0.8 or not d else "__init__.py"
            p = (d + "/" if d else "") + nm
            if p not in tset:
                return p
        return None

    def free_dir(exclude=None):
        for _ in range(10):
            d = rng.choice(folders)
            if d.count("/") >= 1 or (exclude and (d == exclude or d.startswith(exclude + "/"))):
                continue
            p = (d + "/" if d else "") + rng.choice(DIRS)
            if p not in tset:
                return p
        return None

    r = rng.random()
    if not pys or r < 0.22:
        p = free_file()
        return None if p is None else ["create_write", p, gen_text(rng)]
    if r < 0.30:
        return ["write", rng.choice(pys), gen_text(rng)]
    if r < 0.38:
        # the module loses all its indexable names: emptied, only underscored names, a syntax error, only an import
        return ["write", rng.choice(pys), rng.choice(["", "_%s = 1\n" % rng.choice(NAMES), "%s = (\n" % rng.choice(NAMES),
                                                       "import os\n", "# nothing left\n"])]
    if r < 0.46:
        p = free_dir()
        return None if p is None else ["mkpkg", p, gen_text(rng)]
    if r < 0.54:
        dst = free_file()
        return None if dst is None else ["move", rng.choice(pys), dst]
    if r < 0.66 and dirs:
        src = rng.choice(dirs)
        dst = free_dir(exclude=src)
        return None if dst is None else ["move", src, dst]
    if r < 0.72:
        return ["remove", rng.choice(pys)]
    if r < 0.78 and dirs:
        return ["remove", rng.choice(dirs)]
    if r < 0.88:
        return ["xwrite", rng.choice(pys), gen_text(rng)]
    if r < 0.94:
        p = free_file()
        return None if p is None else ["xcreate", p, gen_text(rng)]
    return ["xremove", rng.choice(pys)]


def py_modnames_under(root, path):
    real = os.path.join(root, *path.split("/"))
    res = set()
    if os.path.isdir(real):
        for dp, dns, fns in os.walk(real):
            for fn in fns:
                if fn.endswith(".py"):
                    rel = os.path.relpath(os.path.join(dp, fn), root).replace(os.sep, "/")
                    res.add(modname(rel))
    elif path.endswith(".py"):
        res.add(modname(path))
    return res


def run_history(steps=None, rng=None, nsteps=0):
    """returns dict(steps, failure, diagnosis, known=set of signatures met)"""
    from rope.base.project import Project
    from rope.base import change as ch
    from rope.contrib.autoimport.sqlite import AutoImport
    root = tempfile.mkdtemp(prefix="ropeverif-c13a-")
    out = {"steps": [], "failure": None, "diagnosis": None, "known": []}
    fake = [1000000000]
    dirty_folder, dirty_external = set(), set()
    with warnings.catch_warnings():
        warnings.simplefilter("ignore")
        project = Project(root, ropefolder=None)
        ai = AutoImport(project, observe=True, memory=True)
        try:
            i = 0
            while True:
                if steps is not None:
                    if i >= len(steps):
                        break
                    st = steps[i]
                else:
                    if i >= nsteps:
                        break
                    st = gen_step(rng, root) or ["noop"]
                out["steps"].append(st)
                k = st[0]
                if k == "create_write":
                    cs = ch.ChangeSet("c")
                    cs.add_change(ch.CreateResource(project.get_file(st[1])))
                    cs.add_change(ch.ChangeContents(project.get_file(st[1]), st[2]))
                    project.do(cs)
                    dirty_folder.discard(modname(st[1]))
                    dirty_external.discard(modname(st[1]))
                elif k == "write":
                    project.get_file(st[1]).write(st[2])
                    dirty_folder.discard(modname(st[1]))
                    dirty_external.discard(modname(st[1]))
                elif k == "mkpkg":
                    cs = ch.ChangeSet("p")
                    cs.add_change(ch.CreateResource(project.get_folder(st[1])))
                    cs.add_change(ch.CreateResource(project.get_file(st[1] + "/__init__.py")))
                    cs.add_change(ch.ChangeContents(project.get_file(st[1] + "/__init__.py"), st[2]))
                    project.do(cs)
                    dirty_folder.discard(modname(st[1] + "/__init__.py"))
                    dirty_external.discard(modname(st[1] + "/__init__.py"))
                elif k == "move":
                    res = project.get_resource(st[1])
                    if res.is_folder():
                        dirty_folder |= py_modnames_under(root, st[1])
                        res.move(st[2])
                        dirty_folder |= py_modnames_under(root, st[2])
                    else:
                        res.move(st[2])
                        for m in (modname(st[1]), modname(st[2])):
                            dirty_folder.discard(m)
                            dirty_external.discard(m)
                elif k == "remove":
                    res = project.get_resource(st[1])
                    if res.is_folder():
                        dirty_folder |= py_modnames_under(root, st[1])
                    else:
                        dirty_folder.discard(modname(st[1]))
                        dirty_external.discard(modname(st[1]))
                    res.remove()
                elif k in ("xwrite", "xcreate"):
                    real = os.path.join(root, *st[1].split("/"))
                    with open(real, "w") as f:
                        f.write(st[2])
                    fake[0] += 7
                    os.utime(real, (fake[0], fake[0]))
                    dirty_external.add(modname(st[1]))
                    dirty_folder.discard(modname(st[1]))
                    project.validate()
                elif k == "xremove":
                    os.remove(os.path.join(root, *st[1].split("/")))
                    dirty_external.add(modname(st[1]))
                    dirty_folder.discard(modname(st[1]))
                    project.validate()
                warm = index_of(ai)
                fresh = fresh_index(root)
                if warm != fresh:
                    diffmods = set(m for (_, m, _) in warm ^ fresh)
                    if diffmods <= dirty_folder:
                        sig = FOLDER_SIG
                    elif diffmods <= (dirty_folder | dirty_external):
                        sig = EXTERNAL_SIG
                    else:
                        sig = "autoimport-index-out-of-date"
                    if sig not in out["known"]:
                        out["known"].append(sig)
                    if out["failure"] is None or sig == "autoimport-index-out-of-date":
                        out["failure"] = {"step": i, "only_warm": sorted(warm - fresh)[:8], "only_fresh": sorted(fresh - warm)[:8]}
                        out["diagnosis"] = sig
                    if sig == "autoimport-index-out-of-date":
                        break
                i += 1
        finally:
            ai.close()
            project.close()
            shutil.rmtree(root, ignore_errors=True)
    return out


def run(ctx):
    n = ctx.scale(25, 200)
    for _ in range(n):
        rng = random.Random(ctx.rng.getrandbits(48))
        res = run_history(rng=rng, nsteps=rng.randint(5, 12))
        ctx.case(("autoimport", repr(res["steps"])), nontrivial=len(res["steps"]) >= 5)
        ctx.count("stream:C (autoimport index)")
        for s in res["steps"]:
            ctx.count("ai:" + s[0])
        if res["failure"] is not None:
            sig = res["diagnosis"]
            obj = {"kind": "autoimport-history", "steps": res["steps"][:res["failure"]["step"] + 1],
                   "failure": res["failure"], "diagnosis": sig}
            ctx.violation(obj, "C13: the auto-import index of the long-lived project differs from a brand-new index (%s): "
                          "only warm %r / only fresh %r" % (sig, res["failure"]["only_warm"][:3], res["failure"]["only_fresh"][:3]))
        if ctx.too_many():
            return


def replay(ctx, obj):
    res = run_history(steps=obj["steps"])
    return res["failure"] is not None
