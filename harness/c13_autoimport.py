"""C13, stream C: the global-name index of rope.contrib.autoimport (sqlite, in memory, observe=True)
on a long-lived project vs the index built by a brand-new AutoImport on a copy of the directory, after every step of
histories of changes through rope and behind its back (+ project.validate())."""
import os
import random
from harness.common import g_N, g_list, g_opt
import shutil
import tempfile
import warnings

FOLDER_SIG = "autoimport-folder-events: the index ignores moves and removals of folders (only file events are handled)"
EXTERNAL_SIG = "autoimport-no-validate: the index is not told about changes found by project.validate()"

NAMES = ["ka", "kb", "kc"]
# module names: ordinary ones, and pairs whose dotted names are different but "alike" for an SQL LIKE comparison
# ('_' matches any one character: m_a ~ mxa, pa_mb ~ pa.mb; ASCII case is ignored: Ma ~ ma): refreshing or deleting
# the rows of one module must leave the other's alone
MODS = ["ma", "mb", "mc", "m_a", "mxa", "Ma", "pa_mb"]
DIRS = ["pa", "pb", "pc"]


def modname(path):
    parts = path.split("/")
    if parts[-1] == "__init__.py":
        return ".".join(parts[:-1])
    return ".".join(parts[:-1] + [parts[-1][:-3]])


def index_of(ai):
    names, _packages = ai._dump_all()
    return set((row[0], row[1], row[4]) for row in names)


def fresh_index(root):
    from rope.base.project import Project
    from rope.contrib.autoimport.sqlite import AutoImport
    copy = tempfile.mkdtemp(prefix="ropeverif-c13ai-")
    os.rmdir(copy)
    shutil.copytree(root, copy)
    try:
        p = Project(copy, ropefolder=None)
        ai = AutoImport(p, observe=False, memory=True)
        try:
            for f in p.get_python_files():
                ai.update_resource(f)
            return index_of(ai)
        finally:
            ai.close()
            p.close()
    finally:
        shutil.rmtree(copy, ignore_errors=True)


AIHEADER = ("From stdpp Require Import gmap list sets.\nFrom Coq Require Import NArith.\n"
            "From RopeVerif.C13 Require Import Observer AutoImport AIRunner.\n")


class Intern:
    def __init__(self):
        self.seg, self.name = {}, {}

    def path(self, p):
        return [self.seg.setdefault(x, len(self.seg)) for x in p.split("/")]

    def nm(self, n):
        return self.name.setdefault(n, len(self.name))


def mod_to_paths(root):
    """dotted module name -> path of its file (the harness keeps the correspondence one to one)"""
    files, _ = tree_of(root)
    return {modname(f): f for f in files if f.endswith(".py")}


def abstract_index(idx, m2p, it):
    """set of (name, module, type) -> {path: sorted names}; a module whose file is gone keeps its last path"""
    res = {}
    for (name, module, _t) in idx:
        p = m2p.get(module) or (module.replace(".", "/") + ".py")
        res.setdefault(p, set()).add(name)
    return {p: sorted(v) for p, v in res.items()}


def g_p(it, p):
    return g_list([g_N(x) for x in it.path(p)])


def g_names(it, names):
    return g_list([g_N(it.nm(n)) for n in sorted(names)])


def g_index(it, d):
    return g_list(["(%s, %s)" % (g_p(it, p), g_names(it, ns)) for p, ns in sorted(d.items())])


def g_tree(it, root, fresh_names):
    files, dirs = tree_of(root)
    items = [(d, None) for d in dirs] + [(f, fresh_names.get(f, [])) for f in files if f.endswith(".py")]
    return g_list(["(%s, %s)" % (g_p(it, p), g_opt(None if v is None else g_names(it, v))) for p, v in sorted(items)])


def g_aiop(it, o):
    k = o[0]
    if k == "write":
        return "(AWrite %s %s)" % (g_p(it, o[1]), g_names(it, o[2]))
    if k == "create":
        return "(ACreate %s %s)" % (g_p(it, o[1]), "true" if o[2] else "false")
    if k == "remove":
        return "(ARemove %s)" % g_p(it, o[1])
    return "(AMove %s %s)" % (g_p(it, o[1]), g_p(it, o[2]))


def tree_of(root):
    files, dirs = [], []
    for dp, dns, fns in os.walk(root):
        dns.sort()
        rel = os.path.relpath(dp, root)
        base = "" if rel == "." else rel.replace(os.sep, "/") + "/"
        dirs.extend(base + d for d in dns)
        files.extend(base + f for f in sorted(fns))
    return files, dirs


def gen_text(rng):
    r = rng.random()
    if r < 0.08:
        return ""                                   # the module is emptied
    if r < 0.16:
        return "_%s = 1\n" % rng.choice(NAMES)     # only underscored (not indexed) names are left
    if r < 0.22:
        return "%s = (\n" % rng.choice(NAMES)      # a syntax error: no names can be read
    if r < 0.27:
        return "import os\n"                        # only an import
    lines = ["%s = %d" % (n, rng.randint(0, 9)) for n in rng.sample(NAMES, rng.randint(1, 2))]
    if rng.random() < 0.3:
        lines.append("def %s():\n    return 1" % rng.choice(["fa", "fb"]))
    if rng.random() < 0.3:
        lines.append("class %s:\n    pass" % rng.choice(["Ca", "Cb"]))
    return "\n".join(lines) + "\n"


def gen_step(rng, root):
    files, dirs = tree_of(root)
    pys = [f for f in files if f.endswith(".py")]
    folders = [""] + dirs
    tset = set(files) | set(dirs)

    def free_file():
        for _ in range(10):
            d = rng.choice(folders)
            nm = rng.choice(MODS) + ".py" if rng.random() < 0.8 or not d else "__init__.py"
            p = (d + "/" if d else "") + nm
            if p not in tset:
                return p
        return None

    def free_dir(exclude=None):
        for _ in range(10):
            d = rng.choice(folders)
            if d.count("/") >= 1 or (exclude and (d == exclude or d.startswith(exclude + "/"))):
                continue
            p = (d + "/" if d else "") + rng.choice(DIRS)
            if p not in tset:
                return p
        return None

    r = rng.random()
    if not pys or r < 0.22:
        p = free_file()
        return None if p is None else ["create_write", p, gen_text(rng)]
    if r < 0.30:
        return ["write", rng.choice(pys), gen_text(rng)]
    if r < 0.38:
        # the module loses all its indexable names: emptied, only underscored names, a syntax error, only an import
        return ["write", rng.choice(pys), rng.choice(["", "_%s = 1\n" % rng.choice(NAMES), "%s = (\n" % rng.choice(NAMES),
                                                       "import os\n", "# nothing left\n"])]
    if r < 0.46:
        p = free_dir()
        return None if p is None else ["mkpkg", p, gen_text(rng)]
    if r < 0.54:
        dst = free_file()
        return None if dst is None else ["move", rng.choice(pys), dst]
    if r < 0.66 and dirs:
        src = rng.choice(dirs)
        dst = free_dir(exclude=src)
        return None if dst is None else ["move", src, dst]
    if r < 0.72:
        return ["remove", rng.choice(pys)]
    if r < 0.78 and dirs:
        return ["remove", rng.choice(dirs)]
    if r < 0.88:
        return ["xwrite", rng.choice(pys), gen_text(rng)]
    if r < 0.94:
        p = free_file()
        return None if p is None else ["xcreate", p, gen_text(rng)]
    return ["xremove", rng.choice(pys)]


def run_history(steps=None, rng=None, nsteps=0):
    """Performs the history on a real project with an observing AutoImport.  Returns dict(steps, cases (Gallina
    terms, one per step), classes (per step: file / folder / external), disagreements [(step, only_warm, only_fresh)])."""
    from rope.base.project import Project
    from rope.base import change as ch
    from rope.contrib.autoimport.sqlite import AutoImport
    root = tempfile.mkdtemp(prefix="ropeverif-c13a-")
    out = {"steps": [], "cases": [], "classes": [], "disagreements": []}
    fake = [1000000000]
    it = Intern()
    known = {}

    def snapshot(ai):
        known.update(mod_to_paths(root))
        warm = abstract_index(index_of(ai), known, it)
        fresh = abstract_index(fresh_index(root), known, it)
        return warm, fresh

    with warnings.catch_warnings():
        warnings.simplefilter("ignore")
        project = Project(root, ropefolder=None)
        ai = AutoImport(project, observe=True, memory=True)
        try:
            warm, fresh = snapshot(ai)
            i = 0
            while True:
                if steps is not None:
                    if i >= len(steps):
                        break
                    st = steps[i]
                else:
                    if i >= nsteps:
                        break
                    st = gen_step(rng, root) or ["noop"]
                out["steps"].append(st)
                pre_tree = g_tree(it, root, fresh)
                pre_idx = g_index(it, warm)
                k = st[0]
                cls = "file"
                todo = []       # model steps; the names of written files are filled in afterwards
                if k == "create_write":
                    cs = ch.ChangeSet("c")
                    cs.add_change(ch.CreateResource(project.get_file(st[1])))
                    cs.add_change(ch.ChangeContents(project.get_file(st[1]), st[2]))
                    project.do(cs)
                    todo = [("R", ("create", st[1], False)), ("R", ("write", st[1], None))]
                elif k == "write":
                    f = project.get_file(st[1])
                    same = f.read() == st[2]      # File.write of the same contents is a no-op: no change, no event
                    f.write(st[2])
                    todo = [] if same else [("R", ("write", st[1], None))]
                elif k == "mkpkg":
                    init = st[1] + "/__init__.py"
                    cs = ch.ChangeSet("p")
                    cs.add_change(ch.CreateResource(project.get_folder(st[1])))
                    cs.add_change(ch.CreateResource(project.get_file(init)))
                    cs.add_change(ch.ChangeContents(project.get_file(init), st[2]))
                    project.do(cs)
                    todo = [("R", ("create", st[1], True)), ("R", ("create", init, False)), ("R", ("write", init, None))]
                elif k == "move":
                    res = project.get_resource(st[1])
                    cls = "folder" if res.is_folder() else "file"
                    res.move(st[2])
                    todo = [("R", ("move", st[1], st[2]))]
                elif k == "remove":
                    res = project.get_resource(st[1])
                    cls = "folder" if res.is_folder() else "file"
                    res.remove()
                    todo = [("R", ("remove", st[1]))]
                elif k in ("xwrite", "xcreate"):
                    cls = "external"
                    real = os.path.join(root, *st[1].split("/"))
                    with open(real, "w") as f:
                        f.write(st[2])
                    fake[0] += 7
                    os.utime(real, (fake[0], fake[0]))
                    project.validate()
                    todo = [("X", ([("create", st[1], False)] if k == "xcreate" else []) + [("write", st[1], None)])]
                elif k == "xremove":
                    cls = "external"
                    os.remove(os.path.join(root, *st[1].split("/")))
                    project.validate()
                    todo = [("X", [("remove", st[1])])]
                warm, fresh = snapshot(ai)

                def fill(o):
                    return ("write", o[1], fresh.get(o[1], [])) if o[0] == "write" else o
                terms = []
                for (w, o) in todo:
                    if w == "R":
                        terms.append("SRope %s" % g_aiop(it, fill(o)))
                    else:
                        terms.append("SExternal %s" % g_list([g_aiop(it, fill(x)) for x in o]))
                out["cases"].append("{| a_tree := %s; a_idx := %s; a_steps := %s; a_post := %s; a_fresh := %s |}" % (
                    pre_tree, pre_idx, g_list(terms), g_index(it, warm), g_index(it, fresh)))
                out["classes"].append(cls)
                if warm != fresh:
                    ow = sorted((p, n) for p, ns in warm.items() for n in ns if n not in fresh.get(p, []))
                    of = sorted((p, n) for p, ns in fresh.items() for n in ns if n not in warm.get(p, []))
                    out["disagreements"].append((i, ow[:6], of[:6]))
                i += 1
        finally:
            ai.close()
            project.close()
            shutil.rmtree(root, ignore_errors=True)
    return out


def run(ctx):
    n = ctx.scale(25, 200)
    hists, tagged = [], []
    for _ in range(n):
        rng = random.Random(ctx.rng.getrandbits(48))
        res = run_history(rng=rng, nsteps=rng.randint(5, 12))
        ctx.case(("autoimport", repr(res["steps"])), nontrivial=len(res["steps"]) >= 5)
        ctx.traces += 1
        ctx.count("stream:C (autoimport index)")
        for s in res["steps"]:
            ctx.count("ai:" + s[0])
        h = len(hists)
        hists.append(res)
        tagged.extend((h, j, c) for j, c in enumerate(res["cases"]))
    # the model's step against the live index, case by case
    shard = 300
    bodies = [AIHEADER + "Definition cases : list aicase := %s.\nEval vm_compute in (aimismatches cases).\n"
              "Eval vm_compute in (all_aiflags cases).\n" % g_list([c for _, _, c in tagged[k:k + shard]]).replace("; {|", ";\n {|")
              for k in range(0, len(tagged), shard)]
    outs = ctx.coq_files_parallel(bodies) if bodies else []
    mism, flags = {}, []
    for si, o in enumerate(outs):
        pairs = ctx.parse_pairs(o)
        for (i, code) in (pairs[0] if pairs else []):
            mism[si * shard + i] = code
        nums = ctx.parse_nums(o)
        flags.extend(nums[-1] if nums else [])
    ctx.extra["autoimport_coq_cases"] = len(tagged)
    per = {}
    for gi, (h, j, c) in enumerate(tagged):
        per.setdefault(h, []).append((j, mism.get(gi, 0), flags[gi] if gi < len(flags) else 0))
    indom = sum(1 for fl in flags if fl & 2)
    ctx.extra["autoimport_steps_in_domain_of_C13_autoimport_step_coherent"] = indom
    for h, res in enumerate(hists):
        rows = per.get(h, [])
        bad = [(j, code) for (j, code, fl) in rows if code]
        if bad:
            j, code = bad[0]
            ctx.violation({"kind": "autoimport-history", "steps": res["steps"][:j + 1], "diagnosis": "autoimport-index-out-of-date",
                           "failure": {"step": j, "what": "the live index differs from the model's" if code == 1 else
                                       "the brand-new index differs from the model's"}},
                          "C13: auto-import index: %s after step %d %r" % (
                              "the live index is not what the model of AutoImport's observer predicts" if code == 1 else
                              "a brand-new index is not what the model predicts", j, res["steps"][j][:2]),
                          no_input=not res["disagreements"])
        elif res["disagreements"]:
            # every step is exactly what the model predicts: the disagreement is the model's, and the model is only
            # incoherent after a step outside the domain of C13_autoimport_step_coherent
            first = [j for (j, code, fl) in rows if not fl & 2]
            i0, ow, of = res["disagreements"][0]
            if not first or first[0] > i0:
                sig = "autoimport-index-out-of-date"
            else:
                sig = {"folder": FOLDER_SIG, "external": EXTERNAL_SIG}.get(res["classes"][first[0]], "autoimport-index-out-of-date")
            ctx.violation({"kind": "autoimport-history", "steps": res["steps"][:i0 + 1], "diagnosis": sig,
                           "failure": {"step": i0, "only_warm": ow, "only_fresh": of}},
                          "C13: the auto-import index of the long-lived project differs from a brand-new index (%s): only warm %r / "
                          "only fresh %r" % (sig, ow[:3], of[:3]))
        if ctx.too_many():
            return


def replay(ctx, obj):
    res = run_history(steps=obj["steps"])
    return bool(res["disagreements"])
