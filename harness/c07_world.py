"""C07 helper: the generated project ("world"), an independent resolver with CPython's import-binding
semantics, an independent used-name analysis (ast + symtable), and the module generator.

Nothing in this file imports rope.  The resolver is the harness-side spec: statements execute in
order, a later binding of a name overrides an earlier one, `import a.b` binds `a` and loads a, a.b;
`from m import n` binds n to the attribute (or submodule) n of m; a star import binds `__all__` or
the public names of the module.
"""
import ast
import symtable
import sys

# ----------------------------------------------------------------------------- the project
LIB = {
    "la.py": "x = 'la.x'\ny = 'la.y'\n_p = 'la._p'\nclass fa:\n    pass\n",
    "lb.py": "x = 'lb.x'\nz = 'lb.z'\nclass K:\n    pass\n",
    "lc.py": "__all__ = ['w']\nw = 'lc.w'\nu = 'lc.u'\n",
    # facades: modules that define some names and re-export others (from-import and star import)
    "fz.py": "z0 = 'fz.z0'\nfrom pkg.s import f\nfrom lb import *\nzown = 'fz.zown'\n",
    "pkg/fy.py": "from pkg.t import g\nfrom .la import *\nyown = 'fy.yown'\n",
    "pkg/__init__.py": "v = 'pkg.v'\n",
    "pkg/s.py": "f = 'pkg.s.f'\nx = 'pkg.s.x'\n",
    "pkg/t.py": "g = 'pkg.t.g'\ny = 'pkg.t.y'\n",
    "pkg/la.py": "x = 'pkg.la.x'\nk2 = 'pkg.la.k2'\n",          # a sibling shadowing the top-level module la
    "pkg/types.py": "tk = 'pkg.types.tk'\ntq = 'pkg.types.tq'\n",  # a sibling named like a standard module
    "pkg/sub/__init__.py": "",
    "pkg/sub/s.py": "f = 'pkg.sub.s.f'\nk3 = 'pkg.sub.s.k3'\n",  # same module text as pkg/s.py one level up
    "pkg/sub/deep/__init__.py": "",
    "pkg/sub/deep/mod.py": "h = 'deep.mod.h'\n",
    "pkg/sub/deep/other.py": "k = 'deep.other.k'\n",
}
EXT = {"ext1.py": "e = 'ext1.e'\nx = 'ext1.x'\n"}
# standard modules used by the generator: name -> attributes that may be used
STD = {
    ("os",): ["sep", "path", "curdir"],
    ("os", "path"): ["curdir", "sep"],
    ("sys",): ["maxsize", "byteorder"],
    ("json",): ["JSONDecodeError", "JSONEncoder"],
    ("json", "decoder"): ["JSONDecoder"],
    ("collections",): ["OrderedDict"],
}
# submodules a standard module loads itself
STD_AUTOLOAD = {("os",): [("os", "path")], ("json",): [("json", "decoder")]}
FUTURE = ["annotations", "division"]


class World:
    """module table: abs dotted tuple -> dict(attrs=[...in definition order], all=None|[...], pkg=bool,
    where='proj'|'ext'|'std')"""

    def __init__(self):
        self.mods = {}
        for files, where in ((LIB, "proj"), (EXT, "ext")):
            for path, src in files.items():
                parts = path[:-3].split("/")
                is_pkg = parts[-1] == "__init__"
                if is_pkg:
                    parts = parts[:-1]
                attrs, all_, strs = self._attrs(src)
                self.mods[tuple(parts)] = dict(attrs=attrs, all=all_, pkg=is_pkg, where=where, strs=strs)
        # re-exports: names a library module takes over from another one (from m import n / from m import *);
        # origin maps the name to the object it really is
        for files in (LIB, EXT):
            for path, src in files.items():
                parts = tuple(path[:-3].split("/"))
                if parts[-1] == "__init__":
                    parts = parts[:-1]
                self._reexports(parts, src)
        for name, attrs in STD.items():
            self.mods[name] = dict(attrs=list(attrs), all=None, pkg=False, where="std", strs=set())
        self.mods[("__future__",)] = dict(attrs=list(FUTURE), all=None, pkg=False, where="std", strs=set())
        # the module under test itself (it may import itself): its attributes are whatever it defines
        for pkg in ((), ("pkg",), ("pkg", "sub")):
            self.mods[pkg + ("m",)] = dict(attrs=[], all=None, pkg=False, where="proj", strs=set(), me=True)

    @staticmethod
    def _attrs(src):
        attrs, all_, strs = [], None, set()
        for node in ast.parse(src).body:
            if isinstance(node, ast.Assign):
                for t in node.targets:
                    if isinstance(t, ast.Name):
                        if isinstance(node.value, ast.Constant) and isinstance(node.value.value, str):
                            strs.add(t.id)
                        if t.id == "__all__":
                            all_ = [e.value for e in node.value.elts]
                        if t.id not in attrs:
                            attrs.append(t.id)
            elif isinstance(node, (ast.FunctionDef, ast.ClassDef)):
                attrs.append(node.name)
        return attrs, all_, strs

    def _reexports(self, mod, src):
        me = self.mods[mod]
        me.setdefault("origin", {})
        me.setdefault("star_first", [])
        pkg = mod if me["pkg"] else mod[:-1]
        structural = []
        for node in ast.parse(src).body:
            if isinstance(node, ast.ImportFrom):
                base = pkg[:len(pkg) - (node.level - 1)] if node.level else ()
                target = tuple(base) + (tuple(node.module.split(".")) if node.module else ())
                me.setdefault("deps", []).append(target)         # importing this module loads the target too
                if len(node.names) == 1 and node.names[0].name == "*":
                    names = [(n, n) for n in self.public(target)]
                    me["star_first"].extend(n for n in self.rope_public(target) if n not in me["star_first"])
                else:
                    names = [(a.asname or a.name, a.name) for a in node.names]
                    structural.extend(k for k, _ in names)
                for k, n in names:
                    me["origin"][k] = self.origin(target, n)
                    if n in self.mods[target]["strs"]:
                        me["strs"].add(k)
            elif isinstance(node, ast.Assign):
                structural.extend(t.id for t in node.targets if isinstance(t, ast.Name))
            elif isinstance(node, (ast.FunctionDef, ast.ClassDef)):
                structural.append(node.name)
        if me["origin"]:
            every = []
            for n in structural + me["star_first"]:
                if n not in every:
                    every.append(n)
            me["attrs"] = every
            # rope iterates a module's attributes with the names of its star imports first
            me["rope_order"] = [n for n in me["star_first"] + structural if not n.startswith("_")]
            me["rope_order"] = list(dict.fromkeys(me["rope_order"]))

    def origin(self, mod, name):
        """the (module, name) an attribute really is, following re-exports"""
        o = self.mods[mod].get("origin", {}).get(name)
        return o if o is not None else (mod, name)

    def public(self, mod):
        """what `from mod import *` binds in CPython"""
        m = self.mods[mod]
        if m["all"] is not None:
            return list(m["all"])
        return [a for a in m["attrs"] if not a.startswith("_")]

    def rope_public(self, mod):
        """what rope's FromImport.get_imported_primaries yields for a star import: every attribute of
        the module not starting with an underscore (it does not read the target's __all__)"""
        if "rope_order" in self.mods[mod]:
            return list(self.mods[mod]["rope_order"])
        return [a for a in self.mods[mod]["attrs"] if not a.startswith("_")]

    def kind(self, mod):
        """3 in project, 1 standard (by first component), 2 otherwise (third party / not found)"""
        if mod in self.mods and self.mods[mod]["where"] == "proj":
            return 3
        if mod and mod[0] in sys.stdlib_module_names:
            return 1
        return 2


WORLD = World()


PLACES = {"top": (), "pkg": ("pkg",), "sub": ("pkg", "sub")}


def package_of(place):
    return PLACES[place]


def relative_forms(place, mod):
    """every way to write the absolute module `mod` in a from-import of the module under test:
    (module text, level), the absolute form first"""
    forms = [(tuple(mod), 0)]
    pkg = package_of(place)
    for k in range(1, len(pkg) + 1):
        if tuple(mod[:k]) == pkg[:k] and len(mod) >= k:
            forms.append((tuple(mod[k:]), len(pkg) - k + 1))
    return forms


def absolute(place, m, lvl):
    """absolute module name of (m, level) seen from the module under test, per CPython"""
    if lvl == 0:
        return tuple(m)
    pkg = package_of(place)
    if lvl - 1 > len(pkg) or not pkg:
        return None
    base = pkg[:len(pkg) - (lvl - 1)]
    return tuple(base) + tuple(m)


# ----------------------------------------------------------------------------- parsing import statements
def parse_imports(src):
    """top-level import statements of src, in order: list of dict(info=..., text=..., line=, end=)"""
    tree = ast.parse(src)
    lines = src.split("\n")
    res = []
    for node in tree.body:
        if isinstance(node, ast.Import):
            info = ("N", [(tuple(a.name.split(".")), a.asname) for a in node.names])
        elif isinstance(node, ast.ImportFrom):
            m = tuple(node.module.split(".")) if node.module else ()
            if len(node.names) == 1 and node.names[0].name == "*":
                info = ("S", m, node.level or 0)
            else:
                info = ("F", m, node.level or 0, [(a.name, a.asname) for a in node.names])
        else:
            continue
        text = "\n".join(lines[node.lineno - 1:node.end_lineno])
        res.append(dict(info=info, text=text, line=node.lineno, end=node.end_lineno))
    return res


def body_lines(src):
    """the non-blank lines of src that do not belong to a top-level import statement"""
    tree = ast.parse(src)
    skip = set()
    for node in tree.body:
        if isinstance(node, (ast.Import, ast.ImportFrom)):
            skip.update(range(node.lineno, node.end_lineno + 1))
    return [ln for i, ln in enumerate(src.split("\n"), 1) if i not in skip and ln.strip()]


# ----------------------------------------------------------------------------- resolver (CPython semantics)
class Invalid(Exception):
    pass


class Resolver:
    def __init__(self, place, world=WORLD):
        self.w = world
        self.place = place
        self.env = {}          # name -> ("mod", path) | ("val", modpath, attrs)
        self.loaded = set()
        self.binders = {}      # name -> list of (stmt index, obj) in execution order

    def _load(self, mod):
        for i in range(1, len(mod) + 1):
            if mod[:i] not in self.w.mods:
                raise Invalid("no module %s" % ".".join(mod[:i]))
            fresh = mod[:i] not in self.loaded
            self.loaded.add(mod[:i])
            for extra in STD_AUTOLOAD.get(mod[:i], ()):
                self.loaded.add(extra)
            if fresh:
                for dep in self.w.mods[mod[:i]].get("deps", ()):
                    self._load(dep)

    def _bind(self, idx, name, obj):
        self.env[name] = obj
        self.binders.setdefault(name, []).append((idx, obj))

    def run(self, infos):
        for idx, info in enumerate(infos):
            if info[0] == "N":
                for d, alias in info[1]:
                    self._load(d)
                    if alias:
                        self._bind(idx, alias, ("mod", d))
                    else:
                        self._bind(idx, d[0], ("mod", d[:1]))
            else:
                m = absolute(self.place, info[1], info[2])
                if m is None or not m:
                    raise Invalid("relative import beyond top-level package")
                self._load(m)
                if info[0] == "S":
                    pairs = [(n, None) for n in self.w.public(m)]
                else:
                    pairs = info[3]
                for n, alias in pairs:
                    if n in self.w.mods[m]["attrs"]:
                        om, on = self.w.origin(m, n)
                        obj = ("val", om, (on,))
                    elif m + (n,) in self.w.mods:
                        self._load(m + (n,))
                        obj = ("mod", m + (n,))
                    else:
                        raise Invalid("cannot import name %s from %s" % (n, ".".join(m)))
                    self._bind(idx, alias or n, obj)
        return self

    def resolve(self, primary):
        """canonical object of a dotted primary, or ('error', why)"""
        head = primary[0]
        if head not in self.env:
            return ("error", "NameError " + head)
        obj = self.env[head]
        for a in primary[1:]:
            if obj[0] == "mod":
                m = obj[1]
                if self.w.mods[m].get("me"):
                    obj = ("val", m, (a,))
                    continue
                if a in self.w.mods[m]["attrs"] and not (m + (a,) in self.w.mods and m + (a,) in self.loaded):
                    om, on = self.w.origin(m, a)
                    obj = ("val", om, (on,))
                elif m + (a,) in self.w.mods:
                    if m + (a,) in self.loaded:
                        obj = ("mod", m + (a,))
                    else:
                        return ("error", "AttributeError %s.%s not loaded" % (".".join(m), a))
                else:
                    return ("error", "AttributeError %s.%s" % (".".join(m), a))
            else:
                obj = ("val", obj[1], obj[2] + (a,))
        return obj


# ----------------------------------------------------------------------------- used names (ast + symtable)
class _Used(ast.NodeVisitor):
    """maximal dotted primaries rooted at a name that CPython resolves in the module's global scope and
    that is not bound by a non-import statement of the module"""

    def __init__(self, src, rope_view=False):
        # rope_view: as module_imports._UnboundNameFinder does, visit decorators, default values, annotations
        # and base classes with the finder of the *inner* scope (a default value `x=x` then counts as bound)
        self.rope_view = rope_view
        self.top = symtable.symtable(src, "<m>", "exec")
        self.stack = [self.top]
        self.used = []
        self.defined = set()
        for s in self.top.get_symbols():
            if (s.is_assigned() or s.is_namespace()) and not s.is_imported():
                self.defined.add(s.get_name())

    def _child(self, node, name):
        for c in self.stack[-1].get_children():
            if c.get_name() == name and c.get_lineno() == node.lineno:
                return c
        for c in self.stack[-1].get_children():
            if c.get_name() == name:
                return c
        raise KeyError(name)

    def _is_global_ref(self, name):
        tab = self.stack[-1]
        if tab is self.top:
            return True
        try:
            s = tab.lookup(name)
        except KeyError:
            return True
        if tab.get_type() == "class":
            return s.is_global() or not (s.is_local() or s.is_free())
        return s.is_global()

    def _scoped(self, node, name, outer_parts, inner_parts):
        if self.rope_view:
            inner_parts = list(outer_parts) + list(inner_parts)
            outer_parts = []
        for n in outer_parts:
            self.visit(n)
        self.stack.append(self._child(node, name))
        for n in inner_parts:
            self.visit(n)
        self.stack.pop()

    def visit_FunctionDef(self, node):
        a = node.args
        every = list(a.posonlyargs) + list(a.args) + list(a.kwonlyargs) + [x for x in (a.vararg, a.kwarg) if x]
        outer = (list(node.decorator_list) + list(a.defaults) + [d for d in a.kw_defaults if d]
                 + [x.annotation for x in every if x.annotation] + ([node.returns] if node.returns else []))
        self._scoped(node, node.name, outer, node.body)

    visit_AsyncFunctionDef = visit_FunctionDef

    def visit_ClassDef(self, node):
        outer = list(node.decorator_list) + list(node.bases) + [k.value for k in node.keywords]
        self._scoped(node, node.name, outer, node.body)

    def visit_Lambda(self, node):
        self._scoped(node, "lambda", list(node.args.defaults), [node.body])

    def visit_Import(self, node):
        pass

    def visit_ImportFrom(self, node):
        pass

    def _root(self, name, parts):
        if self._is_global_ref(name) and name not in self.defined:
            self.used.append(tuple([name] + parts))

    def visit_Name(self, node):
        self._root(node.id, [])

    def visit_Attribute(self, node):
        parts = []
        n = node
        while isinstance(n, ast.Attribute):
            parts.append(n.attr)
            n = n.value
        if isinstance(n, ast.Name):
            self._root(n.id, list(reversed(parts)))
        else:
            self.visit(n)


def hidden_uses(src):
    """primaries with at least one occurrence that CPython's scoping uses as a global and rope's finder
    does not see (per occurrence: another occurrence of the same primary may well be seen)"""
    import collections
    tree = ast.parse(src)
    a, b = _Used(src, False), _Used(src, True)
    a.visit(tree)
    b.visit(tree)
    diff = collections.Counter(a.used) - collections.Counter(b.used)
    return sorted(diff)


def used_and_exported(src, rope_view=False):
    """(used primaries in order of appearance without duplicates, strings of __all__, non-import globals).
    rope_view=False: CPython's scoping (the truth the oracle uses); rope_view=True: the scoping of rope's
    unbound-name finder (the input of the import model; validated against coq/C07/Unbound.v on every case)"""
    tree = ast.parse(src)
    v = _Used(src, rope_view)
    v.visit(tree)
    seen, used = set(), []
    for u in v.used:
        if u not in seen:
            seen.add(u)
            used.append(u)
    exported = []
    for node in tree.body:
        if isinstance(node, ast.Assign) and any(isinstance(t, ast.Name) and t.id == "__all__" for t in node.targets):
            if isinstance(node.value, (ast.List, ast.Tuple)):
                for e in node.value.elts:
                    if isinstance(e, ast.Constant) and isinstance(e.value, str) and e.value not in exported:
                        exported.append(e.value)
    return used, exported, sorted(v.defined)


# ----------------------------------------------------------------------------- module generator
NORMAL_POOL = [
    [(("la",), None)], [(("lb",), None)], [(("lc",), None)], [(("la",), None), (("lb",), None)],
    [(("pkg",), None)], [(("pkg", "s"), None)], [(("pkg", "t"), None)], [(("pkg", "s"), "q")],
    [(("pkg", "t"), "s")], [(("lb",), "x")], [(("pkg", "t"), "y")], [(("la",), "lb")], [(("lb",), "la")], [(("la",), "q")],
    [(("pkg", "s"), None), (("la",), None)], [(("pkg",), None), (("lb",), "q")],
    [(("os",), None)], [(("os", "path"), None)], [(("sys",), None)], [(("json",), "j")], [(("json",), None)],
    [(("sys",), None), (("os",), None)], [(("json", "decoder"), None)], [(("collections",), None)],
    [(("ext1",), None)], [(("ext1",), "e1")],
    [(("pkg", "sub", "deep", "mod"), None)], [(("pkg", "sub", "deep", "other"), None)],
    [(("pkg", "sub", "deep", "mod"), "dm")], [(("pkg", "sub", "deep"), None)], [(("pkg", "sub"), None)],
]
FROM_MODS = [("la",), ("lb",), ("lc",), ("pkg",), ("pkg", "s"), ("pkg", "t"), ("ext1",), ("os",), ("os", "path"),
             ("pkg", "sub", "deep"), ("pkg", "sub", "deep", "mod"), ("pkg", "la"), ("pkg", "sub", "s"), ("pkg", "sub"),
             ("pkg", "types"), ("fz",), ("pkg", "fy")]
FACADES = [("fz",), ("pkg", "fy")]
# siblings whose module text, written relatively, is also the name of a top-level or standard module
CLASH_MODS = [("pkg", "la"), ("pkg", "types"), ("pkg", "sub", "s")]
STAR_MODS = [("la",), ("lb",), ("pkg", "s"), ("pkg", "t"), ("ext1",), ("pkg", "la"), ("pkg", "sub", "s"),
             ("pkg", "types"), ("fz",), ("pkg", "fy"), ("lc",)]
ALIASES = ["q", "x", "y", "s", "u"]


def importable_names(mod):
    m = WORLD.mods[mod]
    names = [a for a in m["attrs"] if not a.startswith("__")]
    for other in WORLD.mods:
        if WORLD.mods[other].get("me"):
            continue
        if len(other) == len(mod) + 1 and other[:len(mod)] == mod and other[-1] not in names:
            names.append(other[-1])
    return names


def gen_info(rng, place, cfg):
    k = rng.random()
    if k < cfg["p_normal"]:
        return ("N", list(rng.choice(NORMAL_POOL)))
    if k < cfg["p_normal"] + cfg["p_star"]:
        mod = rng.choice(STAR_MODS if cfg["lc_star"] else STAR_MODS[:-1])
        if place != "top" and rng.random() < 0.3:
            mod = rng.choice(CLASH_MODS)
        if rng.random() < 0.25:
            mod = rng.choice(FACADES)                      # a module that re-exports what it offers
        forms = relative_forms(place, mod)
        m, lvl = rng.choice(forms) if rng.random() < 0.6 else forms[0]
        if not m:
            m, lvl = forms[0]
        return ("S", m, lvl)
    mod = rng.choice(FROM_MODS)
    if place != "top" and rng.random() < 0.2:
        mod = rng.choice(CLASH_MODS)
    names = importable_names(mod)
    if not cfg["private"]:
        names = [n for n in names if not n.startswith("_")] or names
    cnt = 1 if rng.random() < 0.6 else rng.randint(2, 3)
    pairs = []
    distinct = rng.sample(names, min(cnt, len(names))) if rng.random() < 0.6 else None   # several different names
    for k in range(cnt):
        n = distinct[k % len(distinct)] if distinct else rng.choice(names)
        alias = rng.choice(ALIASES) if rng.random() < cfg["p_alias"] else None
        if rng.random() < 0.04:
            alias = n
        pairs.append((n, alias))
    forms = relative_forms(place, mod)
    m, lvl = rng.choice(forms) if rng.random() < 0.6 else forms[0]
    return ("F", m, lvl, pairs)


def self_name(place):
    return package_of(place) + ("m",)


def self_spellings(place, infos):
    """the names under which the module under test imports itself"""
    me = self_name(place)
    out = []
    for i in infos:
        if i[0] == "N":
            out.extend(al or ".".join(d) for d, al in i[1] if tuple(d) == me)
        elif i[0] == "F" and absolute(place, i[1], i[2]) == me[:-1]:
            out.extend(al or n for n, al in i[3] if n == "m")
    return out


def twin_levels(place):
    """groups of from-import forms with the same module text and different levels (different modules):
    {text: [(level, absolute module), ...]}"""
    groups = {}
    for mod in FROM_MODS:
        for text, lvl in relative_forms(place, mod):
            groups.setdefault(text, [])
            if (lvl, tuple(mod)) not in groups[text]:
                groups[text].append((lvl, tuple(mod)))
    return {t: g for t, g in groups.items() if len({l for l, _ in g}) > 1}


def render_info(info, style=0):
    def pa(n, a):
        return n + (" as " + a if a else "")
    if info[0] == "N":
        sep = ", " if style != 1 else ","
        if style == 4 and len(info[1]) > 1:
            return "import " + ", \\\n    ".join(pa(".".join(d), a) for d, a in info[1])
        return "import " + sep.join(pa(".".join(d), a) for d, a in info[1])
    mod = "." * info[2] + ".".join(info[1])
    if info[0] == "S":
        return "from %s import *" % mod
    items = [pa(n, a) for n, a in info[3]]
    if style == 2:
        return "from %s import (%s)" % (mod, ", ".join(items))
    if style == 3 and len(items) > 1:
        return "from %s import (\n    %s,\n)" % (mod, ",\n    ".join(items))
    if style == 4:
        return "from %s import \\\n    %s" % (mod, ", ".join(items))
    return "from %s import %s" % (mod, ", ".join(items))


DEFAULT_CFG = dict(p_normal=0.42, p_star=0.12, p_alias=0.2, private=True, lc_star=True, all=True,
                   max_imports=8, odd_layout=True)


def use_exprs(rng, res, name):
    """expressions (as dotted tuples) that use the import-bound name and are valid at run time"""
    obj = res.env[name]
    w = res.w
    out = []
    if obj[0] == "val":
        out.append((name,))
        if obj[1] in (("os",),) and obj[2] == ("path",):
            out.append((name, "sep"))
        if len(obj[2]) == 1 and obj[2][0] in w.mods[obj[1]]["strs"]:
            out.append((name, "upper()"))
        return out
    m = obj[1]
    out.append((name,))
    for a in w.mods[m]["attrs"]:
        if a.startswith("_") and rng.random() < 0.8:
            continue
        if m + (a,) in w.mods and m + (a,) not in res.loaded:
            continue
        out.append((name, a))
    for other in sorted(res.loaded):
        if w.mods[other].get("me"):
            continue        # the package attribute is set only after the module has finished importing
        if len(other) > len(m) and other[:len(m)] == m:
            rest = other[len(m):]
            attrs = [a for a in w.mods[other]["attrs"] if not a.startswith("_")]
            if attrs:
                out.append((name,) + rest + (rng.choice(attrs),))
            if rng.random() < 0.2:
                out.append((name,) + rest)
    return out


def gen_module(rng, place, cfg=None):
    """returns source text of a module whose imports all succeed and whose uses are all bound at run
    time (per the resolver), or None when the drawn import block is not executable"""
    cfg = dict(DEFAULT_CFG, **(cfg or {}))
    n = rng.choice([0, 1, 2, 2, 3, 3, 4, 4, 5, 6, 7, 8])
    n = min(n, cfg["max_imports"])
    infos = [gen_info(rng, place, cfg) for _ in range(n)]
    if rng.random() < 0.25 and infos:                      # exact / near duplicates
        infos.insert(rng.randrange(len(infos) + 1), rng.choice(infos))
    twins = twin_levels(place)
    if twins and rng.random() < 0.2:                       # the same module text at two relative levels
        text = rng.choice(sorted(twins))
        for lvl, mod in rng.sample(twins[text], 2):
            names = [n for n in importable_names(mod) if not n.startswith("_")]
            if names:
                infos.insert(rng.randrange(len(infos) + 1), ("F", text, lvl, [(rng.choice(names), None)]))
    if place != "top" and rng.random() < 0.2:              # a relative from-import of several different names
        mod = rng.choice([m for m in FROM_MODS if len(relative_forms(place, m)) > 1])
        names = [n for n in importable_names(mod) if not n.startswith("_")]
        rel = [f for f in relative_forms(place, mod) if f[1] > 0]
        if len(names) >= 2 and rel:
            text, lvl = rng.choice(rel)
            infos.insert(rng.randrange(len(infos) + 1), ("F", text, lvl, [(n, None) for n in rng.sample(names, 2)]))
    me = None
    if rng.random() < 0.12:                                # the module imports itself
        sn = self_name(place)
        # (inside a package `import pkg.m` + pkg.m.attr fails while pkg.m is still being imported: the
        # submodule attribute is set on the package only afterwards)
        forms = [("N", [(sn, "me")])] + ([("N", [(sn, None)])] if place == "top" else [])
        if place != "top":
            forms += [("F", sn[:-1], 0, [("m", None)]), ("F", (), 1, [("m", None)]), ("F", (), 1, [("m", "me")])]
        me = rng.choice(forms)
        infos.insert(rng.randrange(len(infos) + 1), me)
    future = None
    if rng.random() < 0.15:
        future = ("F", ("__future__",), 0, [(f, None) for f in (FUTURE if rng.random() < 0.3 else [rng.choice(FUTURE)])])
    try:
        res = Resolver(place).run(infos)
    except Invalid:
        return None
    bound = sorted(res.env)
    # ---- body
    counter = [0]

    def fresh(prefix):
        counter[0] += 1
        return "%s%d" % (prefix, counter[0])

    def expr(name):
        return ".".join(rng.choice(use_exprs(rng, res, name)))

    funcs, classes, uses = [], [], []
    exported = []
    fnames = []
    helpers = {}
    bound = [b for b in bound if not (res.env[b][0] == "mod" and WORLD.mods[res.env[b][1]].get("me"))]
    for name in bound:
        k = rng.random()
        if k < 0.26:
            continue                                        # unused
        # positions evaluated at definition time in the ENCLOSING scope
        if k < 0.27:
            f = fresh("g")
            classes.append("def %s() -> %s:\n    return 1" % (f, expr(name)))
            uses.append("print(%s())" % f)
            continue
        if k < 0.28:
            f = fresh("g")
            classes.append("def %s(a: %s = 1):\n    return a" % (f, expr(name)))
            uses.append("print(%s())" % f)
            continue
        if k < 0.285:
            c = fresh("C")
            helpers["_Base"] = "class _Base:\n    def __init_subclass__(cls, **kw):\n        pass"
            classes.append("class %s(_Base, tag=%s):\n    pass" % (c, expr(name)))
            uses.append("print(%s.__name__)" % c)
            continue
        if k < 0.29:
            f = fresh("g")
            helpers["_deco"] = "def _deco(*a):\n    def w(f):\n        return f\n    return w"
            classes.append("@_deco(%s)\ndef %s():\n    return 2" % (expr(name), f))
            uses.append("print(%s())" % f)
            continue
        if k < 0.30:
            c = fresh("C")
            helpers["_mk"] = "def _mk(*a):\n    return object"
            classes.append("class %s(_mk(%s)):\n    pass" % (c, expr(name)))
            uses.append("print(%s.__name__)" % c)
            continue
        if k < 0.55:
            uses.append("print(%s)" % expr(name))
        elif k < 0.59:
            f = fresh("g")
            funcs.append("def %s():\n    return %s" % (f, expr(name)))
            fnames.append(f)
            uses.append("print(%s())" % f)
        elif k < 0.61:
            f = fresh("g")                                  # nested function: the use is two scopes down
            funcs.append("def %s():\n    def inner():\n        return %s\n    return inner()" % (f, expr(name)))
            uses.append("print(%s())" % f)
        elif k < 0.63:
            f = fresh("g")                                  # default value: evaluated in the enclosing scope
            classes.append("def %s(a=%s):\n    return a" % (f, expr(name)))    # defined after the imports
            uses.append("print(%s())" % f)
        elif k < 0.642:
            f = fresh("g")                                  # default value naming a parameter of the same name
            classes.append("def %s(%s=%s):\n    return %s" % (f, name, name, name))
            uses.append("print(%s())" % f)
        elif k < 0.65:
            uses.append("print(str(%s).strip().upper())" % expr(name))   # attribute chain over a call
        elif k < 0.71:
            f = fresh("g")                                  # shadowed by a parameter: not a use
            funcs.append("def %s(%s):\n    return %s" % (f, name, name))
            uses.append("print(%s(1))" % f)
        elif k < 0.76:
            f = fresh("g")                                  # shadowed by a local assignment: not a use
            funcs.append("def %s():\n    %s = 7\n    return %s" % (f, name, name))
            uses.append("print(%s())" % f)
        elif k < 0.79:
            c = fresh("C")                                  # class attribute of the same name: methods see the global
            classes.append("class %s:\n    %s = 3\n\n    def m(self):\n        return %s" % (c, name, expr(name)))
            uses.append("print(%s().m())" % c)
        elif k < 0.83:
            c = fresh("C")
            classes.append("class %s:\n    a = %s\n\n    def m(self):\n        return %s" % (c, expr(name), expr(name)))
            uses.append("print(%s.a, %s().m())" % (c, c))
        elif k < 0.90 and cfg["all"]:
            exported.append(name)                           # used only through __all__
        elif k < 0.95:
            v = fresh("v")
            uses.append("%s = %s\nprint(%s)" % (v, expr(name), v))
        else:
            uses.append("print(%s, %s)" % (expr(name), expr(name)))
    # one object through two routes: the from-imported name next to the same attribute reached through a
    # plainly imported module (import pkg / from pkg import v / v ... pkg.v)
    for name in bound:
        obj = res.env[name]
        if obj[0] != "val" or len(obj[2]) != 1:
            continue
        for other in bound:
            o2 = res.env[other]
            if o2[0] == "mod" and obj[1][:len(o2[1])] == o2[1] and obj[1] in res.loaded and rng.random() < 0.5:
                path = ".".join((other,) + obj[1][len(o2[1]):] + obj[2])
                uses.append("print(%s, %s)" % (name, path))
                break
    if me is not None:                                     # uses of the module's own definitions through itself
        spelling = self_spellings(place, [me])[0]
        own = fnames[:2] or None
        if own is None:
            f = fresh("g")
            funcs.append("def %s():\n    return 5" % f)
            own = [f]
        for f in own:
            uses.append("print(%s.%s())" % (spelling, f))
        if rng.random() < 0.5:                              # the module object itself, then a dotted use
            if rng.random() < 0.5:
                uses.append("print([%s][0].__name__, %s.%s())" % (spelling, spelling, own[0]))
            else:                                           # blanks in the text up to the next dot
                uses.append("print(len([%s, 0]), %s.%s())" % (spelling, spelling, own[0]))
    if exported or (cfg["all"] and rng.random() < 0.1):
        if fnames and rng.random() < 0.5:
            exported.append(fnames[0])
    # ---- layout
    out = []
    if rng.random() < 0.2:
        out.append('"""module doc"""')
        if rng.random() < 0.5:
            out.append("")
    if rng.random() < 0.15:
        out.append("# a comment")
    if future:
        out.append(render_info(future))
    odd = cfg["odd_layout"]
    pending_funcs = list(funcs)
    for i, info in enumerate(infos):
        if odd and rng.random() < 0.12:
            out.append("")
        if odd and rng.random() < 0.08 and pending_funcs:
            out.append(pending_funcs.pop(0))               # a definition between imports
            out.append("")
        if odd and rng.random() < 0.05:
            out.append("%s = %d" % (fresh("w"), i))
        style = rng.choice([0, 0, 0, 0, 1, 2, 3, 3, 4]) if odd else 0
        line = render_info(info, style)
        if odd and rng.random() < 0.06 and "\n" not in line:
            line += "  # noqa"
        out.append(line)
    for _ in range(rng.choice([0, 1, 2, 2, 3]) if odd else 2):
        out.append("")
    for f in pending_funcs + [helpers[h] for h in sorted(helpers)] + classes:
        out.append(f)
        out.append("")
    if exported:
        out.append("__all__ = [%s]" % ", ".join(repr(e) for e in exported))
    rng.shuffle(uses)
    out.extend(uses)
    return "\n".join(out) + "\n"
