"""C01 - rename preserves the program: same bindings, same behaviour.

For every generated project (harness/c01_gen.py: 1-3 modules that run and print), for EVERY identifier token of every
module and a fresh name (plus: every module file as a resource, keywords as new names, offsets that are not
identifiers):
  * rope:  Rename(project, resource, offset).get_changes(new_name) in a scratch project; the change set is reduced to
    {(module, token id)} + resource moves by comparing token streams (any change that is not a whole-token respelling
    is a failure by itself); rename._is_local(old_pyname) is observed; the changes are PERFORMED (project.do), the tree
    on disk is compared with the tree the change set describes, and undone again.
  * MODEL: the project (PyF terms with one interning table), the queries and the reduced observations go into a Coq
    case file; Rename.project_rename (coq/C01/Rename.v, on top of C02's occurrence model and C15's scope model) is
    compared with the observation inside Coq (vm_compute) on every token the model speaks about.  A second stream
    compares the ChangeCollector model with rope.base.codeanalyze.ChangeCollector on random texts and change lists
    (overlapping, empty, unordered included).
  * ORACLE (no rope, no model): (1) every changed module compiles; (2) the token skeleton is unchanged except for the
    respelled tokens; (3) the binding map of the new project computed from CPython's symtable (harness/c02_lib.oracle,
    made project-wide in harness/c01_lib.py) is the alpha-renaming of the old map: every token denotes the same binding,
    the renamed binding carries the new name, nothing is captured; (4) the entry module is run before and after in a
    fresh interpreter: same stdout, same exit status.
Streams: fixed (hand-written projects), main (generator without features), plus (one PyF+ feature switched on:
shapes on which rope's scoping is known to depart from CPython; failures there must match a recorded finding).
"""
import ast
import hashlib
import io
import keyword
import os
import re
import token as _token
import tokenize
import warnings
from concurrent.futures import ThreadPoolExecutor

from harness import c01_gen, c01_lib as L

PROPERTY = "C01"
warnings.filterwarnings("ignore")

CODE_TEXT = {
    2: "MODEL vs rope: the set of renamed tokens differs",
    3: "MODEL vs rope: one refuses, the other does not",
    4: "MODEL vs rope: one raises, the other does not",
    5: "MODEL vs rope: _is_local differs",
    6: "MODEL vs rope: the resource moves differ",
    7: "the model has no token with the id of the query",
}
ALPHA_TEXT = {0: "not-applicable", 1: "in-domain-conclusion-holds", 2: "in-domain-conclusion-FAILS",
              3: "outside-fragment-conclusion-holds", 4: "outside-fragment-conclusion-fails",
              5: "in-fragment-but-ids-not-unique-or-name-not-fresh",
              6: "several-modules:hypotheses-and-conclusion-hold", 7: "several-modules:outside-domain-conclusion-holds",
              8: "several-modules:hypotheses-hold-conclusion-FAILS", 9: "several-modules:outside-domain-conclusion-fails"}
CLASS_TEXT = {0: "not-modelled", 1: "refused", 2: "raised", 3: "local", 4: "cross-module", 5: "module-wide", 6: "module-rename"}

FIXED = [
    {"files": {"main.py": "x = 1\ndef f(a, b=2):\n    y = a + x\n    return y\nprint(f(1), f(a=2, b=x))\n"},
     "entry": "main.py"},
    {"files": {"ma.py": "x = 3\ndef f(y):\n    return y + x\nclass A:\n    x = 1\n    def f(self, y):\n        self.y = y\n        return self.y + self.x\n",
               "main.py": "import ma\nfrom ma import f, x as z\nfrom ma import A\no = A()\nprint(ma.x, f(z), ma.f(y=2), o.f(1), A.x)\n"},
     "entry": "main.py"},
    {"files": {"ma.py": "x = 1\n", "mb.py": "from ma import x\ny = x + 1\n",
               "main.py": "from mb import x, y\nimport mb as ma\nprint(x, y, ma.x)\n"},
     "entry": "main.py"},
    {"files": {"main.py": "x = 1\ndef f():\n    global x\n    x = x + 1\n    def g():\n        return x\n    return g()\nprint(f(), x)\n"
                          "y = [x for x in range(3)]\nprint(y, x, f\"{x} x\", 'x')  # x\n"},
     "entry": "main.py"},
    # comprehensions written directly in a class body: the outermost iterable reads a class attribute
    {"files": {"main.py": "class A:\n    x = 3\n    y = sum([s * 2 for s in range(x)])\n    z = len({s: 0 for s in (x, y)})\n"
                          "    def g(self):\n        return self.x + self.y\nprint(A.x, A.y, A.z, A().g())\n"},
     "entry": "main.py"},
    # import aliases that are a prefix of the file / folder name of what they stand for
    {"files": {"ma.py": "x = 1\n", "pk/__init__.py": "", "pk/mb.py": "y = 2\n",
               "main.py": "import ma as m\nfrom pk import mb as mz\nimport pk as p\nprint(m.x, mz.y, p.mb.y)\n"},
     "entry": "main.py"},
    # a module whose first line defines something spelled like the module
    {"files": {"ma.py": "def ma(x):\n    return x * 2\ny = 1\n", "main.py": "import ma\nprint(ma.ma(21), ma.y)\n"},
     "entry": "main.py"},
    # a class with __init__ and __call__: keywords at the constructor call and at a call of the instance
    {"files": {"main.py": "class A:\n    def __init__(self, x):\n        self.x = x\n    def __call__(self, y):\n"
                          "        return self.x * y\no = A(x=3)\np = A(x=1)\nprint(o(y=2), p(y=5))\n"},
     "entry": "main.py"},
    # keywords the callee swallows with **kw, spelled like visible variables
    {"files": {"main.py": "def g(x, **kw):\n    print(sorted(kw.items()))\n    return x\nz = 4\nprint(g(1, z=z, y=z))\n"
                          "def h():\n    y = 2\n    return g(y, y=y)\nprint(h())\n"},
     "entry": "main.py"},
    # the optional-import idiom: the name is bound by the import and by the fallback
    {"files": {"mb.py": "x = 5\n", "main.py": "try:\n    from mb import x\nexcept ImportError:\n    x = 0\nprint(x + 1)\n"},
     "entry": "main.py"},
    {"files": {"pk/__init__.py": "", "pk/mb.py": "z = 5\ndef g():\n    return z\n",
               "main.py": "import pk.mb\nfrom pk.mb import g\nfrom pk import mb\nprint(pk.mb.z, g(), mb.z)\n"},
     "entry": "main.py"},
]


# ============================================================================ one project
def tree_hash(files):
    h = hashlib.sha1()
    for p in sorted(files):
        h.update(p.encode())
        h.update(b"\0")
        h.update(files[p].encode("utf-8", "surrogatepass"))
        h.update(b"\0")
    return h.hexdigest()


def other_offsets(src, rng, n):
    """offsets that are not identifiers: keywords, operators, numbers"""
    out = []
    ls = L.c02_lib.line_starts(src)
    try:
        for t in tokenize.generate_tokens(io.StringIO(src).readline):
            if (t.type == _token.NAME and keyword.iskeyword(t.string)) or t.type in (_token.OP, _token.NUMBER):
                out.append((ls[t.start[0] - 1] + t.start[1], t.string))
    except (tokenize.TokenError, IndentationError):
        return []
    rng.shuffle(out)
    return out[:n]


class Analysis:
    """everything observed for one project"""


def reduce_obs(p, files, m, t, o, new_name):
    """adds edits / moved / problems to a `changes` observation"""
    problems = []
    o["edits"], o["edits_other"], o["moved"] = {}, {}, []
    for path, new in sorted(o["contents"].items()):
        old = files.get(path)
        if old is None:
            problems.append("ChangeContents for a file that does not exist: %s" % path)
            continue
        changed, why = L.reduce_contents(old, new, o["old_name"], new_name)
        if changed is None:
            problems.append("skeleton: %s: %s" % (path, why))
            continue
        mm = p.by_path.get(path)
        stray = sorted(i for i in changed if mm is None or i not in mm.by_id)
        if stray:
            problems.append("skeleton: %s: renamed tokens that are not identifiers of the program: %s" % (path, stray))
        ids = sorted(i for i in changed if mm is not None and i in mm.by_id)
        if mm is not None and mm.flat:
            o["edits"][mm.index] = ids
        else:
            o["edits_other"][path] = ids
    for (a, b) in o["moves"]:
        mm = p.by_path.get(a)
        if mm is not None and mm.flat:
            o["moved"].append(mm.index)
    if o["other"]:
        problems.append("unexpected change kinds: %s" % o["other"])
    return problems


def judge(an, files, entry, path, tid, o, new_name, run_exec=True):
    """oracle verdicts for one performed rename (list of strings); fills o['target']"""
    problems = []
    after = o.get("after")
    if "perform_exc" in o:
        problems.append("performing the changes raised %s" % o["perform_exc"])
        after = L.predicted_after(files, o)
    elif after != L.predicted_after(files, o):
        problems.append("the tree on disk after project.do is not the tree the change set describes")
    if o.get("restored") is False:
        problems.append("undo did not restore the tree")
    # (1) every module still compiles
    bad = False
    for pth, src in sorted(after.items()):
        if pth.endswith(".py") and src != files.get(pth):
            try:
                compile(src, pth, "exec")
            except (SyntaxError, ValueError) as e:
                problems.append("parse: %s does not compile any more: %s" % (pth, e))
                bad = True
    # (3) alpha-equivalence of the binding maps
    target = an.keys0[0].get((path, tid)) if tid is not None else ("mod", L.modname_of(path))
    o["target"] = target
    if not bad:
        if isinstance(target, tuple) and target[0] in ("var", "mod"):
            h = tree_hash(after)
            res = an.alpha_cache.get((h, target))
            if res is None:
                res = L.alpha_check(an.keys0, after, target, new_name, o["moves"])
                an.alpha_cache[(h, target)] = res
            problems += ["alpha: " + x for x in res[:4]]
            o["alpha"] = "checked"
        elif isinstance(target, tuple) and target[0] == "builtin":
            if after != files:
                problems.append("builtin: the builtin %r was renamed" % (target[1],))
            o["alpha"] = "builtin"
        else:
            o["alpha"] = "undetermined"
    # (4) behaviour
    if run_exec and not bad:
        e1 = L.path_after(entry, o["moves"])
        an.exec_jobs.append((tree_hash(after), after, e1, path, tid))
    return problems


def analyse(ctx, files, entry, rng, stream, only=None, exec_all=True, rp=None, paths=None, max_tokens=None):
    """Analysis of one project or None (outside the representable syntax).
    only = (path, offset, new_name) restricts to one query (replay).
    rp = a rope project that is already open on `files` (a session: earlier renames were performed in it; it is not
    closed here); paths / max_tokens restrict the queries to tokens of these modules."""
    p = L.observe_project(files)
    if p is None:
        return None
    an = Analysis()
    an.p, an.files, an.entry, an.stream = p, files, entry, stream
    an.keys0 = L.project_keys(files)
    if an.keys0 is None:
        return None
    an.alpha_cache, an.exec_jobs = {}, []
    an.new_name = L.fresh_name(files)
    an.base_run = L.run_entry(files, entry)
    an.queries = []          # (module obs, token | None, new name, kw, observation, problems)
    own_rp = rp is None
    if own_rp:
        rp = L.RopeProject(files)
    an.steps = list(getattr(rp, "steps", []))
    try:
        if only is not None:
            path, offset, nn = only
            m = p.by_path[path]
            t = None
            if offset is not None:
                t = next((t for t in m.tokens if t.offset == offset), None)
            o = rp.rename(path, offset, nn)
            probs = []
            if o["kind"] == "changes":
                probs = reduce_obs(p, files, m, t, o, nn)
                jp, jt = path, (t.id if t is not None else None)
                if t is None and offset is not None:
                    for mm in p.mods:
                        ids = o["edits"].get(mm.index) if mm.flat else o["edits_other"].get(mm.path)
                        if ids:
                            jp, jt, t = mm.path, ids[0], mm.by_id[ids[0]]
                            break
                probs += judge(an, files, entry, jp, jt, o, nn)
            an.queries.append((m, t, nn, keyword.iskeyword(nn), o, probs))
        else:
            for m in p.mods:
                if paths is not None and m.path not in paths:
                    continue
                nb = 0
                toks_m = list(m.tokens)
                if max_tokens is not None and len(toks_m) > max_tokens:
                    # one token per spelling first, so that several bindings are asked
                    first = {}
                    for t in toks_m:
                        first.setdefault(t.name, t)
                    toks_m = sorted(first.values(), key=lambda t: t.id)
                    rng.shuffle(toks_m)
                    toks_m = sorted(toks_m[:max_tokens], key=lambda t: t.id)
                for t in toks_m:
                    if an.keys0[0].get((m.path, t.id), ("",))[0] == "builtin" if isinstance(an.keys0[0].get((m.path, t.id)), tuple) else False:
                        # uses of builtins: a recorded finding (the rename is accepted); two per module are enough
                        nb += 1
                        if nb > 2 and stream != "fixed":
                            continue
                    o = rp.rename(m.path, t.offset, an.new_name)
                    probs = []
                    if o["kind"] == "changes":
                        probs = reduce_obs(p, files, m, t, o, an.new_name)
                        probs += judge(an, files, entry, m.path, t.id, o, an.new_name, run_exec=exec_all or rng.random() < 0.25)
                    elif o["kind"] == "raised":
                        k = an.keys0[0].get((m.path, t.id))
                        o["target"] = k
                    an.queries.append((m, t, an.new_name, False, o, probs))
                if paths is not None:
                    continue
                # the module itself
                if m.flat or m.path.endswith("__init__.py"):
                    o = rp.rename(m.path, None, an.new_name)
                    probs = []
                    if o["kind"] == "changes":
                        o.setdefault("old_name", m.name.split(".")[-1])
                        probs = reduce_obs(p, files, m, None, o, an.new_name)
                        probs += judge(an, files, entry, m.path, None, o, an.new_name)
                    an.queries.append((m, None, an.new_name, False, o, probs))
                # refusal stream: a keyword as the new name, offsets that are not identifiers
                toks = list(m.tokens)
                rng.shuffle(toks)
                for t in toks[:2]:
                    kw = rng.choice(["class", "for", "None", "lambda", "in"])
                    o = rp.rename(m.path, t.offset, kw, perform=False)
                    probs = []
                    if o["kind"] == "changes":
                        probs.append("refusal: the keyword %r was accepted as the new name" % kw)
                        reduce_obs(p, files, m, t, o, kw)
                    an.queries.append((m, t, kw, True, o, probs))
                for (off, s) in other_offsets(m.src, rng, 3):
                    o = rp.rename(m.path, off, an.new_name)
                    probs = []
                    if o["kind"] == "changes" and o["contents"]:
                        # rope took the offset for an identifier next to it: judged like a rename of the binding
                        # of the first token it respelled
                        probs = reduce_obs(p, files, m, None, o, an.new_name)
                        first = None
                        for mm in p.mods:
                            ids = o["edits"].get(mm.index) if mm.flat else o["edits_other"].get(mm.path)
                            if ids:
                                first = (mm, mm.by_id[ids[0]])
                                break
                        if first is not None:
                            probs += judge(an, files, entry, first[0].path, first[1].id, o, an.new_name)
                            q = (first[0], first[1], an.new_name, False, o, probs)
                            an.shadow = getattr(an, "shadow", [])
                            an.shadow.append(q + (m.path, off))
                            an.other = getattr(an, "other", [])
                            an.other.append((m, off, s, o, []))
                            continue
                    if o["kind"] == "changes" and o["contents"]:
                        # rope took the offset for an identifier next to it: the result must still be a rename
                        after = o.get("after") or L.predicted_after(files, o)
                        for pth, src in after.items():
                            if pth.endswith(".py"):
                                try:
                                    compile(src, pth, "exec")
                                except SyntaxError as e:
                                    probs.append("parse: offset %d (%r): %s does not compile: %s" % (off, s, pth, e))
                        if not probs:
                            an.exec_jobs.append((tree_hash(after), after, L.path_after(entry, o["moves"]), m.path, ("off", off)))
                    elif o["kind"] == "raised":
                        probs.append("refusal: offset %d (%r) is not an identifier: %s instead of a refusal" % (off, s, o["exc"]))
                    an.other = getattr(an, "other", [])
                    an.other.append((m, off, s, o, probs))
    finally:
        if own_rp:
            rp.close()
    # behaviour oracle, one run per distinct resulting tree
    distinct = {}
    for (h, after, e1, path, tid) in an.exec_jobs:
        distinct.setdefault(h, (after, e1))
    with ThreadPoolExecutor(max_workers=12) as ex:
        runs = dict(zip(distinct, ex.map(lambda v: L.run_entry(v[0], v[1]), distinct.values())))
    an.exec_runs = len(distinct)
    bad_exec = {}
    for (h, after, e1, path, tid) in an.exec_jobs:
        r = runs[h]
        if (r[0], r[1]) != (an.base_run[0], an.base_run[1]):
            bad_exec[(path, tid if not isinstance(tid, tuple) else tid)] = (
                "exec: exit %r -> %r (%s), stdout %s" % (an.base_run[0], r[0], r[2],
                                                       "unchanged" if r[1] == an.base_run[1] else "differs"))
    for (m, t, nn, kw, o, probs) in an.queries:
        k = (m.path, t.id if t is not None else None)
        if not kw and k in bad_exec and o["kind"] == "changes":
            probs.append(bad_exec[k])
    for q in getattr(an, "shadow", []):
        k = (q[0].path, q[1].id)
        if k in bad_exec:
            q[5].append(bad_exec[k])
    for (m, off, s, o, probs) in getattr(an, "other", []):
        k = (m.path, ("off", off))
        if k in bad_exec:
            probs.append(bad_exec[k] + " (offset %d, %r)" % (off, s))
    return an


def run_session(ctx, files, entry, rng, stream):
    """A two-step session in ONE rope project: a rename in a library module is performed and kept, then other names of
    that module are renamed in the same project and judged against the tree after the first step (what rope cached
    while resolving the first rename must not leak into the second).  Returns the Analysis of step two or None."""
    p = L.observe_project(files)
    if p is None:
        return None
    libs = [m for m in p.mods if m.path != entry and not m.path.endswith("__init__.py") and m.tokens]
    if not libs:
        return None
    libs.sort(key=lambda m: (-m.path.count("/"), m.path))       # the deepest module first
    target = libs[0] if rng.random() < 0.8 else rng.choice(libs)
    keys0 = L.project_keys(files)
    if keys0 is None:
        return None
    rp = L.RopeProject(files)
    try:
        name1 = L.fresh_name(files)
        cands = [t for t in target.tokens if isinstance(keys0[0].get((target.path, t.id)), tuple)
                 and keys0[0][(target.path, t.id)][0] == "var"]
        rng.shuffle(cands)
        done = None
        for t in cands[:6]:
            o = rp.rename(target.path, t.offset, name1, perform=False)
            if o["kind"] == "changes" and o["contents"] and not o["moves"] and target.path in o["contents"]:
                files1 = rp.commit(target.path, t.offset, name1)
                if files1 is not None:
                    done = (t, files1)
                    break
        if done is None:
            return None
        t1, files1 = done
        for pth, src in files1.items():
            if pth.endswith(".py"):
                try:
                    compile(src, pth, "exec")
                except SyntaxError:
                    return None             # the first step itself went wrong: that is the single-rename stream's business
        an = analyse(ctx, files1, entry, rng, "session", rp=rp, paths={target.path}, max_tokens=8)
        if an is not None:
            an.files0, an.entry0 = files, entry
        return an
    finally:
        rp.close()


# ============================================================================ Coq
def parse_evals(out):
    res = []
    for mm in re.finditer(r"^\s*= (.*?)\n\s*: ", out, re.S | re.M):
        txt = mm.group(1).replace("%N", "").replace(";", ",")
        txt = re.sub(r"\s+", " ", txt)
        res.append(ast.literal_eval(txt))
    return res


def coq_queries(an):
    qs = []
    for (m, t, nn, kw, o, probs) in an.queries:
        if not m.flat:
            continue
        if o["kind"] == "changes" and "edits" not in o:
            continue
        qs.append((m.index, t.id if t is not None else 999999, kw, o))
    return qs


def case_file(ans):
    return (L.HEADER + "Definition cases : list case := [\n%s\n].\n"
            "Eval vm_compute in (all_results cases).\n"
            % ";\n".join(L.g_case(an.p, coq_queries(an), an.new_name) for an in ans))


def coq_results(ctx, ans, chunk=2):
    """per analysis: ([(query index, code)], [class per query], [alpha class per query])"""
    bodies = [case_file(ans[i:i + chunk]) for i in range(0, len(ans), chunk)]
    outs = ctx.coq_files_parallel(bodies) if len(bodies) > 1 else [ctx.coq_file(b) for b in bodies]
    res = []
    for k, out in enumerate(outs):
        n = len(ans[k * chunk:(k + 1) * chunk])
        ev = parse_evals(out)
        if len(ev) != 1 or len(ev[0]) != n:
            raise RuntimeError("unexpected coqc output:\n" + out[-2000:])
        for (bad, classes, alpha, regressed, multi) in ev[0]:
            res.append((list(bad), classes, [a if a else b for a, b in zip(alpha, multi)], regressed))
    return res


# ============================================================================ signatures of known findings
def signature(obj):
    if obj.get("kind") not in ("rename", "session"):
        return None
    return obj.get("focus") or None


def candidates_of(an, m, t, o, probs, model=False):
    """the recorded shapes the project contains for the renamed name, in a fixed order (structural facts of the sources
    alone: no rope, no model)"""
    target = o.get("target")
    if isinstance(target, tuple) and target[0] == "builtin":
        yield "builtin-renamed"
    if t is not None and re.fullmatch(r"__\w+__", t.name):
        yield "special-name-renamed"
    if t is not None and module_alias(m, t.name) and o.get("moves"):
        yield "module-alias-moves-module"
    name = t.name if t is not None else m.name.split(".")[-1]
    mods = an.p.mods
    if any(comp_first_iterable(x.tr.tree, name) for x in mods):
        yield "comprehension-first-iterable"
    if any(import_rebound(x.tr.tree, name) for x in mods):
        yield "import-rebound"
    for x in mods:
        # ... or `name` is imported under an alias that is such a name (from m import name as k: the token is
        # evaluated through k)
        for c in ast.walk(x.tr.tree):
            if isinstance(c, ast.ImportFrom):
                for a in c.names:
                    if a.name == name and a.asname and import_rebound(x.tr.tree, a.asname):
                        yield "import-rebound"
    for x in mods:
        # ... or the object of an attribute access .name is such a name
        for c in ast.walk(x.tr.tree):
            if isinstance(c, ast.Attribute) and c.attr == name and isinstance(c.value, ast.Name) \
                    and import_rebound(x.tr.tree, c.value.id):
                yield "import-rebound"
    if same_line_conflation(mods, name):
        yield "same-line-import-conflation"
    if any(class_body_read_before_bind(x.tr.tree, name) for x in mods):
        yield "class-body-read-before-bind"
    for x in mods:
        # ... or `name` is an attribute of a class whose body reads another name before binding it (the value rope
        # infers for the attribute, and through it the objects of `self`, then comes from the wrong callee)
        for c in ast.walk(x.tr.tree):
            if isinstance(c, ast.ClassDef):
                attrs = {n.id for st in c.body if not isinstance(st, (ast.FunctionDef, ast.AsyncFunctionDef, ast.ClassDef))
                         for n in ast.walk(st) if isinstance(n, ast.Name) and isinstance(n.ctx, ast.Store)}
                attrs |= {n.attr for n in ast.walk(c) if isinstance(n, ast.Attribute) and isinstance(n.ctx, ast.Store)}
                if name in attrs:
                    others = {n.id for st in c.body for n in ast.walk(st) if isinstance(n, ast.Name)} - {name}
                    mini = ast.Module(body=[c], type_ignores=[])
                    if any(class_body_read_before_bind(mini, f) for f in others):
                        yield "class-body-read-before-bind"
    for x in mods:
        # ... or the callee of a keyword argument spelled `name` is such a name
        for c in ast.walk(x.tr.tree):
            if isinstance(c, ast.Call) and isinstance(c.func, ast.Name) and any(k.arg == name for k in c.keywords) \
                    and class_body_read_before_bind(x.tr.tree, c.func.id):
                yield "class-body-read-before-bind"
    if any(param_of_rebound_def(x.tr.tree, name) for x in mods):
        yield "param-default-of-rebound-def"
    if any(special_param(x.tr.tree, name) for x in mods):
        yield "keyword-only-parameter"
    if any(class_body_attribute_lookup(x.tr.tree, name) for x in mods):
        yield "class-body-attribute-lookup"
    if any(nonlocal_decl(x.tr.tree, name) for x in mods):
        yield "nonlocal-declaration"
    if any(header_expression(x.tr.tree, name) for x in mods):
        yield "header-expression"
    if instance_attribute_hides_inherited([x.tr.tree for x in mods], name):
        yield "instance-attribute-hides-inherited"
    if any(isinstance(c, ast.Call) and isinstance(c.func, ast.Call) and c.func.keywords and any(k.arg == name for k in c.keywords)
           for x in mods for c in ast.walk(x.tr.tree)):
        yield "keyword-of-call-result"
    # defects that were repaired in /repo (their replays live in corpus/C01): checked last, so that a failure
    # with a recorded cause is not attributed to them
    if any(kwarg_in_fstring(x.tr.tree, name) for x in mods):
        yield "keyword-argument-in-fstring"
    if (model or any(p.startswith(("skeleton:", "parse:")) for p in probs)) and any(name.lower() in string_prefixes(x.src) for x in mods):
        yield "string-prefix-as-occurrence"
    if any(genexp_first_token(x.tr.tree, x.src, name) for x in mods):
        yield "genexp-first-token"
    return


EXPECTED = {
    # signature -> the kinds of failure the defect produces; a failure of another kind on an input that merely contains
    # the shape is not attributed to the finding
    "comprehension-first-iterable": {"alpha", "exec:NameError", "exec:UnboundLocalError", "exec:output"},
    "import-rebound": {"alpha", "exec:ImportError", "exec:AttributeError", "exec:NameError", "exec:TypeError"},
    "same-line-import-conflation": {"alpha", "exec:ImportError", "exec:NameError", "exec:AttributeError"},
    "class-body-read-before-bind": {"alpha", "exec:NameError", "exec:TypeError", "exec:AttributeError", "exec:output"},
    "param-default-of-rebound-def": {"alpha", "exec:NameError", "exec:TypeError", "exec:UnboundLocalError"},
    "special-name-renamed": {"alpha", "exec:TypeError", "exec:AttributeError", "exec:output"},
    # ... or, when the body only reads the parameter, a homonymous outer variable captures the read: output differs
    "keyword-only-parameter": {"alpha", "exec:NameError", "exec:TypeError", "exec:UnboundLocalError", "exec:output"},
    "class-body-attribute-lookup": {"alpha", "exec:NameError", "exec:AttributeError", "exec:TypeError", "exec:output"},
    "nonlocal-declaration": {"parse", "alpha", "exec:SyntaxError", "exec:NameError", "exec:UnboundLocalError", "exec:output"},
    "instance-attribute-hides-inherited": {"alpha", "exec:AttributeError"},
    "header-expression": {"alpha", "exec:NameError", "exec:UnboundLocalError", "exec:TypeError", "exec:output"},
    "keyword-of-call-result": {"alpha", "exec:TypeError"},
}


def failure_kinds(probs):
    """(kinds of the oracle's verdicts, positions (path, line) of the tokens the alpha verdicts name)"""
    kinds, pos = set(), set()
    for p in probs:
        head = p.split(":", 1)[0]
        if head == "exec":
            mm = re.search(r"exit (\S+) -> (\S+) \((\w*)\)", p)
            if mm and mm.group(1) != mm.group(2) and mm.group(3):
                kinds.add("exec:" + mm.group(3))
            else:
                kinds.add("exec:output")
        else:
            kinds.add(head)
        if head == "alpha":
            for mm in re.finditer(r"(\S+\.py):(\d+):\d+ '", p):
                pos.add((mm.group(1), int(mm.group(2))))
    return kinds, pos


def shape_spans(sig, mods, name):
    """{path: [(first line, last line)]} of the places where the shape of a finding occurs; None = no locality
    is claimed for this finding"""
    out = {}
    for x in mods:
        spans = []
        for n in ast.walk(x.tr.tree):
            if sig == "comprehension-first-iterable" and isinstance(n, (ast.ListComp, ast.SetComp, ast.DictComp, ast.GeneratorExp)):
                bound = set()
                for g in n.generators:
                    bound |= target_ids(g.target)
                if name in bound and name in target_ids(n.generators[0].iter):
                    spans.append((n.lineno, n.end_lineno))
            elif sig == "header-expression" and isinstance(n, (ast.FunctionDef, ast.AsyncFunctionDef, ast.ClassDef)):
                if header_expression(ast.Module(body=[n], type_ignores=[]), name):
                    spans.append((n.lineno, n.end_lineno))
            elif sig == "nonlocal-declaration" and isinstance(n, (ast.FunctionDef, ast.AsyncFunctionDef)):
                if any(isinstance(c, ast.Nonlocal) and name in c.names for c in ast.walk(n)):
                    spans.append((n.lineno, n.end_lineno))
        out[x.path] = spans
    if sig in ("comprehension-first-iterable", "header-expression", "nonlocal-declaration"):
        return out
    return None


def confirmed(sig, an, name, probs, model):
    """the failure is the one the finding predicts: every verdict is of an expected kind and, where the defect is
    local, an alpha verdict names a token inside the shape"""
    if model or sig not in EXPECTED:
        return True
    kinds, pos = failure_kinds(probs)
    if not kinds <= EXPECTED[sig]:
        return False
    spans = shape_spans(sig, an.p.mods, name)
    if spans is not None and pos:
        return any(any(lo <= line <= hi for (lo, hi) in spans.get(path, [])) for (path, line) in pos)
    return True


def focus_of(an, m, t, o, probs, model=False):
    """the recorded finding that explains a failing rename: the first shape present in the sources whose predicted
    failure is the observed one; None = unexplained"""
    name = t.name if t is not None else m.name.split(".")[-1]
    for sig in candidates_of(an, m, t, o, probs, model):
        if confirmed(sig, an, name, probs, model):
            return sig
    return None


def header_expression(tree, name):
    """the header of a def / class (default values, annotations, decorators, base classes) reads `name`, and the
    scope being defined binds `name` itself (parameter, assignment, def, class, import): rope evaluates the header
    inside that scope (finding C02-header-expression)"""
    for n in ast.walk(tree):
        if isinstance(n, (ast.FunctionDef, ast.AsyncFunctionDef)):
            a = n.args
            every = a.posonlyargs + a.args + a.kwonlyargs + [x for x in (a.vararg, a.kwarg) if x]
            header = list(n.decorator_list) + list(a.defaults) + [x for x in a.kw_defaults if x is not None] \
                + [x.annotation for x in every if x.annotation is not None] + ([n.returns] if n.returns else [])
            bound = {x.arg for x in every}
        elif isinstance(n, ast.ClassDef):
            header = list(n.decorator_list) + list(n.bases) + [k.value for k in n.keywords]
            bound = set()
        else:
            continue
        if not any(name in target_ids(h) for h in header):
            continue
        if isinstance(n, (ast.FunctionDef, ast.AsyncFunctionDef)):
            # a global / nonlocal declaration of the name in the def: the header is evaluated as if it applied there
            for x in ast.walk(n):
                if isinstance(x, (ast.Global, ast.Nonlocal)) and name in x.names:
                    return True
        for s in n.body:
            for x in ast.walk(s):
                if isinstance(x, ast.Name) and isinstance(x.ctx, (ast.Store, ast.Del)):
                    bound.add(x.id)
                elif isinstance(x, (ast.FunctionDef, ast.AsyncFunctionDef, ast.ClassDef)):
                    bound.add(x.name)
                elif isinstance(x, ast.alias):
                    bound.add((x.asname or x.name).split(".")[0])
                elif isinstance(x, ast.Attribute) and isinstance(n, ast.ClassDef) and isinstance(x.ctx, ast.Store):
                    bound.add(x.attr)       # self.<name> counts as an attribute of the class for rope
        if name in bound or (isinstance(n, ast.ClassDef) and n.bases):
            return True
    return False


def nonlocal_decl(tree, name):
    return any(isinstance(n, ast.Nonlocal) and name in n.names for n in ast.walk(tree))


def instance_attribute_hides_inherited(trees, name):
    """a class with base classes assigns self.<name> in a method and does not bind <name> in its body, while
    another class binds <name> in its body: rope takes K.<name> for the instance attribute of K"""
    binders, hiders = False, False
    for tree in trees:
        for c in ast.walk(tree):
            if not isinstance(c, ast.ClassDef):
                continue
            own = False
            for s in c.body:
                if isinstance(s, (ast.FunctionDef, ast.AsyncFunctionDef, ast.ClassDef)):
                    own = own or s.name == name
                else:
                    own = own or any(isinstance(n, ast.Name) and n.id == name and isinstance(n.ctx, ast.Store)
                                     for n in ast.walk(s))
            if own:
                binders = True
            elif c.bases:
                for s in c.body:
                    if isinstance(s, (ast.FunctionDef, ast.AsyncFunctionDef)):
                        for n in ast.walk(s):
                            if isinstance(n, ast.Attribute) and n.attr == name and isinstance(n.ctx, ast.Store):
                                hiders = True
    return binders and hiders


def kwarg_in_fstring(tree, name):
    """f"{f(name=...)}": a keyword argument spelled `name` inside a replacement field"""
    for n in ast.walk(tree):
        if isinstance(n, ast.JoinedStr):
            for c in ast.walk(n):
                if isinstance(c, ast.keyword) and c.arg == name:
                    return True
                if isinstance(c, ast.arg) and c.arg == name:        # parameter of a lambda in the field
                    return True
    return False


def class_body_attribute_lookup(tree, name):
    """a class body reads `name` without binding it, and the class has base classes or a method that assigns
    self.<name>: rope finds the inherited / instance attribute, Python the enclosing binding (finding C15)"""
    for c in ast.walk(tree):
        if not isinstance(c, ast.ClassDef):
            continue
        reads = binds = selfattr = False
        for s in c.body:
            if isinstance(s, (ast.FunctionDef, ast.AsyncFunctionDef)):
                if s.name == name:
                    binds = True
                for d in s.decorator_list + s.args.defaults + [x for x in s.args.kw_defaults if x is not None]:
                    reads = reads or name in target_ids(d)
                for n in ast.walk(s):
                    if isinstance(n, ast.Attribute) and n.attr == name and isinstance(n.ctx, ast.Store):
                        selfattr = True
                continue
            if isinstance(s, ast.ClassDef):
                if s.name == name:
                    binds = True
                continue
            for n in ast.walk(s):
                if isinstance(n, ast.Name) and n.id == name:
                    if isinstance(n.ctx, ast.Load):
                        reads = True
                    else:
                        binds = True
        if reads and not binds and (c.bases or selfattr):
            return True
    return False


def special_param(tree, name):
    """a keyword-only or positional-only parameter spelled `name` (rope's function scopes do not hold them)"""
    for n in ast.walk(tree):
        if isinstance(n, (ast.FunctionDef, ast.AsyncFunctionDef, ast.Lambda)):
            if name in [a.arg for a in n.args.kwonlyargs + n.args.posonlyargs]:
                return True
    return False


def param_of_rebound_def(tree, name):
    """def f(..., name=default, ...) in a block that binds f a second time (def, class, import, assignment)"""
    for n in ast.walk(tree):
        if not isinstance(n, (ast.Module, ast.FunctionDef, ast.AsyncFunctionDef, ast.ClassDef)):
            continue
        count = {}
        defs = []

        def scan(body):
            for s in body:
                if isinstance(s, (ast.FunctionDef, ast.AsyncFunctionDef, ast.ClassDef)):
                    count[s.name] = count.get(s.name, 0) + 1
                    if not isinstance(s, ast.ClassDef):
                        defs.append(s)
                    continue
                if isinstance(s, ast.Import):
                    for a in s.names:
                        k = a.asname or a.name.split(".")[0]
                        count[k] = count.get(k, 0) + 1
                elif isinstance(s, ast.ImportFrom):
                    for a in s.names:
                        k = a.asname or a.name
                        count[k] = count.get(k, 0) + 1
                else:
                    for x in ast.walk(s):
                        if isinstance(x, ast.Name) and isinstance(x.ctx, ast.Store):
                            count[x.id] = count.get(x.id, 0) + 1
                for f in ("body", "orelse", "finalbody"):
                    b = getattr(s, f, None)
                    if isinstance(b, list) and b and isinstance(b[0], ast.stmt):
                        scan(b)
                for h in getattr(s, "handlers", []) or []:
                    scan(h.body)

        scan(n.body)
        for d in defs:
            if count.get(d.name, 0) > 1:
                a = d.args
                pos = a.posonlyargs + a.args
                defaulted = [x.arg for x in pos[len(pos) - len(a.defaults):]]
                defaulted += [x.arg for x, dv in zip(a.kwonlyargs, a.kw_defaults) if dv is not None]
                if name in defaulted:
                    return True
    return False


def same_line_conflation(mods, name):
    """some module imports N from project module M under the spelling `name` (imports of imports followed), and
    the module that defines N binds `name` a second time on the line that first binds N at module level (another
    scope, or another variable when N != name)"""
    by_name = {x.name: x for x in mods}

    def origin(mod, n, fuel=6):
        """(module observation, name) that `n` of module `mod` stands for"""
        while fuel:
            fuel -= 1
            src = by_name.get(mod)
            if src is None:
                return None
            hop = None
            for st in ast.walk(src.tr.tree):
                if isinstance(st, ast.ImportFrom) and not st.level and st.module in by_name:
                    for a in st.names:
                        if (a.asname or a.name) == n:
                            hop = (st.module, a.name)
            if hop is None:
                return src, n
            mod, n = hop
        return None

    for x in mods:
        for st in ast.walk(x.tr.tree):
            if isinstance(st, ast.ImportFrom) and not st.level and st.module in by_name:
                for a in st.names:
                    if (a.asname or a.name) != name:
                        continue
                    o = origin(st.module, a.name)
                    if o is None:
                        continue
                    src, n = o
                    line = first_binding_line(src.tr.tree, n)
                    if line is None:
                        continue
                    count = 0
                    for tk in src.tokens:
                        if tk.line == line and tk.name == name and tk.kind in ("KStore", "KParam", "KDefName", "KClassName"):
                            count += 1
                    if count > (1 if n == name else 0):
                        return True
    return False


def first_binding_line(tree, name):
    """line of the first statement executed at module level that binds `name` in the module's own scope"""
    scoped = (ast.FunctionDef, ast.AsyncFunctionDef, ast.ClassDef, ast.Lambda, ast.ListComp, ast.SetComp,
              ast.DictComp, ast.GeneratorExp)

    def binds(node):
        if isinstance(node, ast.Name) and isinstance(node.ctx, ast.Store) and node.id == name:
            return True
        if isinstance(node, ast.alias) and (node.asname or node.name).split(".")[0] == name:
            return True
        for c in ast.iter_child_nodes(node):
            if isinstance(c, scoped):
                if isinstance(c, (ast.FunctionDef, ast.AsyncFunctionDef, ast.ClassDef)) and c.name == name:
                    return True
                continue
            if binds(c):
                return True
        return False

    for s in tree.body:
        if isinstance(s, (ast.FunctionDef, ast.AsyncFunctionDef, ast.ClassDef)):
            if s.name == name:
                return s.lineno
            continue
        if binds(s):
            for n in ast.walk(s):
                if isinstance(n, ast.Name) and isinstance(n.ctx, ast.Store) and n.id == name:
                    return n.lineno
            return s.lineno
    return None


def class_body_read_before_bind(tree, name):
    """a class body reads `name` in a statement that runs BEFORE the body has bound it (up to and including the
    statement of the first binding: `x = min(x, 7)`), and binds it: at run time the read sees the enclosing binding,
    rope groups it with the class attribute.  A read after the binding is the attribute for both."""
    for c in ast.walk(tree):
        if isinstance(c, ast.ClassDef):
            early = bound = False
            for s in c.body:
                if isinstance(s, (ast.FunctionDef, ast.AsyncFunctionDef, ast.ClassDef)):
                    heads = list(s.decorator_list)
                    if hasattr(s, "args"):
                        heads += list(s.args.defaults) + [x for x in s.args.kw_defaults if x is not None]
                    else:
                        heads += list(s.bases)
                    if not bound and any(name in target_ids(d) for d in heads):
                        early = True
                    if s.name == name:
                        bound = True
                    continue
                loads = stores = False
                for n in ast.walk(s):
                    if isinstance(n, ast.Name) and n.id == name:
                        if isinstance(n.ctx, ast.Load):
                            loads = True
                        else:
                            stores = True
                if loads and not bound:
                    early = True
                if stores:
                    bound = True
            if early and bound:
                return True
    return False


def genexp_first_token(tree, src, name):
    """f(name ... for name in ...): the generator expression has no parentheses of its own and its element starts
    with the variable it binds"""
    ls = L.c02_lib.line_starts(src)
    for n in ast.walk(tree):
        if isinstance(n, ast.Call) and len(n.args) == 1 and not n.keywords and isinstance(n.args[0], ast.GeneratorExp):
            g = n.args[0]
            between = src[ls[n.func.end_lineno - 1] + n.func.end_col_offset:ls[g.elt.lineno - 1] + g.elt.col_offset]
            if between.strip() == "(":
                first = g.elt
                while True:
                    kids = [c for c in ast.iter_child_nodes(first) if isinstance(c, ast.expr)]
                    kids = [c for c in kids if (c.lineno, c.col_offset) == (first.lineno, first.col_offset)]
                    if isinstance(first, ast.Name) or not kids:
                        break
                    first = kids[0]
                bound = set()
                for gg in g.generators:
                    bound |= target_ids(gg.target)
                if isinstance(first, ast.Name) and first.id == name and name in bound:
                    return True
    return False


def import_rebound(tree, name):
    """some block binds `name` by an import statement and also by another import (of something else), a def or a
    class: rope keeps one PyName per scope and name"""
    def scan(body):
        found = set()
        for s in body:
            if isinstance(s, ast.Import):
                for a in s.names:
                    if (a.asname or a.name.split(".")[0]) == name:
                        found.add(("mod", a.name))
            elif isinstance(s, ast.ImportFrom):
                for a in s.names:
                    if (a.asname or a.name) == name:
                        found.add(("name", s.level, s.module, a.name))
            elif isinstance(s, (ast.FunctionDef, ast.AsyncFunctionDef, ast.ClassDef)):
                if s.name == name:
                    found.add(("def", s.lineno))
            else:
                for f in ("body", "orelse", "finalbody"):
                    b = getattr(s, f, None)
                    if isinstance(b, list) and b and isinstance(b[0], ast.stmt):
                        found |= scan(b)
                for h in getattr(s, "handlers", []) or []:
                    found |= scan(h.body)
        return found
    for n in ast.walk(tree):
        if isinstance(n, (ast.Module, ast.FunctionDef, ast.AsyncFunctionDef, ast.ClassDef)):
            f = scan(n.body)
            if len(f) > 1 and any(x[0] in ("mod", "name") for x in f):
                return True
    return False


def string_prefixes(src):
    out = set()
    try:
        for tk in tokenize.generate_tokens(io.StringIO(src).readline):
            if tk.type == _token.STRING or tk.type == getattr(_token, "FSTRING_START", -1):
                mm = re.match(r"[A-Za-z]+", tk.string)
                if mm:
                    out.add(mm.group(0).lower())
    except (tokenize.TokenError, IndentationError):
        pass
    return out


def target_ids(t):
    return {n.id for n in ast.walk(t) if isinstance(n, ast.Name)}


def comp_first_iterable(tree, name):
    """a comprehension binds `name` and its first iterable (evaluated OUTSIDE the comprehension) reads `name`"""
    for n in ast.walk(tree):
        if isinstance(n, (ast.ListComp, ast.SetComp, ast.DictComp, ast.GeneratorExp)):
            bound = set()
            for g in n.generators:
                bound |= target_ids(g.target)
            if name in bound and name in target_ids(n.generators[0].iter):
                return True
    return False


def module_alias(m, name):
    """`name` is bound in module m by `import a[.b] as name` or `from p import q as name` with another spelling
    than the imported module / name"""
    for n in ast.walk(m.tr.tree):
        if isinstance(n, ast.Import):
            for a in n.names:
                if a.asname == name and a.name.split(".")[-1] != name:
                    return True
        elif isinstance(n, ast.ImportFrom):
            for a in n.names:
                if a.asname == name and a.name != name:
                    return True
    return False


def unexplained_mismatches(ctx, an, bad, count=False):
    """the model / rope disagreements that no open finding explains: [(query index, code, query, focus)]"""
    qs = coq_queries(an)
    by_key = {}
    for q in an.queries:
        by_key[(q[0].path, q[1].id if q[1] is not None else 999999, q[3])] = q
    known = {f["signature"] for f in ctx.findings if f.get("property") == PROPERTY}
    out = []
    for (qi, c) in bad:
        who = qs[qi]
        mm = an.p.flat[who[0]]
        q = by_key.get((mm.path, who[1], who[2]))
        focus = focus_of(an, q[0], q[1], q[4], q[5], model=True) if q is not None else None
        if focus is not None and focus in known:
            if count:
                ctx.count("model_mismatch_explained:" + focus)
            continue
        out.append((qi, c, who, focus))
    return out


def replay_obj(an, m, t, nn, o, probs, focus):
    if getattr(an, "steps", None):
        return {"kind": "session", "files": an.files0, "entry": an.entry0, "steps": an.steps, "path": m.path,
                "offset": t.offset if t is not None else None, "token": (t.name if t is not None else None),
                "new_name": nn, "problems": probs[:6], "focus": focus, "stream": an.stream}
    return {"kind": "rename", "files": an.files, "entry": an.entry, "path": m.path,
            "offset": t.offset if t is not None else None, "token": (t.name if t is not None else None),
            "new_name": nn, "problems": probs[:6], "focus": focus, "stream": an.stream}


def replay(ctx, obj):
    """True = the recorded failure still occurs on the current tree"""
    import random
    if obj.get("kind") == "collector":
        return bool(collector_mismatches(ctx, [obj["case"]]))
    if obj.get("kind") == "coq":
        an = analyse(ctx, obj["files"], obj["entry"], random.Random(0), "replay", exec_all=False)
        if an is None:
            return True
        (bad, _, alpha, _), = coq_results(ctx, [an])
        return bool(unexplained_mismatches(ctx, an, bad)) or 2 in alpha or 5 in alpha or 8 in alpha
    if obj.get("kind") == "session":
        rp = L.RopeProject(obj["files"])
        try:
            files1 = obj["files"]
            for (pth, off, nn) in obj["steps"]:
                files1 = rp.commit(pth, off, nn)
                if files1 is None:
                    return True
            an = analyse(ctx, files1, obj["entry"], random.Random(0), "session", rp=rp,
                         only=(obj["path"], obj["offset"], obj["new_name"]))
        finally:
            rp.close()
        return an is None or bool(an.queries[0][5])
    if obj.get("kind") != "rename":
        return True
    an = analyse(ctx, obj["files"], obj["entry"], random.Random(0), "replay",
                 only=(obj["path"], obj["offset"], obj["new_name"]))
    if an is None:
        return True
    (m, t, nn, kw, o, probs), = an.queries
    if kw:
        return o["kind"] == "changes"
    return bool(probs)


# ============================================================================ ChangeCollector stream
def gen_collector_case(rng):
    n = rng.randrange(0, 14)
    text = "".join(rng.choice("ab \n(x") for _ in range(n))
    k = rng.randrange(0, 5)
    changes = []
    mode = rng.random()
    for _ in range(k):
        a = rng.randrange(0, n + 2)
        b = rng.randrange(0, n + 2) if mode < 0.5 else min(n + 1, a + rng.randrange(0, 3))
        new = None if rng.random() < 0.15 else "".join(rng.choice("QR") for _ in range(rng.randrange(0, 3)))
        changes.append((a, b, new))
    return {"text": text, "changes": changes}


def run_collector(case):
    from rope.base.codeanalyze import ChangeCollector
    c = ChangeCollector(case["text"])
    for (a, b, new) in case["changes"]:
        c.add_change(a, b, new)
    return c.get_changed()


def collector_mismatches(ctx, cases):
    from harness.common import g_text
    terms = []
    for c in cases:
        res = run_collector(c)
        chs = "; ".join("(%d%%N, %d%%N, %s)" % (a, b, g_text(c["text"][a:b] if new is None else new))
                        for (a, b, new) in c["changes"])
        terms.append("{| cc_text := %s; cc_changes := [%s]; cc_result := %s |}" % (
            g_text(c["text"]), chs, "None" if res is None else "(Some %s)" % g_text(res)))
    body = (L.HEADER + "From RopeVerif.Lib Require Import Text.\nDefinition ccases : list ccase := [\n%s\n].\n"
            "Eval vm_compute in (cmismatches ccases).\n" % ";\n".join(terms))
    out = ctx.coq_file(body)
    ev = parse_evals(out)
    if len(ev) != 1:
        raise RuntimeError("unexpected coqc output:\n" + out[-2000:])
    return list(ev[0])


# ============================================================================ run
def report(ctx, an, code, classes):
    """registers the violations of one analysed project; returns the number of failing queries"""
    bad = 0
    for (m, t, nn, kw, o, probs) in an.queries:
        if probs:
            focus = focus_of(an, m, t, o, probs)
            if focus is None and an.stream not in ("replay", "session") and not kw:
                # all queries of a project share one rope project (changes performed and undone in between); rope's
                # inference can go stale after edits (C02-stale-attribute-after-edit, C13).  C01 quantifies over
                # programs and offsets: the verdict counts only if a FRESH project gives it too.
                import random as _r
                fresh = analyse(ctx, an.files, an.entry, _r.Random(0), "replay",
                                only=(m.path, t.offset if t is not None else None, nn))
                if fresh is not None and not fresh.queries[0][5]:
                    ctx.count("failure_only_in_the_long_lived_project:not_in_a_fresh_one")
                    continue
            bad += 1
            ctx.count("oracle_failures:" + (focus or "unexplained"))
            if not ctx.too_many():
                ctx.violation(replay_obj(an, m, t, nn, o, probs, focus),
                              "rename of %r in %s to %r: %s" % (t.name if t is not None else m.name, m.path, nn,
                                                                 " | ".join(probs[:3])))
    for (m, t, nn, kw, o, probs, qpath, qoff) in getattr(an, "shadow", []):
        if probs:
            bad += 1
            focus = focus_of(an, m, t, o, probs)
            ctx.count("oracle_failures:" + (focus or "unexplained"))
            if not ctx.too_many():
                obj = replay_obj(an, m, t, nn, o, probs, focus)
                obj["path"], obj["offset"] = qpath, qoff
                ctx.violation(obj, "rename at offset %d of %s (next to %r) to %r: %s" % (qoff, qpath, t.name, nn,
                                                                                       " | ".join(probs[:3])))
    for (m, off, s, o, probs) in getattr(an, "other", []):
        if probs:
            bad += 1
            ctx.count("oracle_failures:non-identifier-offset")
            if not ctx.too_many():
                ctx.violation({"kind": "rename", "files": an.files, "entry": an.entry, "path": m.path, "offset": off,
                               "token": s, "new_name": an.new_name, "problems": probs[:6], "focus": None,
                               "stream": an.stream},
                              "rename at offset %d (%r) of %s: %s" % (off, s, m.path, " | ".join(probs[:3])))
    for (qi, c, who, focus) in unexplained_mismatches(ctx, an, code, count=True):
        mm = an.p.flat[who[0]]
        tt = mm.by_id.get(who[1])
        desc = " at %s token %s (%r, line %s) observed %s" % (
            mm.path, who[1], tt.name if tt else "<module>", tt.line if tt else "-",
            {k: v for k, v in who[3].items() if k in ("kind", "exc", "local", "edits", "moved")})
        ctx.count("model_mismatches")
        if not ctx.too_many():
            ctx.violation({"kind": "coq", "files": an.files, "entry": an.entry, "code": c, "query": qi,
                           "broken": "correspondence of coq/C01/Rename.v (project_rename) with rope.refactor.rename; "
                                     "theorems C01_alpha / C01_local_shortcut_complete speak about that model"},
                          "%s%s" % (CODE_TEXT.get(c, "code %d" % c), desc), no_input=(bad == 0))
    return bad


def run(ctx):
    rng = ctx.rng
    ctx.rule = ("projects from harness/c01_gen.py (1-3 modules over the identifier pool x y z f g A B o ma mb; locals "
                "shadowing globals, parameters, class / instance attributes, methods, comprehensions, global "
                "declarations, import a / import a as k / from a import n [as k]); every identifier token x a fresh "
                "name, every module file, keywords as new names, non-identifier offsets.  Non-trivial = a rename "
                "that changed at least one token; distinct by (project, query).")
    # ---- ChangeCollector against its model
    ccases = [gen_collector_case(rng) for _ in range(ctx.scale(300, 3000))]
    for i in range(0, len(ccases), 300):
        chunk = ccases[i:i + 300]
        bad = collector_mismatches(ctx, chunk)
        for j in bad:
            ctx.violation({"kind": "collector", "case": chunk[j],
                           "broken": "C01_collector_* (coq/C01/Collector.v) no longer describes ChangeCollector"},
                          "ChangeCollector differs from its model on %r" % (chunk[j],), no_input=True)
        for c in chunk:
            ctx.case(("collector", c["text"], tuple(c["changes"])), nontrivial=bool(c["changes"]))
            ctx.count("collector_cases")
        ctx.traces += len(chunk)
    # ---- projects
    n_main = ctx.scale(9, 70)
    n_plus = ctx.scale(9, 60)
    plan = [("fixed", dict(pr), ()) for pr in FIXED]
    for _ in range(n_main):
        plan.append(("main", None, ()))
    feats = ["kwonly", "nonlocal", "header", "classbody", "lambda", "builtin", "package", "compiter", "fstring", "reimport", "genexp", "sameline", "unvisited", "redef", "misattached", "shadowattr"]
    for k in range(n_plus):
        plan.append(("plus", None, (feats[(k + 5 * ctx.seed) % len(feats)],)))
    batch = []
    for (stream, pr, features) in plan:
        if ctx.too_many():
            break
        if pr is None:
            for _ in range(20):
                pr = c01_gen.gen_project(rng, features)
                base = L.run_entry(pr["files"], pr["entry"])
                if (base[0] == 0 and base[1]) or rng.random() < 0.08:
                    break
        an = analyse(ctx, pr["files"], pr["entry"], rng, stream, exec_all=True)
        if an is None:
            ctx.count("projects_outside_syntax")
            continue
        ctx.count("projects:" + stream)
        ctx.count("modules", len(an.p.mods))
        ctx.count("exec_runs", an.exec_runs)
        if an.base_run[0] != 0:
            ctx.count("projects_ending_with_exception")
        batch.append(an)
        if len(an.p.mods) > 1 and stream != "fixed" and rng.random() < ctx.scale(0.7, 0.7):
            sess = run_session(ctx, pr["files"], pr["entry"], rng, stream)
            if sess is not None:
                ctx.count("sessions")
                ctx.count("session_queries", len(sess.queries))
                if any("/" in m.path and m.path.count("/") >= 2 for m in sess.p.mods):
                    ctx.count("sessions_with_a_module_two_packages_deep")
                batch.append(sess)
        if len(batch) >= 12:
            flush(ctx, batch)
            batch = []
    if batch:
        flush(ctx, batch)


def flush(ctx, batch):
    res = coq_results(ctx, batch)
    for an, (code, classes, alpha, repaired) in zip(batch, res):
        qs = coq_queries(an)
        if repaired:
            # the model mismatches are reported below; this only names the cause
            ctx.count("rope_shows_again_the_behaviour_of_a_fixed_defect", repaired)
        for (q, cl) in zip(qs, classes):
            ctx.count("model:" + CLASS_TEXT.get(cl, str(cl)))
        for (q, a) in zip(qs, alpha):
            ctx.count("theorem:" + ALPHA_TEXT.get(a, str(a)))
            if a in (2, 5, 8) and not ctx.too_many():
                mm = an.p.flat[q[0]]
                tt = mm.by_id.get(q[1])
                ctx.violation({"kind": "coq", "files": an.files, "entry": an.entry, "code": 20 + a, "query": list(q[:2]),
                               "broken": "C01_alpha_partial / C01_alpha_exact: %s" % ALPHA_TEXT[a]},
                              "alpha theorem on the case: %s at %s token %r" % (ALPHA_TEXT[a], mm.path, tt.name if tt else None),
                              no_input=True)
        for (m, t, nn, kw, o, probs) in an.queries:
            changed = o["kind"] == "changes" and (o["contents"] or o["moves"])
            ctx.case((tree_hash(an.files), m.path, t.id if t is not None else None, nn), nontrivial=bool(changed))
            ctx.count("rope:" + o["kind"] + (":keyword" if kw else ""))
            if o["kind"] == "changes":
                ctx.count("alpha:" + str(o.get("alpha", "not-run")))
                if len(o["contents"]) > 1:
                    ctx.count("renames_touching_several_modules")
                if o["moves"]:
                    ctx.count("renames_moving_a_resource")
            ctx.traces += 1
        for (m, off, s, o, probs) in getattr(an, "other", []):
            ctx.case((tree_hash(an.files), m.path, "off", off), nontrivial=False)
            ctx.count("non_identifier_offset:" + o["kind"])
        report(ctx, an, code, classes)
        if len(ctx.samples) < 3:
            m, t, nn, kw, o, probs = next((q for q in an.queries if q[4]["kind"] == "changes" and q[4]["contents"]),
                                          an.queries[0])
            ctx.sample({"files": an.files, "query": [m.path, t.name if t else None, t.line if t else None], "new_name": nn,
                        "edits": {k: v for k, v in o.get("edits", {}).items()}, "moves": o.get("moves"),
                        "is_local": o.get("local")})
