"""C01 - rename preserves the program: same bindings, same behaviour.

For every generated project (harness/c01_gen.py: 1-3 modules that run and print), for EVERY identifier token of every
module and a fresh name (plus: every module file as a resource, keywords as new names, offsets that are not
identifiers):
  * rope:  Rename(project, resource, offset).get_changes(new_name) in a scratch project; the change set is reduced to
    {(module, token id)} + resource moves by comparing token streams (any change that is not a whole-token respelling
    is a failure by itself); rename._is_local(old_pyname) is observed; the changes are PERFORMED (project.do), the tree
    on disk is compared with the tree the change set describes, and undone again.
  * MODEL: the project (PyF terms with one interning table), the queries and the reduced observations go into a Coq
    case file; Rename.project_rename (coq/C01/Rename.v, on top of C02's occurrence model and C15's scope model) is
    compared with the observation inside Coq (vm_compute) on every token the model speaks about.  A second stream
    compares the ChangeCollector model with rope.base.codeanalyze.ChangeCollector on random texts and change lists
    (overlapping, empty, unordered included).
  * ORACLE (no rope, no model): (1) every changed module compiles; (2) the token skeleton is unchanged except for the
    respelled tokens; (3) the binding map of the new project computed from CPython's symtable (harness/c02_lib.oracle,
    made project-wide in harness/c01_lib.py) is the alpha-renaming of the old map: every token denotes the same binding,
    the renamed binding carries the new name, nothing is captured; (4) the entry module is run before and after in a
    fresh interpreter: same stdout, same exit status.
Streams: fixed (hand-written projects), main (generator without features), plus (one PyF+ feature switched on:
shapes on which rope's scoping is known to depart from CPython; failures there must match a recorded finding).
"""
import ast
import hashlib
import io
import keyword
import os
import re
import token as _token
import tokenize
import warnings
from concurrent.futures import ThreadPoolExecutor

from harness import c01_gen, c01_lib as L

PROPERTY = "C01"
warnings.filterwarnings("ignore")

CODE_TEXT = {
    2: "MODEL vs rope: the set of renamed tokens differs",
    3: "MODEL vs rope: one refuses, the other does not",
    4: "MODEL vs rope: one raises, the other does not",
    5: "MODEL vs rope: _is_local differs",
    6: "MODEL vs rope: the resource moves differ",
    7: "the model has no token with the id of the query",
}
CLASS_TEXT = {0: "not-modelled", 1: "refused", 2: "raised", 3: "local", 4: "cross-module", 5: "module-wide", 6: "module-rename"}

FIXED = [
    {"files": {"main.py": "x = 1\ndef f(a, b=2):\n    y = a + x\n    return y\nprint(f(1), f(a=2, b=x))\n"},
     "entry": "main.py"},
    {"files": {"ma.py": "x = 3\ndef f(y):\n    return y + x\nclass A:\n    x = 1\n    def f(self, y):\n        self.y = y\n        return self.y + self.x\n",
               "main.py": "import ma\nfrom ma import f, x as z\nfrom ma import A\no = A()\nprint(ma.x, f(z), ma.f(y=2), o.f(1), A.x)\n"},
     "entry": "main.py"},
    {"files": {"ma.py": "x = 1\n", "mb.py": "from ma import x\ny = x + 1\n",
               "main.py": "from mb import x, y\nimport mb as ma\nprint(x, y, ma.x)\n"},
     "entry": "main.py"},
    {"files": {"main.py": "x = 1\ndef f():\n    global x\n    x = x + 1\n    def g():\n        return x\n    return g()\nprint(f(), x)\n"
                          "y = [x for x in range(3)]\nprint(y, x, f\"{x} x\", 'x')  # x\n"},
     "entry": "main.py"},
    {"files": {"pk/__init__.py": "", "pk/mb.py": "z = 5\ndef g():\n    return z\n",
               "main.py": "import pk.mb\nfrom pk.mb import g\nfrom pk import mb\nprint(pk.mb.z, g(), mb.z)\n"},
     "entry": "main.py"},
]


# ============================================================================ one project
def tree_hash(files):
    h = hashlib.sha1()
    for p in sorted(files):
        h.update(p.encode())
        h.update(b"\0")
        h.update(files[p].encode("utf-8", "surrogatepass"))
        h.update(b"\0")
    return h.hexdigest()


def other_offsets(src, rng, n):
    """offsets that are not identifiers: keywords, operators, numbers"""
    out = []
    ls = L.c02_lib.line_starts(src)
    try:
        for t in tokenize.generate_tokens(io.StringIO(src).readline):
            if (t.type == _token.NAME and keyword.iskeyword(t.string)) or t.type in (_token.OP, _token.NUMBER):
                out.append((ls[t.start[0] - 1] + t.start[1], t.string))
    except (tokenize.TokenError, IndentationError):
        return []
    rng.shuffle(out)
    return out[:n]


class Analysis:
    """everything observed for one project"""


def reduce_obs(p, files, m, t, o, new_name):
    """adds edits / moved / problems to a `changes` observation"""
    problems = []
    o["edits"], o["edits_other"], o["moved"] = {}, {}, []
    for path, new in sorted(o["contents"].items()):
        old = files.get(path)
        if old is None:
            problems.append("ChangeContents for a file that does not exist: %s" % path)
            continue
        changed, why = L.reduce_contents(old, new, o["old_name"], new_name)
        if changed is None:
            problems.append("skeleton: %s: %s" % (path, why))
            continue
        mm = p.by_path.get(path)
        stray = sorted(i for i in changed if mm is None or i not in mm.by_id)
        if stray:
            problems.append("skeleton: %s: renamed tokens that are not identifiers of the program: %s" % (path, stray))
        ids = sorted(i for i in changed if mm is not None and i in mm.by_id)
        if mm is not None and mm.flat:
            o["edits"][mm.index] = ids
        else:
            o["edits_other"][path] = ids
    for (a, b) in o["moves"]:
        mm = p.by_path.get(a)
        if mm is not None and mm.flat:
            o["moved"].append(mm.index)
    if o["other"]:
        problems.append("unexpected change kinds: %s" % o["other"])
    return problems


def judge(an, files, entry, path, tid, o, new_name, run_exec=True):
    """oracle verdicts for one performed rename (list of strings); fills o['target']"""
    problems = []
    after = o.get("after")
    if "perform_exc" in o:
        problems.append("performing the changes raised %s" % o["perform_exc"])
        after = L.predicted_after(files, o)
    elif after != L.predicted_after(files, o):
        problems.append("the tree on disk after project.do is not the tree the change set describes")
    if o.get("restored") is False:
        problems.append("undo did not restore the tree")
    # (1) every module still compiles
    bad = False
    for pth, src in sorted(after.items()):
        if pth.endswith(".py") and src != files.get(pth):
            try:
                compile(src, pth, "exec")
            except (SyntaxError, ValueError) as e:
                problems.append("parse: %s does not compile any more: %s" % (pth, e))
                bad = True
    # (3) alpha-equivalence of the binding maps
    target = an.keys0[0].get((path, tid)) if tid is not None else ("mod", L.modname_of(path))
    o["target"] = target
    if not bad:
        if isinstance(target, tuple) and target[0] in ("var", "mod"):
            h = tree_hash(after)
            res = an.alpha_cache.get((h, target))
            if res is None:
                res = L.alpha_check(an.keys0, after, target, new_name, o["moves"])
                an.alpha_cache[(h, target)] = res
            problems += ["alpha: " + x for x in res[:4]]
            o["alpha"] = "checked"
        elif isinstance(target, tuple) and target[0] == "builtin":
            if after != files:
                problems.append("builtin: the builtin %r was renamed" % (target[1],))
            o["alpha"] = "builtin"
        else:
            o["alpha"] = "undetermined"
    # (4) behaviour
    if run_exec and not bad:
        e1 = L.path_after(entry, o["moves"])
        an.exec_jobs.append((tree_hash(after), after, e1, path, tid))
    return problems


def analyse(ctx, files, entry, rng, stream, only=None, exec_all=True):
    """Analysis of one project or None (outside the representable syntax).
    only = (path, offset, new_name) restricts to one query (replay)."""
    p = L.observe_project(files)
    if p is None:
        return None
    an = Analysis()
    an.p, an.files, an.entry, an.stream = p, files, entry, stream
    an.keys0 = L.project_keys(files)
    if an.keys0 is None:
        return None
    an.alpha_cache, an.exec_jobs = {}, []
    an.new_name = L.fresh_name(files)
    an.base_run = L.run_entry(files, entry)
    an.queries = []          # (module obs, token | None, new name, kw, observation, problems)
    rp = L.RopeProject(files)
    try:
        if only is not None:
            path, offset, nn = only
            m = p.by_path[path]
            t = None
            if offset is not None:
                t = next((t for t in m.tokens if t.offset == offset), None)
            o = rp.rename(path, offset, nn)
            probs = []
            if o["kind"] == "changes":
                probs = reduce_obs(p, files, m, t, o, nn)
                probs += judge(an, files, entry, path, t.id if t is not None else None, o, nn)
            an.queries.append((m, t, nn, keyword.iskeyword(nn), o, probs))
        else:
            for m in p.mods:
                for t in m.tokens:
                    o = rp.rename(m.path, t.offset, an.new_name)
                    probs = []
                    if o["kind"] == "changes":
                        probs = reduce_obs(p, files, m, t, o, an.new_name)
                        probs += judge(an, files, entry, m.path, t.id, o, an.new_name, run_exec=exec_all or rng.random() < 0.25)
                    elif o["kind"] == "raised":
                        k = an.keys0[0].get((m.path, t.id))
                        o["target"] = k
                    an.queries.append((m, t, an.new_name, False, o, probs))
                # the module itself
                if m.flat or m.path.endswith("__init__.py"):
                    o = rp.rename(m.path, None, an.new_name)
                    probs = []
                    if o["kind"] == "changes":
                        o.setdefault("old_name", m.name.split(".")[-1])
                        probs = reduce_obs(p, files, m, None, o, an.new_name)
                        probs += judge(an, files, entry, m.path, None, o, an.new_name)
                    an.queries.append((m, None, an.new_name, False, o, probs))
                # refusal stream: a keyword as the new name, offsets that are not identifiers
                toks = list(m.tokens)
                rng.shuffle(toks)
                for t in toks[:2]:
                    kw = rng.choice(["class", "for", "None", "lambda", "in"])
                    o = rp.rename(m.path, t.offset, kw, perform=False)
                    probs = []
                    if o["kind"] == "changes":
                        probs.append("refusal: the keyword %r was accepted as the new name" % kw)
                        reduce_obs(p, files, m, t, o, kw)
                    an.queries.append((m, t, kw, True, o, probs))
                for (off, s) in other_offsets(m.src, rng, 3):
                    o = rp.rename(m.path, off, an.new_name)
                    probs = []
                    if o["kind"] == "changes" and o["contents"]:
                        # rope took the offset for an identifier next to it: the result must still be a rename
                        after = o.get("after") or L.predicted_after(files, o)
                        for pth, src in after.items():
                            if pth.endswith(".py"):
                                try:
                                    compile(src, pth, "exec")
                                except SyntaxError as e:
                                    probs.append("parse: offset %d (%r): %s does not compile: %s" % (off, s, pth, e))
                        if not probs:
                            an.exec_jobs.append((tree_hash(after), after, L.path_after(entry, o["moves"]), m.path, ("off", off)))
                    elif o["kind"] == "raised":
                        probs.append("refusal: offset %d (%r) is not an identifier: %s instead of a refusal" % (off, s, o["exc"]))
                    an.other = getattr(an, "other", [])
                    an.other.append((m, off, s, o, probs))
    finally:
        rp.close()
    # behaviour oracle, one run per distinct resulting tree
    distinct = {}
    for (h, after, e1, path, tid) in an.exec_jobs:
        distinct.setdefault(h, (after, e1))
    with ThreadPoolExecutor(max_workers=12) as ex:
        runs = dict(zip(distinct, ex.map(lambda v: L.run_entry(v[0], v[1]), distinct.values())))
    an.exec_runs = len(distinct)
    bad_exec = {}
    for (h, after, e1, path, tid) in an.exec_jobs:
        r = runs[h]
        if (r[0], r[1]) != (an.base_run[0], an.base_run[1]):
            bad_exec[(path, tid if not isinstance(tid, tuple) else tid)] = (
                "exec: exit %r -> %r (%s), stdout %s" % (an.base_run[0], r[0], r[2],
                                                       "unchanged" if r[1] == an.base_run[1] else "differs"))
    for (m, t, nn, kw, o, probs) in an.queries:
        k = (m.path, t.id if t is not None else None)
        if not kw and k in bad_exec and o["kind"] == "changes":
            probs.append(bad_exec[k])
    for (m, off, s, o, probs) in getattr(an, "other", []):
        k = (m.path, ("off", off))
        if k in bad_exec:
            probs.append(bad_exec[k] + " (offset %d, %r)" % (off, s))
    return an


# ============================================================================ Coq
def parse_evals(out):
    res = []
    for mm in re.finditer(r"^\s*= (.*?)\n\s*: ", out, re.S | re.M):
        txt = mm.group(1).replace("%N", "").replace(";", ",")
        txt = re.sub(r"\s+", " ", txt)
        res.append(ast.literal_eval(txt))
    return res


def coq_queries(an):
    qs = []
    for (m, t, nn, kw, o, probs) in an.queries:
        if not m.flat:
            continue
        if o["kind"] == "changes" and "edits" not in o:
            continue
        qs.append((m.index, t.id if t is not None else 999999, kw, o))
    return qs


def case_file(ans):
    return (L.HEADER + "Definition cases : list case := [\n%s\n].\n"
            "Eval vm_compute in (mismatches cases).\nEval vm_compute in (all_classes cases).\n"
            % ";\n".join(L.g_case(an.p, coq_queries(an)) for an in ans))


def coq_results(ctx, ans, chunk=6):
    """per analysis: (code, [class per query])"""
    bodies = [case_file(ans[i:i + chunk]) for i in range(0, len(ans), chunk)]
    outs = ctx.coq_files_parallel(bodies) if len(bodies) > 1 else [ctx.coq_file(b) for b in bodies]
    res = []
    for k, out in enumerate(outs):
        n = len(ans[k * chunk:(k + 1) * chunk])
        ev = parse_evals(out)
        if len(ev) != 2:
            raise RuntimeError("unexpected coqc output:\n" + out[-2000:])
        mism = dict(ev[0])
        for i in range(n):
            res.append((mism.get(i, 0), ev[1][i]))
    return res


# ============================================================================ signatures of known findings
def signature(obj):
    if obj.get("kind") != "rename":
        return None
    return obj.get("focus") or None


def focus_of(an, m, t, o, probs):
    """structural explanation of a failing rename from the sources alone (no rope, no model); None = unexplained"""
    target = o.get("target")
    if isinstance(target, tuple) and target[0] == "builtin":
        return "builtin-renamed"
    return None


def replay_obj(an, m, t, nn, o, probs, focus):
    return {"kind": "rename", "files": an.files, "entry": an.entry, "path": m.path,
            "offset": t.offset if t is not None else None, "token": (t.name if t is not None else None),
            "new_name": nn, "problems": probs[:6], "focus": focus, "stream": an.stream}


def replay(ctx, obj):
    """True = the recorded failure still occurs on the current tree"""
    import random
    if obj.get("kind") == "collector":
        return bool(collector_mismatches(ctx, [obj["case"]]))
    if obj.get("kind") == "coq":
        an = analyse(ctx, obj["files"], obj["entry"], random.Random(0), "replay", exec_all=False)
        if an is None:
            return True
        (code, _), = coq_results(ctx, [an])
        return code != 0
    if obj.get("kind") != "rename":
        return True
    an = analyse(ctx, obj["files"], obj["entry"], random.Random(0), "replay",
                 only=(obj["path"], obj["offset"], obj["new_name"]))
    if an is None:
        return True
    (m, t, nn, kw, o, probs), = an.queries
    if kw:
        return o["kind"] == "changes"
    return bool(probs)


# ============================================================================ ChangeCollector stream
def gen_collector_case(rng):
    n = rng.randrange(0, 14)
    text = "".join(rng.choice("ab \n(x") for _ in range(n))
    k = rng.randrange(0, 5)
    changes = []
    mode = rng.random()
    for _ in range(k):
        a = rng.randrange(0, n + 2)
        b = rng.randrange(0, n + 2) if mode < 0.5 else min(n + 1, a + rng.randrange(0, 3))
        new = None if rng.random() < 0.15 else "".join(rng.choice("QR") for _ in range(rng.randrange(0, 3)))
        changes.append((a, b, new))
    return {"text": text, "changes": changes}


def run_collector(case):
    from rope.base.codeanalyze import ChangeCollector
    c = ChangeCollector(case["text"])
    for (a, b, new) in case["changes"]:
        c.add_change(a, b, new)
    return c.get_changed()


def collector_mismatches(ctx, cases):
    from harness.common import g_text
    terms = []
    for c in cases:
        res = run_collector(c)
        chs = "; ".join("(%d%%N, %d%%N, %s)" % (a, b, g_text(c["text"][a:b] if new is None else new))
                        for (a, b, new) in c["changes"])
        terms.append("{| cc_text := %s; cc_changes := [%s]; cc_result := %s |}" % (
            g_text(c["text"]), chs, "None" if res is None else "(Some %s)" % g_text(res)))
    body = (L.HEADER + "From RopeVerif.Lib Require Import Text.\nDefinition ccases : list ccase := [\n%s\n].\n"
            "Eval vm_compute in (cmismatches ccases).\n" % ";\n".join(terms))
    out = ctx.coq_file(body)
    nums = ctx.parse_nums(out)
    return nums[0] if nums else [0]


# ============================================================================ run
def report(ctx, an, code, classes):
    """registers the violations of one analysed project; returns the number of failing queries"""
    bad = 0
    for (m, t, nn, kw, o, probs) in an.queries:
        if probs:
            bad += 1
            focus = focus_of(an, m, t, o, probs)
            ctx.count("oracle_failures:" + (focus or "unexplained"))
            if not ctx.too_many():
                ctx.violation(replay_obj(an, m, t, nn, o, probs, focus),
                              "rename of %r in %s to %r: %s" % (t.name if t is not None else m.name, m.path, nn,
                                                                 " | ".join(probs[:3])))
    for (m, off, s, o, probs) in getattr(an, "other", []):
        if probs:
            bad += 1
            ctx.count("oracle_failures:non-identifier-offset")
            if not ctx.too_many():
                ctx.violation({"kind": "rename", "files": an.files, "entry": an.entry, "path": m.path, "offset": off,
                               "token": s, "new_name": an.new_name, "problems": probs[:6], "focus": None,
                               "stream": an.stream},
                              "rename at offset %d (%r) of %s: %s" % (off, s, m.path, " | ".join(probs[:3])))
    if code != 0:
        qs = coq_queries(an)
        qi, c = code // 10, code % 10
        who = qs[qi] if qi < len(qs) else None
        desc = ""
        if who is not None:
            mm = an.p.flat[who[0]]
            tt = mm.by_id.get(who[1])
            desc = " at %s token %s (%r, line %s) observed %s" % (
                mm.path, who[1], tt.name if tt else "<module>", tt.line if tt else "-",
                {k: v for k, v in who[3].items() if k in ("kind", "exc", "local", "edits", "moved")})
        ctx.count("model_mismatches")
        if not ctx.too_many():
            ctx.violation({"kind": "coq", "files": an.files, "entry": an.entry, "code": code,
                           "broken": "correspondence of coq/C01/Rename.v (project_rename) with rope.refactor.rename; "
                                     "theorems C01_alpha / C01_local_shortcut_complete speak about that model"},
                          "%s%s" % (CODE_TEXT.get(c, "code %d" % c), desc), no_input=(bad == 0))
    return bad


def run(ctx):
    rng = ctx.rng
    ctx.rule = ("projects from harness/c01_gen.py (1-3 modules over the identifier pool x y z f g A B o ma mb; locals "
                "shadowing globals, parameters, class / instance attributes, methods, comprehensions, global "
                "declarations, import a / import a as k / from a import n [as k]); every identifier token x a fresh "
                "name, every module file, keywords as new names, non-identifier offsets.  Non-trivial = a rename "
                "that changed at least one token; distinct by (project, query).")
    # ---- ChangeCollector against its model
    ccases = [gen_collector_case(rng) for _ in range(ctx.scale(300, 3000))]
    for i in range(0, len(ccases), 300):
        chunk = ccases[i:i + 300]
        bad = collector_mismatches(ctx, chunk)
        for j in bad:
            ctx.violation({"kind": "collector", "case": chunk[j],
                           "broken": "C01_collector_* (coq/C01/Collector.v) no longer describes ChangeCollector"},
                          "ChangeCollector differs from its model on %r" % (chunk[j],), no_input=True)
        for c in chunk:
            ctx.case(("collector", c["text"], tuple(c["changes"])), nontrivial=bool(c["changes"]))
            ctx.count("collector_cases")
        ctx.traces += len(chunk)
    # ---- projects
    n_main = ctx.scale(22, 400)
    n_plus = ctx.scale(6, 120)
    plan = [("fixed", dict(pr), ()) for pr in FIXED]
    for _ in range(n_main):
        plan.append(("main", None, ()))
    feats = ["kwonly", "nonlocal", "header", "classbody", "lambda", "builtin", "package"]
    for k in range(n_plus):
        plan.append(("plus", None, (feats[k % len(feats)],)))
    batch = []
    for (stream, pr, features) in plan:
        if ctx.too_many():
            break
        if pr is None:
            for _ in range(20):
                pr = c01_gen.gen_project(rng, features)
                base = L.run_entry(pr["files"], pr["entry"])
                if (base[0] == 0 and base[1]) or rng.random() < 0.08:
                    break
        an = analyse(ctx, pr["files"], pr["entry"], rng, stream, exec_all=True)
        if an is None:
            ctx.count("projects_outside_syntax")
            continue
        ctx.count("projects:" + stream)
        ctx.count("modules", len(an.p.mods))
        ctx.count("exec_runs", an.exec_runs)
        if an.base_run[0] != 0:
            ctx.count("projects_ending_with_exception")
        batch.append(an)
        if len(batch) >= 12:
            flush(ctx, batch)
            batch = []
    if batch:
        flush(ctx, batch)


def flush(ctx, batch):
    res = coq_results(ctx, batch)
    for an, (code, classes) in zip(batch, res):
        qs = coq_queries(an)
        for (q, cl) in zip(qs, classes):
            ctx.count("model:" + CLASS_TEXT.get(cl, str(cl)))
        for (m, t, nn, kw, o, probs) in an.queries:
            changed = o["kind"] == "changes" and (o["contents"] or o["moves"])
            ctx.case((tree_hash(an.files), m.path, t.id if t is not None else None, nn), nontrivial=bool(changed))
            ctx.count("rope:" + o["kind"] + (":keyword" if kw else ""))
            if o["kind"] == "changes":
                ctx.count("alpha:" + str(o.get("alpha", "not-run")))
                if len(o["contents"]) > 1:
                    ctx.count("renames_touching_several_modules")
                if o["moves"]:
                    ctx.count("renames_moving_a_resource")
            ctx.traces += 1
        for (m, off, s, o, probs) in getattr(an, "other", []):
            ctx.case((tree_hash(an.files), m.path, "off", off), nontrivial=False)
            ctx.count("non_identifier_offset:" + o["kind"])
        report(ctx, an, code, classes)
        if len(ctx.samples) < 3:
            m, t, nn, kw, o, probs = next((q for q in an.queries if q[4]["kind"] == "changes" and q[4]["contents"]),
                                          an.queries[0])
            ctx.sample({"files": an.files, "query": [m.path, t.name if t else None, t.line if t else None], "new_name": nn,
                        "edits": {k: v for k, v in o.get("edits", {}).items()}, "moves": o.get("moves"),
                        "is_local": o.get("local")})
