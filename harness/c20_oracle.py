"""Independent oracle for C20 (no rope, no Coq model): what Python's scoping rules say at a cursor position.

  * visible names: CPython `symtable` through harness/c15.observe_python (every scope of the module asked about
    every identifier), + builtins + keyword.kwlist;
  * the scope a position belongs to: from `ast` (statement starting the logical line -> the block it is a
    statement of).  Rope's answer is accepted for ANY of the candidate scopes of the line: the block scope,
    the function / class itself on its header and decorator lines (its parameters are reasonable there), and a
    comprehension / lambda written on that line; blank and comment lines accept any scope on the chain of the
    neighbouring code lines;
  * binding lines: from `ast` (line of the bound Name / def / class / import / parameter's def).
A deviation on a name for which harness/c15's own comparison already reports an attributed disagreement
(C15's open findings: keyword-only parameters, nonlocal, class-body lookups ...) is counted as inherited."""
import ast
import builtins as _py_builtins
import io
import keyword
import re
import token as _token
import tokenize

from harness import c15, c15_gen

KEYWORDS = list(keyword.kwlist)
# rope/base/builtins.py leaves None out on purpose (it is a keyword); True / False are both
PY_BUILTINS = set(dir(_py_builtins)) - {"None"}
ID_RE = re.compile(r"[A-Za-z0-9_]*$")
SCOPE_STMTS = (ast.FunctionDef, ast.AsyncFunctionDef, ast.ClassDef)


class Position:
    __slots__ = ("line", "col", "prefix", "dotted", "in_ignored", "blank", "from_import", "candidates", "logical",
                 "name_position", "receiver")


class Oracle:
    def __init__(self, src, o15, helpers=None):
        """o15: harness.c15.observe(src) (rope's scopes are used only for C15's list of disagreements);
        helpers: {module name: source} of the modules that exist in the project"""
        self.src = src
        self.helpers = helpers or {}
        self.lines = src.split("\n")
        self.tree = o15.tr.tree
        self.facts = c15.Facts(self.tree)
        self.py_scopes = o15.py_scopes
        self.by_key = {p.key: p for p in self.py_scopes}
        self.root = self.py_scopes[0]
        self.idents = o15.idents
        self.dis = o15.dis
        self.lay = c15_gen.layout_of(src)
        self.starts = [0]
        for line in self.lines:
            self.starts.append(self.starts[-1] + len(line) + 1)
        self._ignored = self._ignored_spans()
        self._stmt_at = self._statements_by_line()
        self._cand_cache = {}
        self.star_names = self._star_names()
        self.attributed_names = {}
        self.scope_causes = set()
        for d in self.dis:
            if d["cause"] == "unattributed":
                continue
            if d.get("name"):
                self.attributed_names.setdefault(d["name"], set()).add(d["cause"])
            elif d["what"].startswith("scope-"):
                self.scope_causes.add(d["cause"])

    # ---- other modules of the project
    @staticmethod
    def public_names(source):
        """names a module binds at top level (what `from m import *` brings, without __all__)"""
        out = []
        for n in ast.parse(source).body:
            if isinstance(n, SCOPE_STMTS):
                out.append(n.name)
            elif isinstance(n, ast.Assign):
                for t in n.targets:
                    out.extend(x.id for x in ast.walk(t) if isinstance(x, ast.Name))
        return [x for x in out if not x.startswith("_")]

    def _star_names(self):
        names = set()
        for n in self.tree.body:
            if isinstance(n, ast.ImportFrom) and not n.level and n.module in self.helpers \
                    and any(a.name == "*" for a in n.names):
                names.update(self.public_names(self.helpers[n.module]))
        return names

    # ---- attributes of a statically known receiver
    def static_attributes(self, name):
        """attributes of the object a plain name denotes when that is statically evident: the name is bound
        exactly once in the module, at top level, either by a class statement without bases (the class) or by
        `name = Cls()` with Cls such a class (an instance).  Class body bindings + self.x of its methods.
        None: not statically known."""
        def only_binding(x):
            sites = [n for n in ast.walk(self.tree)
                     if (isinstance(n, ast.Name) and n.id == x and isinstance(n.ctx, (ast.Store, ast.Del)))
                     or (isinstance(n, SCOPE_STMTS) and n.name == x)
                     or (isinstance(n, ast.arg) and n.arg == x)
                     or (isinstance(n, ast.alias) and (n.asname or n.name.split(".")[0]) == x)
                     or (isinstance(n, ast.ExceptHandler) and n.name == x)
                     or (isinstance(n, (ast.Global, ast.Nonlocal)) and x in n.names)]
            return sites[0] if len(sites) == 1 else None

        def class_attrs(cname):
            c = only_binding(cname)
            if not isinstance(c, ast.ClassDef) or c not in self.tree.body or c.bases or c.keywords \
                    or c.decorator_list:
                return None
            p = self.py(c)
            if p is None:
                return None
            return set(p.names) | self.facts.instance_attrs(c)

        site = only_binding(name)
        if isinstance(site, ast.ClassDef):
            return class_attrs(name)
        if isinstance(site, ast.Name):
            for st in self.tree.body:
                if isinstance(st, ast.Assign) and len(st.targets) == 1 and st.targets[0] is site \
                        and isinstance(st.value, ast.Call) and isinstance(st.value.func, ast.Name) \
                        and not st.value.args and not st.value.keywords:
                    return class_attrs(st.value.func.id)
        return None

    def judge_dotted(self, pos, proposals):
        """attribute completion after a statically known receiver: every attribute with the prefix is offered and
        nothing else (dunder names of object aside).  Returns a list of problems, or None (receiver unknown)."""
        if pos.receiver is None:
            return None
        attrs = self.static_attributes(pos.receiver)
        if attrs is None:
            return None
        names = {n for (n, s) in proposals}
        want = {a for a in attrs if a.startswith(pos.prefix)}
        out = []
        for x in sorted(want - names):
            out.append(("attribute-missing", pos.receiver, x))
        for x in sorted(names - want):
            if not x.startswith("__"):
                out.append(("not-an-attribute", pos.receiver, x))
        return out

    # ---- text structure
    def _ignored_spans(self):
        spans = []
        try:
            for t in tokenize.generate_tokens(io.StringIO(self.src).readline):
                if t.type in (_token.STRING, _token.COMMENT) or _token.tok_name.get(t.type, "").startswith("FSTRING"):
                    a = self.starts[t.start[0] - 1] + t.start[1]
                    b = self.starts[t.end[0] - 1] + t.end[1]
                    spans.append((a, b))
        except (tokenize.TokenError, IndentationError, SyntaxError):
            pass
        return spans

    def _token_ends(self):
        if getattr(self, "_tok_ends", None) is None:
            ends = []
            try:
                for t in tokenize.generate_tokens(io.StringIO(self.src).readline):
                    if t.type in (_token.NL, _token.COMMENT, _token.INDENT, _token.DEDENT, _token.ENDMARKER):
                        continue
                    ends.append((self.starts[t.end[0] - 1] + t.end[1], t.type, t.string))
            except (tokenize.TokenError, IndentationError, SyntaxError):
                pass
            self._tok_ends = ends
        return self._tok_ends

    def _tokens_before(self, at, n):
        """the last n significant tokens ending at or before offset `at`: [(end, type, string)]"""
        out = []
        for t in self._token_ends():
            if t[0] <= at:
                out.append(t)
            else:
                break
        return out[-n:]

    def _name_can_follow(self, at):
        """the last significant token ending at or before offset `at` lets a name follow"""
        prev = None
        for (e, ty, st) in self._token_ends():
            if e <= at:
                prev = (ty, st)
            else:
                break
        if prev is None:
            return True
        ty, st = prev
        if ty == _token.NEWLINE:
            return True
        if ty == _token.NAME:
            return keyword.iskeyword(st)
        if ty in (_token.NUMBER, _token.STRING) or _token.tok_name.get(ty, "").startswith("FSTRING"):
            return False
        if ty == _token.OP:
            return st not in (")", "]", "}", "...")
        return True

    def in_ignored(self, o):
        return any(a < o <= b for a, b in self._ignored)

    def _statements_by_line(self):
        out = {}
        for n in ast.walk(self.tree):
            if isinstance(n, ast.stmt):
                first = n.lineno
                if isinstance(n, SCOPE_STMTS) and n.decorator_list:
                    first = min(d.lineno for d in n.decorator_list)
                for l in range(first, n.lineno + 1):
                    prev = out.get(l)
                    # the outermost statement starting on the line
                    if prev is None or self._depth(n) < self._depth(prev):
                        out[l] = n
            elif isinstance(n, ast.ExceptHandler):
                out.setdefault(n.lineno, n)
        return out

    def _depth(self, n):
        d = 0
        while n in self.facts.parent:
            n = self.facts.parent[n]
            d += 1
        return d

    def block_scope_of(self, stmt):
        n = self.facts.parent.get(stmt)
        while n is not None and not isinstance(n, SCOPE_STMTS + (ast.Module,)):
            n = self.facts.parent.get(n)
        return n if n is not None else self.tree

    def logical_start(self, l):
        """first physical line of the logical line containing line l (None for blank / comment lines)"""
        if l < 1 or l > len(self.lay):
            return None
        if self.lay[l - 1][1]:
            return None
        k = l
        while k >= 1 and not self.lay[k - 1][2]:
            k -= 1
        return k if k >= 1 else None

    def py(self, node):
        return self.by_key.get(c15.node_key(node)) if node is not None else None

    def node_of(self, p):
        """the scope's node in this oracle's own tree"""
        return self.facts.by_key[p.key]

    def chain(self, p):
        out = []
        while p is not None:
            out.append(p)
            p = p.parent
        return out

    def candidates(self, l):
        """PyScopes rope may reasonably take for a cursor on line l"""
        if l in self._cand_cache:
            return self._cand_cache[l]
        ls = self.logical_start(l)
        cands = []
        if ls is None or ls not in self._stmt_at:
            # blank / comment line (or a line no statement starts on): the chains of the neighbouring code lines
            for k in (self._next_code(l), self._prev_code(l)):
                if k is not None:
                    for c in self.candidates(k):
                        for q in self.chain(c):
                            if q not in cands:
                                cands.append(q)
            if not cands:
                cands = [self.root]
        else:
            stmt = self._stmt_at[ls]
            host = stmt if not isinstance(stmt, ast.ExceptHandler) else self.facts.parent[stmt]
            block = self.py(self.block_scope_of(host))
            if block is not None:
                cands.append(block)
            if isinstance(stmt, SCOPE_STMTS) and self.py(stmt) is not None:
                cands.append(self.py(stmt))
            # comprehension / lambda scopes of the statement that touch line l (not those of nested statements)
            for n in self._own_expr_nodes(stmt):
                if not isinstance(n, c15.SCOPE_NODES) or isinstance(n, SCOPE_STMTS):
                    continue
                p = self.py(n)
                if p is not None:
                    if n.lineno <= l <= n.end_lineno or n.lineno == ls:
                        if p not in cands:
                            cands.append(p)
        self._cand_cache[l] = cands
        return cands

    def _own_expr_nodes(self, stmt):
        stack = [stmt]
        while stack:
            n = stack.pop()
            yield n
            for c in ast.iter_child_nodes(n):
                if isinstance(c, ast.stmt) and c is not stmt:
                    # statements of the body: only their header expressions belong to other lines
                    continue
                if isinstance(c, ast.ExceptHandler):
                    continue
                stack.append(c)

    def _next_code(self, l):
        for k in range(l + 1, len(self.lay) + 1):
            if not self.lay[k - 1][1] and self.lay[k - 1][2]:
                return k
        return None

    def _prev_code(self, l):
        for k in range(l - 1, 0, -1):
            if not self.lay[k - 1][1]:
                return self.logical_start(k)
        return None

    def position(self, o):
        p = Position()
        p.line = self.src.count("\n", 0, o) + 1
        p.col = o - self.starts[p.line - 1]
        before = self.lines[p.line - 1][:p.col]
        p.prefix = ID_RE.search(before).group()
        rest = before[:len(before) - len(p.prefix)].rstrip(" \t")
        # something is dotted: a dot precedes the typed prefix, on this line or - inside brackets - on an earlier one
        prev3 = self._tokens_before(o - len(p.prefix), 3)
        tok_dot = bool(prev3) and prev3[-1][1] == _token.OP and prev3[-1][2] == "."
        # (the dot that ends a float literal - `3. else` - is part of a NUMBER token, not an attribute access)
        p.dotted = tok_dot or (rest.endswith(".") and not prev3 and not re.search(r"(^|[^\w.])\d[\d_]*\.$", rest))
        if rest.endswith(".") and prev3 and not tok_dot and prev3[-1][1] != _token.NUMBER:
            p.dotted = True              # inside a string / comment the token stream does not see the dot
        # the receiver when it is a plain name: `box . |`, `(box.\n   |`
        p.receiver = None
        if tok_dot and len(prev3) >= 2 and prev3[-2][1] == _token.NAME and not keyword.iskeyword(prev3[-2][2]) \
                and not (len(prev3) >= 3 and prev3[-3][2] == "."):
            p.receiver = prev3[-2][2]
        # can a NAME be typed here?  the significant token before the typed prefix must not be a closing bracket,
        # a literal or another word (keywords excepted: `return |`, `x in |`); looked up in the token stream so
        # that continuation lines inside brackets are seen through
        p.name_position = not p.prefix[:1].isdigit() and self._name_can_follow(o - len(p.prefix))
        p.in_ignored = self.in_ignored(o)
        p.logical = self.logical_start(p.line)
        p.blank = p.logical is None
        stmt = self._stmt_at.get(p.logical) if p.logical else None
        p.from_import = isinstance(stmt, ast.ImportFrom)
        p.candidates = self.candidates(p.line)
        return p

    # ---- name= proposals
    def call_params(self, o):
        """for an offset inside the parentheses of a call whose callee is a plain name bound exactly once in the
        module, by a def: the names that may be passed by keyword; else None (callee not statically known)"""
        best = None
        for n in ast.walk(self.tree):
            if isinstance(n, ast.Call) and isinstance(n.func, ast.Name):
                a = self.starts[n.func.end_lineno - 1] + n.func.end_col_offset
                b = self.starts[n.end_lineno - 1] + n.end_col_offset
                if a < o < b and (best is None or a > best[0]):
                    best = (a, n)
        if best is None:
            return None
        name = best[1].func.id
        defs = [n for n in ast.walk(self.tree) if isinstance(n, (ast.FunctionDef, ast.AsyncFunctionDef)) and n.name == name]
        others = [n for n in ast.walk(self.tree)
                  if (isinstance(n, ast.Name) and n.id == name and isinstance(n.ctx, (ast.Store, ast.Del)))
                  or (isinstance(n, ast.ClassDef) and n.name == name)
                  or (isinstance(n, ast.arg) and n.arg == name)
                  or (isinstance(n, ast.alias) and (n.asname or n.name.split(".")[0]) == name)
                  or (isinstance(n, ast.ExceptHandler) and n.name == name)]
        if len(defs) != 1 or others:
            return None
        a = defs[0].args
        return {p.arg for p in a.posonlyargs + a.args + a.kwonlyargs}

    # ---- visible names
    def visible(self, scope, x):
        """does identifier x denote something when used in `scope` (PyScope)"""
        if x in scope.resolve:
            return scope.resolve[x] is not None or x in self.star_names
        return x in PY_BUILTINS or x in self.star_names

    def visible_set(self, scope, prefix=""):
        out = {x for x in self.idents if x.startswith(prefix) and self.visible(scope, x)}
        out |= {x for x in PY_BUILTINS | self.star_names if x.startswith(prefix) and x not in scope.resolve}
        return out

    def attributed(self, x, scope):
        """cause of a known C15 departure that explains a deviation on x, or None"""
        cs = self.attributed_names.get(x)
        if cs:
            return sorted(cs)[0]
        if self.scope_causes:
            return sorted(self.scope_causes)[0]
        # attributes a class inherits from a builtin base (rope lists them; the module's identifiers do not)
        q = scope
        while q is not None and q.kind in ("Comp", "Lambda"):
            q = q.parent
        if q is not None and q.kind == "Class" and x not in self.idents and x not in PY_BUILTINS:
            return "class-inherited-attribute"
        # instance attributes (self.x = ...) share the class's table entry with the class attribute x
        if q is not None and q.kind == "Class" and x in self.facts.instance_attrs(self.node_of(q)):
            return "class-self-attribute"
        return None

    def kept_later_locals(self, c, names, line):
        """later_locals=False: locals of c written only BELOW the cursor line that are proposed nevertheless.
        Returns (unexplained, inherited) entries."""
        unexplained, inherited = [], []
        for x in sorted(names):
            if c.resolve.get(x) is not c or x not in self.idents:
                continue
            sites = self.binding_sites(self.node_of(c), x)
            if not sites or any(l <= line for (l, _k) in sites):
                continue
            outer = c.parent.resolve.get(x) if c.parent is not None else ("B" if x in PY_BUILTINS else None)
            if outer is not None:
                continue                 # the outer binding of the same name shows through
            kinds = {k for (_l, k) in sites}
            declared_below = c.kind == "Module" and self.declared_global_below(x)
            if "global" in self.facts.binding_kinds(self.node_of(c), x) or declared_below:
                # a nested scope that declares x global appends its assignments to the module's name only once
                # that scope has been computed (lazily): the line rope knows depends on what was asked before
                # a global declaration at module level / in a class: the name is an AssignedName without module
                inherited.append(("later-local-kept", x, "global-declaration-not-honoured"))
            elif "import" in kinds:
                inherited.append(("later-local-kept", x, "C20:later-import-kept"))
            elif kinds <= {"walrus", "annotation"}:
                # no assignment with a node: walrus targets and bare annotations have no definition line
                inherited.append(("later-local-kept", x, "C20:definition-line-unknown"))
            else:
                cause = self.attributed(x, c)
                if cause:
                    inherited.append(("later-local-kept", x, cause))
                else:
                    unexplained.append(("later-local-kept", x, sorted(kinds)))
        return unexplained, inherited

    def judge_undotted(self, pos, proposals, later_locals, proposals_true=None):
        """proposals: set of (name, scope).  Returns (list of unexplained deviations, list of inherited causes)."""
        names = {n for (n, s) in proposals if s not in ("keyword", "parameter_keyword")}
        kws = {n for (n, s) in proposals if s == "keyword"}
        problems = []
        for (n, s) in proposals:
            base = n[:-1] if s == "parameter_keyword" else n
            if not base.startswith(pos.prefix):
                problems.append(("not-a-prefix-extension", n))
            if s == "keyword" and n not in KEYWORDS:
                problems.append(("not-a-keyword", n))
        want_kws = {k for k in KEYWORDS if k.startswith(pos.prefix)} if pos.prefix.strip() != "" else set()
        if kws != want_kws:
            problems.append(("keywords", sorted(kws ^ want_kws)))
        if later_locals is False and proposals_true is not None:
            for p in proposals - proposals_true:
                # the filtered local may uncover the outer binding of the same name (other scope kind)
                if p[0] not in {n for (n, _s) in proposals_true}:
                    problems.append(("more-than-with-later-locals", p[0]))
        best = None
        for c in pos.candidates:
            want = self.visible_set(c, pos.prefix)
            unexplained, inherited = [], []
            for (n, s) in sorted(proposals):
                if s == "builtin" and n not in PY_BUILTINS and n in want:
                    unexplained.append(("not-a-builtin", n, None))
            for x in sorted(names - want):
                cause = self.attributed(x, c)
                (inherited if cause else unexplained).append(("unsound", x, cause))
            for x in sorted(want - names):
                if later_locals is False and self.may_be_dropped(c, x, pos.line):
                    continue
                cause = self.attributed(x, c)
                if cause is None and later_locals is False and self.dropped_by_value_line(c, x, pos.line):
                    cause = "C20:definition-line-of-value"
                (inherited if cause else unexplained).append(("missing", x, cause))
            if later_locals is False:
                u2, i2 = self.kept_later_locals(c, names, pos.line)
                unexplained.extend(u2)
                inherited.extend(i2)
            if best is None or (len(unexplained), len(inherited)) < (len(best[0]), len(best[1])):
                best = (unexplained, inherited, c)
        unexplained, inherited, c = best
        return problems + unexplained, inherited, c

    # ---- binding sites
    def binding_sites(self, scope_node, x, _nested=True):
        """[(line, kind)] of the constructs that bind x directly in the scope"""
        out = []

        def targets(t, kind):
            for n in ast.walk(t):
                if isinstance(n, ast.Name) and n.id == x and isinstance(n.ctx, (ast.Store, ast.Del)):
                    out.append((n.lineno, kind))

        if isinstance(scope_node, (ast.FunctionDef, ast.AsyncFunctionDef, ast.Lambda)):
            a = scope_node.args
            for p in a.args + [q for q in (a.vararg, a.kwarg) if q]:
                if p.arg == x:
                    out.append((scope_node.lineno, "param"))
            # parameter kinds rope's function scopes do not record (open findings C15-posonly-param / -kwonly-param)
            for p in a.posonlyargs:
                if p.arg == x:
                    out.append((scope_node.lineno, "param-posonly"))
            for p in a.kwonlyargs:
                if p.arg == x:
                    out.append((scope_node.lineno, "param-kwonly"))
        if isinstance(scope_node, c15.COMP_NODES):
            for g in scope_node.generators:
                targets(g.target, "comp-target")
        for s in self.facts.block_statements(scope_node):
            if isinstance(s, ast.Assign):
                for t in s.targets:
                    targets(t, "assign")
            elif isinstance(s, ast.AugAssign):
                targets(s.target, "augassign")
            elif isinstance(s, ast.AnnAssign):
                targets(s.target, "annassign" if s.value is not None else "annotation")
            elif isinstance(s, ast.Delete):
                for t in s.targets:
                    targets(t, "del")
            elif isinstance(s, (ast.For, ast.AsyncFor)):
                targets(s.target, "for")
            elif isinstance(s, (ast.With, ast.AsyncWith)):
                for it in s.items:
                    if it.optional_vars is not None:
                        targets(it.optional_vars, "with")
            elif isinstance(s, ast.ExceptHandler):
                if s.name == x:
                    out.append((s.lineno, "except"))
            elif isinstance(s, SCOPE_STMTS):
                if s.name == x:
                    out.append((s.lineno, "def"))
            elif isinstance(s, (ast.Import, ast.ImportFrom)):
                for a in s.names:
                    nm = a.asname or (a.name.split(".")[0] if isinstance(s, ast.Import) else a.name)
                    if nm == x:
                        out.append((s.lineno, "import"))
        for n in ast.walk(scope_node):
            if isinstance(n, ast.NamedExpr) and n.target.id == x:
                sc = self.facts.enclosing_scope(n)
                while isinstance(sc, c15.COMP_NODES):
                    sc = self.facts.enclosing_scope(sc)
                if sc is scope_node:
                    out.append((n.target.lineno, "walrus"))
        if isinstance(scope_node, ast.Module) and _nested:
            # a function / class that declares x global binds the module's x
            for n in ast.walk(scope_node):
                if isinstance(n, SCOPE_STMTS) and any(
                        isinstance(g, ast.Global) and x in g.names for g in self.facts.block_statements(n)):
                    out.extend(self.binding_sites(n, x, _nested=False))
        return sorted(set(out))

    def value_lines(self, scope_node, x):
        """[(target line, line of the assigned value / iterable / context)] of the statements binding x"""
        out = []
        for s in self.facts.block_statements(scope_node):
            val = None
            tg = []
            if isinstance(s, ast.Assign):
                val, tg = s.value, s.targets
            elif isinstance(s, ast.AnnAssign) and s.value is not None:
                val, tg = s.value, [s.target]
            elif isinstance(s, (ast.For, ast.AsyncFor)):
                val, tg = s.iter, [s.target]
            elif isinstance(s, (ast.With, ast.AsyncWith)):
                for it in s.items:
                    if it.optional_vars is not None:
                        for n in ast.walk(it.optional_vars):
                            if isinstance(n, ast.Name) and n.id == x and isinstance(n.ctx, ast.Store):
                                out.append((n.lineno, it.context_expr.lineno))
                continue
            if val is None:
                continue
            for t in tg:
                for n in ast.walk(t):
                    if isinstance(n, ast.Name) and n.id == x and isinstance(n.ctx, ast.Store):
                        out.append((n.lineno, val.lineno))
        return out

    def dropped_by_value_line(self, scope, x, line):
        """rope takes the line of the assigned VALUE for the definition line: a name whose target is above the
        cursor line but whose value starts on or below it is filtered by later_locals=False"""
        if scope.resolve.get(x) is not scope:
            return False
        return any(t < line <= v for (t, v) in self.value_lines(self.node_of(scope), x))

    def declared_global_below(self, x):
        """some function / class declares x global"""
        return any(isinstance(n, SCOPE_STMTS) and any(isinstance(g, ast.Global) and x in g.names
                                                      for g in self.facts.block_statements(n))
                   for n in ast.walk(self.tree))

    def may_be_dropped(self, scope, x, line):
        """later_locals=False may leave out x: it is a local of the scope with a binding on or after the line"""
        if scope.resolve.get(x) is not scope:
            return False
        return any(l >= line for (l, _k) in self.binding_sites(self.node_of(scope), x))

    def defined_by_statement_name(self, node, line):
        """the binding of node.id on `line` (in the scope the name resolves to) is a def / class statement"""
        sc = self.py(self.facts.enclosing_scope(node))
        r = sc.resolve.get(node.id) if sc is not None else None
        if r is None or isinstance(r, str):
            return False
        return (line, "def") in self.binding_sites(self.node_of(r), node.id)

    def judge_definition(self, node, got_line, same_module):
        """node: ast.Name.  Returns (problem | None, inherited cause | None)"""
        x = node.id
        sc = self.py(self.facts.enclosing_scope(node))
        if sc is None:
            return None, "lambda-no-scope"
        r = sc.resolve.get(x)
        if isinstance(r, str) or r is None:
            if r == "?":
                return None, None
            want = set()
            kinds = set()
        else:
            sites = self.binding_sites(self.node_of(r), x)
            want = {l for (l, _k) in sites}
            kinds = {k for (_l, k) in sites}
        if not same_module:
            ok = "import" in kinds or (x in self.star_names and not want)
        elif got_line is None:
            # an import that does not resolve has no location; the table entry of an import wins over assignments
            ok = not want or "import" in kinds or kinds <= {"augassign", "del"}
        else:
            ok = got_line in want
        if ok:
            return None, None
        cause = self.attributed(x, sc)
        if cause is None and r is not None and not isinstance(r, str):
            cause = self.attributed(x, r)
        if cause:
            return None, cause
        if got_line is None and kinds and kinds <= {"walrus", "annotation", "augassign", "del"}:
            return None, "C20:definition-line-unknown"
        unrecorded = kinds & {"param-posonly", "param-kwonly"}
        if unrecorded and (got_line is None or got_line in want) \
                and kinds - unrecorded <= {"walrus", "annotation", "augassign", "del"}:
            # the parameter is not in rope's table of the function (C15): what is left of the name has no line
            return None, "posonly-param" if "param-posonly" in unrecorded else "kwonly-param"
        if r is self.root and self.declared_global_below(x) and (got_line is None or got_line in want):
            return None, "global-declaration-not-honoured"
        if r is not None and not isinstance(r, str) and got_line is None \
                and "global" in self.facts.binding_kinds(self.node_of(r), x):
            # a global declaration in the scope that binds x itself (at module level, in a class body): the
            # _Global handler stores an AssignedName without module, which has no location
            return None, "global-declaration-not-honoured"
        if got_line is not None and r is not None and not isinstance(r, str):
            # the line of the assigned VALUE of a statement whose target is on an earlier line
            for s in self.facts.block_statements(self.node_of(r)):
                if isinstance(s, (ast.Assign, ast.For, ast.With, ast.AnnAssign)) and \
                        s.lineno < got_line <= (s.end_lineno or s.lineno):
                    return None, "C20:definition-line-of-value"
        return ("definition-line", x, got_line, sorted(want), sorted(kinds)), None
