"""C05 MoveGlobal stream: execution oracle only (MoveGlobal is not modelled in Coq).

A generated project has a source module defining the moved function f (which calls a helper h that stays behind
and, optionally, something the source module imported), every other module file as a destination, and clients
that reach f in every import style.  The real MoveGlobal is performed; CPython imports every module before and
after: every module must still import, every show()n reference must be the same function (qualname, returned
value) and f must now live in the destination file."""
import json
import os
import re
import shutil
import tempfile

from harness import c05_lib as L

STYLES = ["import", "import_as", "from_pkg", "from_pkg_as", "from_mod", "from_mod_as", "rel_pkg", "rel_mod", "star"]


IMPORT_USES = ["try", "class_kw", "default", "decorator", "if", "class_base", "from_name", "import", "from", None]
LIB_TEXT = "def g():\n    return %r\ndef deco(fn):\n    return fn\nclass Meta(type):\n    pass\nclass Base(object):\n    pass\n"


def gen_project(rng, idx=None):
    """-> dict(files={rel: text}, source=rel, dests=[rel], clients={rel: style})"""
    files = {}
    pkgs = [("a",), ("c",)]
    if rng.random() < 0.8:
        pkgs.append(("a", "p"))
    if rng.random() < 0.5:
        pkgs.append(("c", "q"))
    for p in pkgs:
        files["/".join(p + ("__init__.py",))] = ""
    mods = []
    for p in pkgs:
        for n in rng.sample(["b", "s", "t", "bb", "st"], rng.choice([1, 2, 3, 3])):
            rel = "/".join(p + (n + ".py",))
            mods.append(rel)
            files[rel] = LIB_TEXT % (rel + ":g")
    if rng.random() < 0.3:
        files["m.py"] = LIB_TEXT % "m.py:g"
        mods.append("m.py")
    # a top-level module with the same name as a package-level one (s.py and a/s.py): absolute and relative
    # from-imports of homonyms must not be merged
    homonym = None
    if rng.random() < 0.6:
        cands = [m for m in mods if m.count("/") == 1 and m.split("/")[1] not in ("m.py",)]
        if cands:
            inner = rng.choice(cands)
            top = inner.split("/")[1]
            if top not in files:
                files[top] = LIB_TEXT % (top + ":g")
                mods.append(top)
                homonym = (top, inner)
    source = rng.choice([m for m in mods if "/" in m and (homonym is None or m != homonym[1])])
    others = [m for m in mods if m != source]
    # how the moved function reaches a name the source module imported: in its body, only on its def line
    # (default value), only in a decorator, or through an import that is not a top-level statement
    uses_import = rng.choice(IMPORT_USES) if others else None
    if idx is not None and others:
        uses_import = IMPORT_USES[idx % len(IMPORT_USES)]      # every run sees every way of using an import
    lib = rng.choice(others) if others else None
    lines = []
    call = ""
    header, deco_line = "def f():", None
    if uses_import and lib:
        ld = L.modname_of_rel(lib)
        if uses_import == "import":
            lines.append("import %s" % ld)
            call = " + %s.g()" % ld
        elif uses_import == "from" and "." in ld:
            lines.append("from %s import %s" % tuple(ld.rsplit(".", 1)))
            call = " + %s.g()" % ld.rsplit(".", 1)[1]
        elif uses_import == "from_name":
            lines.append("from %s import g as lg" % ld)
            call = " + lg()"
        elif uses_import == "default":
            lines.append("from %s import g as lg" % ld)
            header = "def f(v=lg()):"
            call = " + v"
        elif uses_import == "decorator":
            lines.append("from %s import deco as dz" % ld)
            deco_line = "@dz"
        elif uses_import == "try":
            lines += ["try:", "    from %s import g as lg" % ld, "except ImportError:", "    lg = None"]
            call = " + lg()"
        elif uses_import == "if":
            lines += ["if True:", "    import %s as lm" % ld]
            call = " + lm.g()"
        elif uses_import == "class_kw":
            # the moved global is a class whose header names an import only as a class keyword
            lines.append("from %s import Meta as lmeta" % ld)
            header = "class f(metaclass=lmeta):"
        elif uses_import == "class_base":
            lines.append("from %s import Base as lbase" % ld)
            header = "class f(lbase):"
    lines.append("def h():")
    lines.append("    return %r" % (source + ":h"))
    if rng.random() < 0.5:
        lines.append("# about f")
    if deco_line:
        lines.append(deco_line)
    f_uses_h = rng.random() < 0.6
    lines.append(header)
    if header.startswith("class"):
        lines.append("    def val(self):")
        lines.append("        return %r%s%s" % (source + ":f", " + h()" if f_uses_h else "", call))
    else:
        lines.append("    return %r%s%s" % (source + ":f", " + h()" if f_uses_h else "", call))
    lines.append("def g():")
    lines.append("    return %r" % (source + ":g"))
    source_uses_f = rng.random() < 0.5
    if idx is not None and uses_import in ("try", "if", "class_kw", "class_base", "default", "decorator"):
        # first round: without the import cycle, so that carrying the import itself is what is tested
        source_uses_f = (idx // len(IMPORT_USES)) % 2 == 1
    if source_uses_f:
        lines.append("show(f)")
    files[source] = "".join(x + "\n" for x in lines)
    sd = L.modname_of_rel(source)
    spkg, sname = sd.rsplit(".", 1)
    clients = {}
    folders = [()] + pkgs
    for i, style in enumerate(rng.sample(STYLES, rng.choice([4, 6, 9]))):
        folder = rng.choice(folders)
        al = rng.choice(["x", "y"])
        if style == "import":
            text = "import %s\nshow(%s.f)\nshow(%s.h)\n" % (sd, sd, sd)
        elif style == "import_as":
            text = "import %s as %s\nshow(%s.f)\n" % (sd, al, al)
        elif style == "from_pkg":
            text = "from %s import %s\nshow(%s.f)\nshow(%s.g)\n" % (spkg, sname, sname, sname)
        elif style == "from_pkg_as":
            text = "from %s import %s as %s\nshow(%s.f)\n" % (spkg, sname, al, al)
        elif style == "from_mod":
            text = "from %s import f\nshow(f)\n" % sd
        elif style == "from_mod_as":
            text = "from %s import f as %s, h\nshow(%s)\nshow(h)\n" % (sd, al, al)
        elif style == "rel_pkg":
            folder = tuple(spkg.split("."))
            text = "from . import %s\nshow(%s.f)\n" % (sname, sname)
        elif style == "rel_mod":
            folder = tuple(spkg.split("."))
            text = "from .%s import f\nshow(f)\n" % sname
        else:
            text = "from %s import *\nshow(f)\nshow(h)\n" % sd
        rel = "/".join(tuple(folder) + ("k%d.py" % i,))
        files[rel] = text
        clients[rel] = style
    # destinations that re-export a name they do not use themselves (from x import g as rx) and a module that imports
    # the re-export from them: whatever is moved into such a destination, the re-export must survive
    reexp = [o for o in others if o != lib][:]
    rng.shuffle(reexp)
    for j, dest in enumerate(reexp[:2]):
        srcs = [o for o in mods if o not in (dest, source) and o not in reexp[:2]]
        if not srcs:
            continue
        via = L.modname_of_rel(rng.choice(srcs))
        files[dest] = "from %s import g as rx\n" % via + files[dest]
        rel = "r%d.py" % j
        files[rel] = "from %s import rx\nshow(rx)\n" % L.modname_of_rel(dest)
        clients[rel] = "imports_reexport_of_destination"
    if homonym is not None and homonym[0] in others:
        top, inner = homonym
        pkg = inner.split("/")[0]
        rel = "%s/h0.py" % pkg
        files[rel] = "from .%s import g as sg\nfrom %s import f\nshow(f)\nshow(sg)\n" % (top[:-3], sd)
        clients[rel] = "relative_import_of_homonym"
    # importers of the moved function that already have  from <top package> import <module>  for the top-level
    # package of a nested destination (a.p.t): the new import's  from pkg import mod  candidate must split at the
    # last dot
    for j, dest in enumerate(others):
        parts = L.modname_of_rel(dest).split(".")
        if len(parts) >= 3:
            tops = [m for m in mods if m.count("/") == 1 and m.split("/")[0] == parts[0] and m != source]
            if tops:
                tm = L.modname_of_rel(tops[0]).split(".")[1]
                rel = "t%d.py" % j
                files[rel] = "from %s import %s\nimport %s\nshow(%s.f)\nshow(%s.g)\n" % (parts[0], tm, sd, sd, tm)
                clients[rel] = "import_with_from_top_package"
    # importers that already hold an un-aliased import of a module whose name merely starts with a destination's
    # name (c.bb vs c.b): the new `import c.b` must still be added
    for j, dest in enumerate(others):
        dd = L.modname_of_rel(dest)
        for other in mods:
            od = L.modname_of_rel(other)
            if od != dd and od.startswith(dd) and other != source:
                rel = "n%d.py" % j
                files[rel] = "import %s\nimport %s\nshow(%s.f)\nshow(%s.g)\n" % (od, sd, sd, od)
                clients[rel] = "import_with_prefix_sibling"
                break
    if uses_import in ("try", "if") and lib in others:
        # moving f into the module its source keeps importing conditionally would create an import cycle through
        # the back-import of h: not a destination
        others = [o for o in others if o != lib]
    if idx is not None and idx < len(IMPORT_USES) and lib in others and len(others) > 1 \
            and uses_import in ("default", "decorator", "class_kw", "class_base"):
        # first round: not into the module the def line depends on (that is the known paste-above-definitions
        # finding), so that carrying the import itself is what is tested
        others = [o for o in others if o != lib]
    return {"files": files, "source": source, "dests": others, "clients": clients,
            "reexporting": reexp[:2],
            "features": {"uses_import": uses_import, "lib": lib,
                         # the destination back-imports from the source (h, or a conditionally imported name)
                         # while the source imports the destination
                         "cycle": bool(source_uses_f and (f_uses_h or uses_import in ("try", "if")))},
            "forced": [homonym[0]] if homonym is not None and homonym[0] in others else []}


def run_one(files, source, dest, preview=None):
    """-> (raised, before oracle, after oracle, after texts).  With `preview`, the same Move object first computes the
    changes for that other destination (a preview that is discarded) and then those for `dest`, which are performed."""
    root = tempfile.mkdtemp(prefix="ropeverif-")
    try:
        for rel, text in files.items():
            fp = os.path.join(root, rel)
            os.makedirs(os.path.dirname(fp), exist_ok=True)
            with open(fp, "w") as f:
                f.write(text)
        names = [L.modname_of_rel(r) for r in files if L.modname_of_rel(r)]
        before = L.run_oracle(root, names)
        from rope.refactor import move
        project = L.new_project(root)
        raised = None
        try:
            res = project.get_resource(source)
            text = res.read()
            offset = text.index("def f(") + 4 if "def f(" in text else text.index("class f(") + 6
            mover = move.create_move(project, res, offset)
            if preview is not None:
                mover.get_changes(project.get_resource(preview))      # looked at, then discarded
            changes = mover.get_changes(project.get_resource(dest))
            project.do(changes)
        except Exception as e:
            raised = type(e).__name__ + ": " + str(e)[:200]
        finally:
            project.close()
        texts, _ = L.read_tree_text(root)
        after = L.run_oracle(root, names)
        return raised, before, after, texts
    finally:
        shutil.rmtree(root, ignore_errors=True)


def verdicts(files, source, dest, raised, before, after):
    """{rel: description} for the modules that no longer behave the same"""
    bad = {}
    for rel in files:
        name = L.modname_of_rel(rel)
        if not name:
            continue
        b, a = before.get(name), after.get(name)
        if b is None or b["error"]:
            continue
        if a is None or a["error"]:
            culprit = a and a.get("culprit")
            bad[rel] = ("no longer imports: %s" % (a and a["error"]), culprit)
            continue
        if len(a["obs"]) != len(b["obs"]):
            bad[rel] = ("shows %d objects instead of %d" % (len(a["obs"]), len(b["obs"])), None)
            continue
        for i, (x, y) in enumerate(zip(b["obs"], a["obs"])):
            if x[0] != "G" or y[0] != "G":
                if x != y:
                    bad[rel] = ("reference %d changed: %r -> %r" % (i, x, y), None)
                continue
            want_file = dest if (x[2] == "f" and x[3] == source and not raised) else x[3]
            if y[2] != x[2] or y[4] != x[4] or y[3] != want_file:
                bad[rel] = ("reference %d is %s from %s returning %r, expected %s from %s returning %r" % (
                    i, y[2], y[3], y[4], x[2], want_file, x[4]), None)
    # a module that only fails because a module it imports is itself reported is not reported twice
    out = {}
    for rel, (desc, culprit) in bad.items():
        if L.blame_root(rel, lambda r: bad[r][1] if r in bad else None, set(bad)) != rel:
            continue
        out[rel] = desc
    return out


def _bound_by_imports(text):
    """names a module binds through from-imports and aliases (not the packages of plain imports)"""
    import ast
    out = set()
    try:
        tree = ast.parse(text)
    except SyntaxError:
        return out
    for node in tree.body:
        if isinstance(node, ast.ImportFrom):
            out |= {a.asname or a.name for a in node.names}
        elif isinstance(node, ast.Import):
            out |= {a.asname for a in node.names if a.asname}
    return out


def classify(obj, rel):
    """structural signature of a failing module of a MoveGlobal project"""
    files, source, dest = obj["files"], obj["source"], obj["dest"]
    feats = obj.get("features", {})
    # the source still uses the moved function and the moved function uses a global that stays in the source:
    # source imports destination, destination back-imports from the source -> import cycle
    if feats.get("cycle") and obj.get("circular"):
        return "import-cycle-between-source-and-destination"
    if rel == source:
        return "source"
    if rel == dest:
        # the moved def is pasted above the destination's own definitions: a name of the destination module that
        # the def LINE needs (default value, decorator) does not exist yet
        if feats.get("uses_import") in ("default", "decorator", "class_kw", "class_base") and feats.get("lib") == dest:
            return "dest:def-line-uses-a-global-of-the-destination"
        return "dest"
    # the new `import <dest>` binds the first segment of the destination's name; the client already binds it
    if L.modname_of_rel(dest).split(".")[0] in _bound_by_imports(files.get(rel, "")):
        return "client:new-import-captures-bound-name"
    return "client:" + obj.get("clients", {}).get(rel, "other")


def failure_class(desc):
    """ImportError / NameError / AttributeError ... of a verdict text, or 'value' when a reference changed"""
    m = re.search(r"no longer imports: (\w+)", desc or "")
    return m.group(1) if m else "value"


def signature(obj):
    # the structural shape of the client AND the way it is predicted to fail
    return "moveglobal:" + classify(obj, obj["module"]) + ":" + obj.get("failure", "?")


def replay(ctx, obj):
    raised, before, after, _ = run_one(obj["files"], obj["source"], obj["dest"], obj.get("preview"))
    bad = verdicts(obj["files"], obj["source"], obj["dest"], raised, before, after)
    return obj["module"] in bad if obj.get("module") else bool(bad)


def minimal(proj, dest, rel):
    keep = {r: t for r, t in proj["files"].items()
            if r not in proj["clients"] or r == rel}
    return {"kind": "moveglobal", "files": keep, "source": proj["source"], "dest": dest, "module": rel,
            "features": proj.get("features", {}),
            "clients": {rel: proj["clients"][rel]} if rel in proj["clients"] else {}}


def run(ctx):
    n = ctx.scale(8, 40)
    for pi in range(n):
        proj = gen_project(ctx.rng, pi)
        dests = proj["dests"]
        if len(dests) > ctx.scale(2, 3):
            # keep a destination that has a longer-named sibling imported by some client
            key = [d for d in dests if any(L.modname_of_rel(o) != L.modname_of_rel(d)
                                           and L.modname_of_rel(o).startswith(L.modname_of_rel(d))
                                           for o in proj["dests"])][:1]
            key += [d for d in dests if d.count("/") >= 2 and d not in key][:1]      # a destination two packages deep
            key += [d for d in proj.get("forced", []) if d not in key]               # the top-level homonym
            rest = [d for d in ctx.rng.sample(dests, ctx.scale(2, 3)) if d not in key]
            dests = key + rest[:max(0, ctx.scale(2, 3) - len(key))]
        for d in proj.get("forced", []):
            if d not in dests:
                dests = dests + [d]
        # destinations that re-export something are always among the tried ones
        for d in proj.get("reexporting", [])[:1]:
            if d in proj["dests"] and d not in dests:
                dests = dests + [d]
        for di, dest in enumerate(dests):
            # every other move is a two-step session on one Move object: preview another destination, discard it,
            # then compute and perform the real one
            preview = None
            if di % 2 == 1:
                alts = [d for d in proj["dests"] if d != dest]
                preview = ctx.rng.choice(alts) if alts else None
            raised, before, after, texts = run_one(proj["files"], proj["source"], dest, preview)
            ctx.traces += 1
            ctx.count("moveglobal:" + ("raised" if raised else "done") + (":after-preview" if preview else ""))
            bad = verdicts(proj["files"], proj["source"], dest, raised, before, after)
            for rel, style in proj["clients"].items():
                ctx.case(("mg", proj["files"][rel], proj["source"], dest, rel), nontrivial=True)
                ctx.count("moveglobal:style:" + style)
            for rel, desc in sorted(bad.items()):
                obj = minimal(proj, dest, rel)
                if preview:
                    obj["preview"] = preview
                obj["failure"] = failure_class(desc)
                obj["circular"] = "circular import" in desc or "partially initialized" in desc
                ctx.count("moveglobal_oracle_failures:" + classify(obj, rel))
                ctx.violation(obj, "C05 MoveGlobal %s -> %s: module %s %s" % (proj["source"], dest, rel, desc))
            if len(ctx.samples) < 4 and not raised and proj["clients"]:
                rel = sorted(proj["clients"])[0]
                ctx.sample({"op": "MoveGlobal f %s -> %s" % (proj["source"], dest), "module": rel,
                            "before": proj["files"][rel], "after": texts.get(rel)})
        if ctx.too_many():
            break
    ctx.extra["moveglobal_rule"] = ("source module with f (calls helper h that stays, optionally an imported module), "
                                    "destinations = other module files, 4-9 clients in the styles " + ", ".join(STYLES) +
                                    "; execution oracle only")
