"""C10 — a composite change is all-or-nothing under failure and interruption.

For every generated scenario (initial tree, a few set-up history operations, one operation under test:
History.do(change) / undo() / redo()) the real operation is run once cleanly and then once for EVERY
counted primitive call index as the injected fault and once for EVERY task-handle notification index as
the stop point.  Each run is
  * judged by an oracle that knows nothing of the model: if the call raised, the tree snapshot
    (path, type, bytes) and the undo/redo lists (object identity and abstracted contents) must equal
    those before the call; if it returned, the history lists must have been updated as documented and an
    injected fault must not have been swallowed;
  * written, with everything observed, into a Coq case file where the Gallina model of coq/C10 is
    evaluated (vm_compute) under its four variants (rollback order x finished_job check) and compared.
The variant that agrees with the code on all cases tells which behaviour the code under test has.  Since
the fix commits e6a4ce0 (reversed rollback) and 251ab2a (finished_job no longer re-checks the stop flag)
the code is expected to be the `repaired` variant (EXPECTED_VARIANT), the one the theorems C10_do_atomic /
C10_undo_atomic / C10_redo_atomic of coq/Props/C10.v speak about; any other variant matching the code is a
VIOLATION (a fixed defect has returned).  The `_refuted` lemmas speak about `as_found`, the code before the
fixes; their witnesses are replayed first from corpus/C10/.
"""
import json
import os

from harness import c10_lib as L

PROPERTY = "C10"
VARIANTS = ["v_ft", "v_ff", "v_tt", "v_tf"]           # (rollback reversed?, finished_job checks?)
EXPECTED_VARIANT = "v_tf"
VARIANT_DESC = {
    "v_ft": "as found before the fixes: forward-order rollback, finished_job re-checks the stop flag",
    "v_ff": "forward-order rollback, finished_job does not check",
    "v_tt": "reversed rollback, finished_job re-checks the stop flag",
    "v_tf": "repaired: reversed rollback, finished_job does not check",
}
SIG_ORDER = "rollback-order: a failing ChangeSet.do/undo compensates two or more done sub-changes in forward order"
SIG_FINISH = "stop-at-finish: stop() requested while a sub-change runs is first observed by finished_job, after its effect"
SIG_REMOVE = "removed-before-failure: a RemoveResource was performed before the failure (RemoveResource.undo is not implemented)"

SIG_OBSERVER = ("observer-failure: a resource observer notified after the sub-change's primitive raises (its own exception, "
                "or a failing file read of automatic_soa); the sub-change is not in `done`; the tree after the call is the one "
                "predicted by Observer.ohistory_* with that notification failing")
SIG_PARTIAL = ("partial-write: the injected fault of a write hits after open(path, 'wb') truncated the file; the sub-change is "
               "not in `done`; the tree after the call is the one predicted by Observer.ohistory_* with prim_atomic = false")

CONTENTS = ["", "A\n", "B\n", "x = 1\n", "y = 2\n", "C"]
SEGS = L.SEGMENTS


# ------------------------------------------------------------------------------------- catalogue
def CS(n, *children):
    return ["CS", "cs%d" % n, list(children)]


def catalogue():
    S = []

    def add(tree, op, setup=(), limit=100, name="", preview=None):
        S.append({"tree": tree, "limit": limit, "setup": list(setup), "op": op, "name": name})
        if preview is not None:
            S[-1]["preview"] = preview

    t_ab = {"a": "A\n", "b": "B\n"}
    # rollback order
    add({"a": "A\n"}, ["do", CS(1, ["CC", "a", "B\n", None], ["CC", "a", "C", None], ["CR", "a", False])],
        name="two edits of one file then a refused creation")
    add({}, ["do", CS(2, ["CR", "d", True], ["CR", "d/a", False], ["CR", "b", False])],
        name="mkdir, create in it, create")
    add({"b": "B\n"}, ["do", CS(3, ["CR", "d", True], ["CR", "d/a", False, True], ["CC", "d/a", "x = 1\n", None],
                            ["MV", "b", "d/b", False])], name="dependent chain: folder, file in it, edit, move into it")
    add({}, ["do", CS(4, CS(5, ["CR", "d", True], CS(6, ["CR", "d/a", False], ["CC", "d/a", "A\n", None])),
                      ["MV", "d", "x", True], ["CC", "x/a", "B\n", None], ["CR", "x/a", False])],
        name="nested sets, folder move, then refused creation")
    add({"d": None, "d/a": "A\n", "d/b": None, "d/b/x": "C"},
        ["do", CS(7, ["MV", "d", "x", True], ["CC", "x/a", "B\n", None], ["MV", "x/b", "b", True], ["CC", "b/x", "", None])],
        name="folder subtree moves")
    # previewed before other recorded edits, then performed (the preview must not capture anything)
    add(dict(t_ab), ["do", CS(40, ["CC", "a", "C", None], ["CC", "b", "C", None], ["CR", "b", False])],
        setup=[["do", CS(41, ["CC", "a", "x = 1\n", None])]], preview=0,
        name="previewed, then another edit of its file, then performed")
    add({"c.py": "x = 1\n", "d": None}, ["do", CS(42, ["CC", "c.py", "y = 2\n", None], CS(43, ["MV", "c.py", "d/c.py", False], ["CC", "d/c.py", "", None]))],
        setup=[["do", CS(44, ["CC", "c.py", "", None])], ["undo"], ["redo"]], preview=1,
        name="previewed between set-up operations")
    # edits of missing files and moves below missing folders, as first, middle and last child
    add(dict(t_ab), ["do", CS(50, ["CC", "x", "C", None], ["CC", "a", "C", None], ["CR", "b", False])], name="edit of a missing file first")
    add(dict(t_ab), ["do", CS(51, ["CC", "a", "C", None], ["CC", "d/x", "C", None], ["CC", "b", "C", None], ["CR", "b", False])],
        name="edit of a missing file below a missing folder, in the middle")
    add({"a": "A\n", "d": None}, ["do", CS(52, ["CC", "a", "C", None], CS(53, ["CC", "d/x", "", None]), ["CR", "a", False])],
        name="edit of a missing file in an existing folder, nested, then a refusal")
    add(dict(t_ab), ["do", CS(54, ["CC", "a", "C", None], ["CC", "x", "B\n", None])], name="edit of a missing file last")
    add(dict(t_ab), ["do", CS(55, ["MV", "a", "d/x/a", False], ["CC", "b", "C", None], ["CR", "b", False])], name="move below missing folders first")
    add(dict(t_ab), ["do", CS(56, ["CC", "b", "C", None], ["MV", "a", "x/a", False], ["CR", "d", True], ["CR", "b", False])],
        name="move below a missing folder in the middle")
    add(dict(t_ab), ["do", CS(57, ["CC", "b", "C", None], ["MV", "a", "d/a", False])], name="move below a missing folder last")
    add({"a": "A\n"}, ["undo"], setup=[["do", CS(58, ["CR", "d", True], ["MV", "a", "d/a", False])], ["do", CS(59, ["MV", "d", "x", True])]],
        name="undo after the folder of a moved file was renamed")
    # removal
    add(dict(t_ab), ["do", CS(8, ["RM", "a", False], ["CR", "b", False])], name="removal then refused creation")
    add(dict(t_ab), ["do", CS(9, ["CC", "a", "C", None], ["RM", "a", False])], name="removal last")
    add({"d": None, "d/a": "A\n"}, ["do", CS(10, ["RM", "d", True], ["CR", "x", True], ["CR", "x/a", False])],
        name="folder removal first")
    # undo / redo
    chain = CS(11, ["CR", "d", True], ["CR", "d/a", False], ["CC", "d/a", "x = 1\n", None], ["MV", "b", "d/b", False])
    add({"b": "B\n"}, ["undo"], setup=[["do", chain]], name="undo of the dependent chain")
    add({"b": "B\n"}, ["redo"], setup=[["do", chain], ["undo"]], name="redo of the dependent chain")
    two = CS(12, ["CC", "a", "B\n", None], ["CC", "a", "C", None], ["CC", "b", "A\n", None])
    add(dict(t_ab), ["undo"], setup=[["do", two]], name="undo of three edits")
    add(dict(t_ab), ["redo"], setup=[["do", two], ["undo"]], name="redo of three edits")
    add(dict(t_ab), ["undo"], setup=[["do", CS(13, ["CC", "a", "C", None])], ["do", CS(14, ["RM", "b", False], ["CR", "x", False])]],
        name="undo of a set containing a removal")
    conflict = CS(38, ["CC", "a", "B\n", None], ["CC", "a", "C", None], ["CC", "a", "", None])
    add({"a": "A\n"}, ["undo"], setup=[["do", conflict]], name="undo of three edits of one file")
    add({"a": "A\n"}, ["redo"], setup=[["do", conflict], ["undo"]], name="redo of three edits of one file")
    add(dict(t_ab), ["undo"], name="undo with empty history")
    add(dict(t_ab), ["redo"], setup=[["do", CS(15, ["CC", "a", "C", None])]], name="redo with empty redo list")
    # history bookkeeping
    add(dict(t_ab), ["do", CS(16)], setup=[["do", CS(17, ["CC", "a", "C", None])], ["undo"]],
        name="empty change set: not recorded, redo list cleared")
    add(dict(t_ab), ["do", CS(18, ["CC", "b", "C", None])], setup=[["do", CS(19, ["CC", "a", "C", None])], ["do", CS(20, ["CC", "a", "", None])]],
        limit=1, name="history limit 1")
    add(dict(t_ab), ["do", CS(21, ["CC", "b", "C", None])], limit=0, name="history limit 0")
    add(dict(t_ab), ["do", ["CC", "a", "C", None]], name="top-level leaf change")
    add(dict(t_ab), ["do", ["MV", "a", "x", False]], setup=[["do", ["CR", "d", True]]], name="top-level move")
    # refusals and quirks of the primitives
    add(dict(t_ab), ["do", CS(22, ["CC", "a", "C", None], ["CC", "x", "C", None])], name="edit of a missing file")
    add({"d": None, "a": "A\n"}, ["do", CS(23, ["CC", "a", "C", None], ["CC", "d", "C", None])], name="edit of a folder")
    add(dict(t_ab), ["do", CS(24, ["CC", "b", "C", None], ["CR", "a/x", False])], name="creation below a file")
    add(dict(t_ab), ["do", CS(25, ["CC", "b", "C", None], ["CR", "d/x", True])], name="creation without parent")
    add({"d": None, "d/a": "A\n"}, ["do", CS(26, ["CC", "d/a", "C", None], ["MV", "d", "d/x", True])], name="move into itself")
    add(dict(t_ab), ["do", CS(27, ["CC", "b", "C", None], ["MV", "x", "d", False])], name="move of a missing file")
    add(dict(t_ab), ["do", CS(28, ["MV", "a", "b", False], ["CR", "b", False])], name="move overwrites a file")
    add({"a": "A\n", "d": None}, ["do", CS(29, ["MV", "a", "d", False], ["CR", "d", True])], name="move onto a folder goes inside")
    add({"a": "A\n"}, ["do", CS(30, ["CC", "a", "B\n", "C"], ["CR", "a", False])], name="stale recorded old contents")
    add({"d": None}, ["do", CS(31, ["CC", "d/x", "B\n", ""], ["CR", "d", True])], name="write creates the file")
    add({"d": None, "d/a": "A\n"}, ["do", CS(32, ["MV", "d", "x/b/d", True], ["CR", "d", True])], name="folder move, parent missing")
    add({"a": "A\n"}, ["do", CS(33, ["MV", "a", "a", False], ["CC", "a", "C", None])], name="move onto itself")
    # python files (resource observers analyse them)
    add({"c.py": "x = 1\n", "d": None},
        ["do", CS(34, ["CC", "c.py", "y = 2\n", None], ["CC", "c.py", "x = 1\ny = 2\n", None], ["MV", "c.py", "d/c.py", False],
                  ["CC", "d/c.py", "", None], ["CR", "d", True])], name="python file edits and move")
    add({"c.py": "x = 1\n"}, ["undo"], setup=[["do", CS(35, ["CC", "c.py", "y = 2\n", None], ["CR", "d", True], ["MV", "c.py", "d/c.py", False])]],
        name="undo python file move")
    add({"a": "A\n"}, ["undo"], setup=[["do", CS(36, ["CR", "d", True], ["CR", "d/x", True], ["CR", "d/x/a", False], ["CC", "d/x/a", "C", None])],
                                    ["do", CS(37, ["CC", "a", "B\n", None])], ["undo"]],
        name="undo creations with a redo entry present")
    return S


# ------------------------------------------------------------------------------------- generator
def gen_tree(rng):
    tree = {}
    for s in SEGS:
        r = rng.random()
        if r < 0.25:
            tree[s] = rng.choice(CONTENTS)
        elif r < 0.45:
            tree[s] = None
            for s2 in SEGS:
                r2 = rng.random()
                if r2 < 0.2:
                    tree[s + "/" + s2] = rng.choice(CONTENTS)
                elif r2 < 0.28:
                    tree[s + "/" + s2] = None
                    if rng.random() < 0.5:
                        tree[s + "/" + s2 + "/" + rng.choice(SEGS)] = rng.choice(CONTENTS)
    return tree


def shadow_of(snapshot):
    return {p: ("d" if v is None else "f") for p, v in snapshot.items()}


def rand_path(rng):
    n = rng.choice([1, 1, 2, 2, 3])
    return "/".join(rng.choice(SEGS) for _ in range(n))


def join(parent, name):
    return name if parent == "" else parent + "/" + name


def gen_leaf(rng, sh):
    files = sorted(p for p, k in sh.items() if k == "f")
    dirs = [""] + sorted(p for p, k in sh.items() if k == "d")
    q = rng.random()
    if q < 0.06:
        # an edit of a file that does not exist (refused by the code: nothing may be created)
        parent = rng.choice(dirs)
        free = [s for s in SEGS if join(parent, s) not in sh] or SEGS
        return ["CC", join(parent, rng.choice(free)), rng.choice(CONTENTS), None]
    if q < 0.12 and files:
        # a file moved below folders that do not exist (refused: no stray folder may stay)
        src = rng.choice(files)
        parent = rng.choice(dirs)
        free = [s for s in SEGS if join(parent, s) not in sh] or SEGS
        dst = join(join(parent, rng.choice(free)), rng.choice(SEGS))
        if rng.random() < 0.4:
            dst = join(dst, rng.choice(SEGS))
        return ["MV", src, dst, False]
    r = rng.random()
    if r < 0.34:
        p = rng.choice(files) if files and rng.random() < 0.9 else rand_path(rng)
        old = None
        if rng.random() < 0.04:
            old = rng.choice(CONTENTS)
        return ["CC", p, rng.choice(CONTENTS), old]
    if r < 0.60:
        parent = rng.choice(dirs)
        free = [s for s in SEGS if join(parent, s) not in sh] or SEGS
        p = join(parent, rng.choice(free if rng.random() < 0.9 else SEGS))
        isdir = rng.random() < 0.45
        if len(p.split("/")) > 3:
            p = rand_path(rng)
        sh.setdefault(p, "d" if isdir else "f")
        return ["CR", p, isdir, rng.random() < 0.3]
    if r < 0.82:
        if sh and rng.random() < 0.9:
            src = rng.choice(sorted(sh))
        else:
            src = rand_path(rng)
        parent = rng.choice([d for d in dirs if not (d + "/").startswith(src + "/")] or [""])
        free = [s for s in SEGS if join(parent, s) not in sh] or SEGS
        dst = join(parent, rng.choice(free if rng.random() < 0.85 else SEGS))
        if rng.random() < 0.06:
            dst = rng.choice(dirs)                      # onto an existing folder
        if len(dst.split("/")) > 3 or dst == "":
            dst = rand_path(rng)
        isdir = sh.get(src) == "d"
        if rng.random() < 0.05:
            isdir = not isdir
        if src in sh and dst not in sh:
            moved = {}
            for k in list(sh):
                if k == src or k.startswith(src + "/"):
                    moved[dst + k[len(src):]] = sh.pop(k)
            sh.update({k: v for k, v in moved.items() if len(k.split("/")) <= 4})
        return ["MV", src, dst, isdir]
    if r < 0.90:
        if sh and rng.random() < 0.9:
            p = rng.choice(sorted(sh))
        else:
            p = rand_path(rng)
        isdir = sh.get(p) == "d"
        for k in list(sh):
            if k == p or k.startswith(p + "/"):
                sh.pop(k)
        return ["RM", p, isdir]
    # arbitrary leaf: mostly refused or hitting a quirk of the primitives
    k = rng.choice(["CC", "CR", "MV", "RM"])
    if k == "CC":
        return ["CC", rand_path(rng), rng.choice(CONTENTS), None if rng.random() < 0.7 else rng.choice(CONTENTS)]
    if k == "CR":
        return ["CR", rand_path(rng), rng.random() < 0.5]
    if k == "MV":
        return ["MV", rand_path(rng), rand_path(rng), rng.random() < 0.5]
    return ["RM", rand_path(rng), rng.random() < 0.5]


class Counter:
    def __init__(self):
        self.n = 100

    def next(self):
        self.n += 1
        return self.n


def gen_change(rng, sh, ids, depth=0, budget=None):
    budget = budget if budget is not None else [rng.choice([1, 2, 3, 3, 4, 5, 6, 8])]
    n = rng.choice([0, 1, 2, 2, 3, 3, 4]) if depth else rng.choice([1, 2, 2, 3, 3, 4, 5])
    children = []
    for _ in range(n):
        if budget[0] <= 0:
            break
        if depth < 3 and rng.random() < 0.22:
            children.append(gen_change(rng, sh, ids, depth + 1, budget))
        else:
            budget[0] -= 1
            children.append(gen_leaf(rng, sh))
    return ["CS", "cs%d" % ids.next(), children]


def gen_scenario(rng):
    ids = Counter()
    tree = gen_tree(rng)
    limit = 100 if rng.random() < 0.85 else rng.choice([0, 1, 2])
    scn = {"tree": tree, "limit": limit, "setup": [], "op": ["undo"], "name": "random"}
    kind = rng.choice(["do", "do", "do", "undo", "undo", "redo"])
    n_setup = rng.choice([0, 0, 1, 1, 2, 3]) if kind == "do" else rng.choice([1, 1, 2, 3])

    def current_shadow():
        probe = dict(scn, op=["do", ["CS", "cs0", []]])
        r = L.execute(probe)
        return shadow_of(r.pre_tree), len(r.pre_undo), len(r.pre_redo)

    for i in range(n_setup):
        sh, nu, nr = current_shadow()
        r = rng.random()
        if i > 0 and nu and r < 0.25:
            scn["setup"].append(["undo"])
        elif i > 0 and nr and r < 0.4:
            scn["setup"].append(["redo"])
        else:
            scn["setup"].append(["do", gen_change(rng, sh, ids)])
    sh, nu, nr = current_shadow()
    if kind == "redo":
        if nu and not nr:
            scn["setup"].append(["undo"])
            if nu > 1 and rng.random() < 0.4:
                scn["setup"].append(["undo"])
        scn["op"] = ["redo"]
    elif kind == "undo":
        scn["op"] = ["undo"]
    else:
        if rng.random() < 0.08:
            scn["op"] = ["do", gen_leaf(rng, sh)]
        else:
            scn["op"] = ["do", gen_change(rng, sh, ids)]
        if rng.random() < 0.35:
            # the change is constructed and previewed before set-up operation number `preview`
            scn["preview"] = rng.randrange(len(scn["setup"]) + 1)
    return scn


# ---------------------------------------------------------------------------------------- oracle
def judge(r):
    """Independent oracle on one run.  Returns (verdict, text): verdict in
    'ok' | 'skip:<why>' | 'atomicity' | 'bookkeeping' | 'swallowed'."""
    if r.build_error is not None:
        return "skip:unbuildable", r.build_error
    if getattr(r, "preview_mutated", None) and not r.raised:
        return "preview", "previewing the change (get_description / str / get_changed_resources) modified it: " + r.preview_mutated[:300]
    if r.raised:
        if r.fired and r.codes[-1:] not in ([1], [9]):
            return "skip:fault during rollback (double failure)", ""
        if getattr(r, "obsfail", None) is not None and r.codes[-1:] != [9] and 9 in r.codes:
            return "skip:observer failure during rollback (double failure)", ""
        if r.unmodelled:
            return "skip:shutil copy fallback", ""
        if r.py_irrev and not r.removed and not getattr(r, "preview_mutated", None) \
                and not getattr(r, "unexpected_irrev", False):
            return "skip:ill-formed change (occupied destination, stale or missing old contents, non-empty creation undone)", ""
        same_tree = r.post_tree == r.pre_tree
        same_lists = (len(r.post_undo_objs) == len(r.pre_undo_objs) and len(r.post_redo_objs) == len(r.pre_redo_objs)
                      and all(a is b for a, b in zip(r.post_undo_objs, r.pre_undo_objs))
                      and all(a is b for a, b in zip(r.post_redo_objs, r.pre_redo_objs))
                      and r.post_undo == r.pre_undo and r.post_redo == r.pre_redo)
        if not same_tree or not same_lists or not r.current_change_cleared:
            what = []
            if not same_tree:
                diff = sorted(set(p for p in set(r.pre_tree) | set(r.post_tree) if r.pre_tree.get(p, 0) != r.post_tree.get(p, 0)))
                what.append("tree differs at %s" % ", ".join(diff[:6]))
            if not same_lists:
                what.append("history lists changed")
            if not r.current_change_cleared:
                what.append("history.current_change left set")
            return "atomicity", "%s raised %s but %s" % (r.op[0], r.exc_repr, "; ".join(what))
        if getattr(r, "preview_mutated", None):
            return "preview", "previewing the change modified it: " + r.preview_mutated[:300]
        return "ok", ""
    # the call returned
    if r.fired:
        return "swallowed", "%s returned normally although primitive call %s raised the injected fault" % (r.op[0], r.flt)
    lim = r.limit
    if r.op[0] == "do":
        exp_undo = list(r.pre_undo_objs)
        if L.leaves(r.change):
            exp_undo.append(r.built)
            if len(exp_undo) > lim:
                exp_undo = exp_undo[len(exp_undo) - lim:]
        exp_redo = []
    elif r.op[0] == "undo":
        exp_undo = r.pre_undo_objs[:-1]
        exp_redo = r.pre_redo_objs + r.pre_undo_objs[-1:]
    else:
        exp_undo = r.pre_undo_objs + r.pre_redo_objs[-1:]
        exp_redo = r.pre_redo_objs[:-1]
    ok = (len(exp_undo) == len(r.post_undo_objs) and all(a is b for a, b in zip(exp_undo, r.post_undo_objs))
          and len(exp_redo) == len(r.post_redo_objs) and all(a is b for a, b in zip(exp_redo, r.post_redo_objs)))
    if not ok or not r.current_change_cleared:
        return "bookkeeping", "%s returned but the undo/redo lists are not updated as documented" % r.op[0]
    return "ok", ""


def structural_class(r):
    """Which known defect, if any, explains a failed atomicity verdict (structural facts of the run)."""
    if r.codes[-1:] == [9] and (getattr(r, "fired_in_observer", False) or getattr(r, "obsfail", None) is not None):
        return SIG_OBSERVER
    if getattr(r, "partial", False) and r.fired and r.truncated and r.codes[-1:] == [1]:
        return SIG_PARTIAL
    if r.removed:
        return SIG_REMOVE
    if r.codes[-1:] == [6] and "finished_job" in r.base_frames:
        return SIG_FINISH
    done = sum(1 for (name, fwd, st) in r.log if fwd and st == "ok" and name != "read")
    if done >= 2:
        return SIG_ORDER
    return "unexplained"


def replay_obj(scn, r, verdict, text, cls):
    return {"kind": "scenario", "scenario": r.scenario,
            "name": scn.get("name", ""), "flt": r.flt, "stp": r.stp, "obs": getattr(r, "obs", None),
            "obsfail": getattr(r, "obsfail", None), "partial": getattr(r, "partial", False), "verdict": verdict, "observed": text, "class": cls}


def signature(obj):
    if obj.get("class"):
        return obj["class"]
    if obj.get("kind") == "scenario":
        r = L.execute(obj["scenario"], flt=obj.get("flt"), stp=obj.get("stp"), obs=obj.get("obs"),
                      obsfail=obj.get("obsfail"), partial=bool(obj.get("partial")))
        v, _ = judge(r)
        if v == "atomicity":
            return structural_class(r)
        return "other:" + v
    return None


def replay(ctx, obj):
    if obj.get("kind") == "scenario":
        r = L.execute(obj["scenario"], flt=obj.get("flt"), stp=obj.get("stp"), obs=obj.get("obs"),
                      obsfail=obj.get("obsfail"), partial=bool(obj.get("partial")))
        v, _ = judge(r)
        return v in ("atomicity", "bookkeeping", "swallowed", "preview")
    if obj.get("kind") == "variant":
        # the two fixed defects' witnesses decide whether the code is (again) not the repaired variant
        w1 = {"tree": {"a": "A\n"}, "limit": 100, "setup": [],
              "op": ["do", CS(1, ["CC", "a", "B\n", None], ["CC", "a", "C", None], ["CR", "a", False])]}
        w2 = {"tree": {"a": "A\n", "b": "B\n"}, "limit": 100, "setup": [],
              "op": ["do", CS(1, ["CC", "a", "C", None], ["CC", "b", "C", None])]}
        return (judge(L.execute(w1))[0] == "atomicity") or (judge(L.execute(w2, stp=1))[0] == "atomicity")
    if obj.get("kind") == "mismatch":
        r = L.execute(obj["scenario"], flt=obj.get("flt"), stp=obj.get("stp"), obs=obj.get("obs"),
                      obsfail=obj.get("obsfail"), partial=bool(obj.get("partial")))
        reports = evaluate(ctx, [r], extended=bool(obj.get("extended")))
        return bool(reports[obj["variant"]][0] & 63)
    return True


# --------------------------------------------------------------------------------- Coq evaluation
def evaluate(ctx, runs, shard=200, extended=False, static=False):
    """-> {variant: [report word per run]} (+ key 'static': [0/1 per run] when asked).
    extended: the runs carry an observer-failure index / a truncating write and are evaluated by
    Runner.oreport over Observer.ohistory_*."""
    bodies = []
    for s in range(0, len(runs), shard):
        if extended:
            terms = [L.g_ocase(r) for r in runs[s:s + shard]]
            body = L.HEADER + "Definition cases : list ocase := %s.\n" % L.g_list(terms).replace("; {| oc_base", ";\n {| oc_base")
            fn = "oreport"
        else:
            terms = [L.g_case(r) for r in runs[s:s + shard]]
            body = L.HEADER + "Definition cases : list case := %s.\n" % L.g_list(terms).replace("; {|", ";\n {|")
            fn = "report"
        for v in VARIANTS:
            body += "Eval vm_compute in (%s %s cases).\n" % (fn, v)
        if static:
            body += "Eval vm_compute in (sreport cases).\n"
        bodies.append(body)
    outs = ctx.coq_files_parallel(bodies)
    res = {v: [] for v in VARIANTS}
    if static:
        res["static"] = []
    keys = VARIANTS + (["static"] if static else [])
    for si, out in enumerate(outs):
        nums = ctx.parse_nums(out)
        n_here = len(runs[si * shard:(si + 1) * shard])
        if len(nums) != len(keys) or any(len(x) != n_here for x in nums):
            raise RuntimeError("unexpected coqc output for shard %d: %s" % (si, out[:500]))
        for v, words in zip(keys, nums):
            res[v].extend(words)
    return res


MISMATCH_BITS = {1: "raised flag / exception chain", 2: "tree after the call", 4: "undo list", 8: "redo list",
                 16: "number of primitive calls", 32: "reversibility verdict of the forward phase"}


def describe_bits(w):
    return ", ".join(t for b, t in MISMATCH_BITS.items() if w & b)


# ------------------------------------------------------------------------------------------- run
def expand(scn, ctx, runs, owner, thorough_extra, probes=None):
    """all runs of one scenario: set-up ops, clean run, every fault index, every stop index"""
    clean, setup_runs = L.execute(scn, record_setup=True)
    if probes is not None:
        # extended schedule (Observer.v): (1) the harness's own observer raises at notification o;
        # (2) a read issued by one of rope's observers is failed; (3) a write is failed after truncating
        for o in range(min(clean.n_obs, 6)):
            probes.append((scn, "observer", L.execute(scn, obsfail=o)))
        for o in range(min(clean.observer_reads, 6)):
            probes.append((scn, "observer-read", L.execute(scn, obs=o)))
        writes = [i for i, (name, fwd, st) in enumerate(x for x in clean.log) if name == "write"]
        for k in writes[:4]:
            probes.append((scn, "partial-write", L.execute(scn, flt=k, partial=True)))
    for r in setup_runs:
        runs.append(r)
        owner.append((scn, "setup"))
    runs.append(clean)
    owner.append((scn, "clean"))
    for k in range(clean.calls):
        runs.append(L.execute(scn, flt=k))
        owner.append((scn, "fault"))
    for j in range(clean.notifications):
        runs.append(L.execute(scn, stp=j))
        owner.append((scn, "stop"))
    if clean.calls and clean.notifications:
        for _ in range(min(4 if thorough_extra else 2, clean.calls)):
            k = ctx.rng.randrange(clean.calls)
            j = ctx.rng.randrange(clean.notifications)
            runs.append(L.execute(scn, flt=k, stp=j))
            owner.append((scn, "fault+stop"))


def run(ctx):
    ctx.rule = ("scenario = initial tree over a 6-name pool (depth <= 3) + 0-3 set-up history operations + the operation "
                "under test (History.do of a generated change tree of <= 8 leaves and nesting <= 3, undo(), redo()); a fixed "
                "catalogue of dependent/nested/refused shapes plus PRNG-generated ones; each scenario is run cleanly, then once "
                "per counted primitive call index (fault), once per task-handle notification index (stop), a few fault+stop "
                "combinations, and on the extended schedule: once per observer notification (the harness's observer raises), per "
                "observer-issued read, per write (fault after truncation). A case is "
                "non-trivial when the call raised after at least one primitive had succeeded (a rollback was needed); distinct "
                "by (tree, history lists, operation, change, fault index, stop index).")
    n_random = ctx.scale(220, 1500)
    scenarios = catalogue() + [gen_scenario(ctx.rng) for _ in range(n_random)]
    runs, owner, probes = [], [], []
    for scn in scenarios:
        expand(scn, ctx, runs, owner, thorough_extra=not ctx.quick(), probes=probes)
    # drop runs that cannot be expressed (never expected: names come from the pool)
    # a resource observer (automatic_soa, module cache) raised after a primitive had run: observers are
    # outside the model; seen only for ill-typed resources (a File object naming a folder) and for moves
    # onto an existing folder.  Counted, not compared.
    ctx.count("runs_dropped_observer_raised", sum(1 for r in runs if r.build_error is None and r.observer_raised))
    keep = [i for i, r in enumerate(runs) if r.build_error is None and L.representable(r) and not r.observer_raised]
    ctx.count("runs_unrepresentable_or_unbuildable", sum(1 for r in runs if r.build_error is not None or not L.representable(r)))
    runs = [runs[i] for i in keep]
    owner = [owner[i] for i in keep]

    reports = evaluate(ctx, runs, static=True)
    static = reports.pop("static")

    # ---- which model variant is the code under test?
    def mismatching(v):
        return [i for i, w in enumerate(reports[v]) if (w & 63) and not (w & 2048)]
    mism = {v: mismatching(v) for v in VARIANTS}
    pref = ["v_tf", "v_tt", "v_ff", "v_ft"]
    exact = [v for v in pref if not mism[v]]
    vstar = exact[0] if exact else min(pref, key=lambda v: len(mism[v]))
    ctx.extra["model_variant_matching_code"] = {"variant": vstar, "meaning": VARIANT_DESC[vstar],
                                                "exact": bool(exact),
                                                "mismatching_cases_per_variant": {v: len(mism[v]) for v in VARIANTS}}
    ctx.extra["variants_agreeing_on_all_cases"] = exact
    rep = reports[vstar]
    ctx.extra["model_variant_matching_code"]["expected"] = EXPECTED_VARIANT

    if vstar != EXPECTED_VARIANT:
        # the code behaves like a model variant for which the atomicity statement is refuted
        # (C10_rollback_order_refuted / C10_stop_at_finish_refuted); failing inputs follow from the oracle
        ctx.violation({"kind": "variant", "variant": vstar, "expected": EXPECTED_VARIANT,
                       "mismatching_cases_per_variant": {v: len(mism[v]) for v in VARIANTS},
                       "broken": "the code under test agrees with model variant %s (%s), not with `repaired`: theorems "
                                 "C10_do_atomic / C10_undo_atomic / C10_redo_atomic no longer speak about the code"
                                 % (vstar, VARIANT_DESC[vstar])},
                      "C10: rope behaves as model variant %s (%s) instead of the repaired variant" % (vstar, VARIANT_DESC[vstar]),
                      no_input=True)

    if not exact:
        ctx.count("model_mismatching_cases", len(mism[vstar]))
        failing = ("atomicity", "bookkeeping", "swallowed", "preview")
        with_input = [i for i in mism[vstar] if judge(runs[i])[0] in failing]
        ctx.count("model_mismatching_cases_with_failing_oracle", len(with_input))
        # mismatching cases on which the oracle fails are reported below with their input; of the others
        # (every fault and stop index of their scenario was enumerated) a few are reported without
        for i in [i for i in mism[vstar] if i not in set(with_input)][:3]:
            r = runs[i]
            scn, kind = owner[i]
            verdict, _ = judge(r)
            ctx.violation({"kind": "mismatch", "scenario": r.scenario,
                           "flt": r.flt, "stp": r.stp, "variant": vstar, "differs": describe_bits(rep[i]),
                           "oracle": verdict,
                           "broken": "correspondence RopeVerif.C10.Runner.report1 (model Change.history_do/undo/redo vs "
                                     "rope/base/change.py + history.py): no model variant agrees with the code on all cases "
                                     "(all fault and stop indices of the scenario were enumerated), theorems C10_* no longer "
                                     "speak about the code"},
                          "C10: model (%s) and rope differ on %s [scenario %r, op %s, fault %s, stop %s]" % (
                              vstar, describe_bits(rep[i]), scn.get("name"), r.op[0], r.flt, r.stp), no_input=True)
    in_domain = 0
    artefacts = 0
    certified = 0
    for i, r in enumerate(runs):
        scn, kind = owner[i]
        w = rep[i]
        wr = reports["v_tf"][i]
        verdict, text = judge(r)
        rolled_back = r.raised and any(st == "ok" and name != "read" for (name, fwd, st) in r.log)
        ctx.case((sorted(r.pre_tree.items()), r.pre_undo, r.pre_redo, r.op, r.change, r.flt, r.stp), nontrivial=rolled_back)
        ctx.traces += 1
        ctx.count("op:%s" % r.op[0])
        ctx.count("run:%s" % kind)
        ctx.count("outcome:%s" % ("raised" if r.raised else "returned"))
        ctx.count("oracle:%s" % verdict.split(" ")[0])
        if r.raised:
            ctx.count("error_chain:%s" % "-".join(map(str, r.codes)))
        if r.change is not None:
            ctx.count("change_depth:%d" % L.depth(r.change))
            ctx.count("change_leaves:%d" % min(len(L.leaves(r.change)), 9))
        if r.observer_reads:
            ctx.count("runs_with_observer_reads_not_fault_injected")
        if w & 2048:
            artefacts += 1
            ctx.count("model_artefact_unmodelled_or_fuel")
        if static[i]:
            certified += 1
            if r.raised:
                ctx.count("statically_certified_and_raised")
            # theorem C10_static_sound: a certified change never sets the irreversibility flag, in any variant
            if any(reports[v][i] & 256 for v in VARIANTS) or (r.unknown_phase == 0 and r.py_irrev):
                ctx.violation({"kind": "mismatch", "scenario": r.scenario, "flt": r.flt, "stp": r.stp, "variant": vstar,
                               "broken": "Static.rscan certifies the change but an irreversible sub-change was performed "
                                         "(model flag or the harness's own verdict): theorem C10_static_sound / the definition "
                                         "Change.leaf_rev no longer describe the code"},
                              "C10: statically certified change performed an irreversible sub-change", no_input=True)
        # theorem domain (repaired model): raised, no irreversible prefix, single failure, well-formed tree
        if (wr & 64) and not (wr & 256) and (wr & 512) and (wr & 4096) and not (wr & 2048):
            in_domain += 1
            if not (wr & 128) or not (wr & 1024):
                ctx.violation({"kind": "mismatch", "scenario": r.scenario,
                               "flt": r.flt, "stp": r.stp, "variant": "v_tf",
                               "broken": "vm_compute of the repaired model contradicts theorem C10_do_atomic/C10_undo_atomic: the "
                                         "case file and the proved development disagree"},
                              "C10: repaired model not atomic inside the theorem's domain", no_input=True)
        if verdict in ("atomicity", "bookkeeping", "swallowed", "preview"):
            cls = structural_class(r) if verdict == "atomicity" else "other:" + verdict
            # the structural explanation must be confirmed by the model: the code behaves exactly as the
            # matching variant, and the variant with that one defect repaired is atomic on this case
            if cls in (SIG_ORDER, SIG_FINISH, SIG_REMOVE) and (w & 63) == 0:
                fix = {"v_ft": {SIG_ORDER: "v_tt", SIG_FINISH: "v_ff"}, "v_ff": {SIG_ORDER: "v_tf"},
                       "v_tt": {SIG_FINISH: "v_tf"}, "v_tf": {}}[vstar]
                if cls == SIG_REMOVE:
                    # the model predicts exactly this failure: it raised, it flagged an irreversible
                    # sub-change, it did not restore the state, and the static scan rejects the change
                    confirmed = bool(w & 256) and bool(w & 64) and not (w & 128) and not static[i]
                elif cls in fix and r.flt is not None and not r.fired:
                    # a scheduled fault that never fired in the code could fire during the rollback of the
                    # repaired model: no model confirmation for these (the stop-only sibling run has one)
                    confirmed = True
                elif cls in fix:
                    # all-or-nothing holds in a model run that returned, or raised with the state restored
                    def good(v):
                        return not (reports[v][i] & 64) or bool(reports[v][i] & 128)
                    confirmed = good(fix[cls]) or good("v_tf")
                else:
                    confirmed = False          # the matching variant does not have this defect
                if not confirmed:
                    cls = "unexplained"
            elif cls in (SIG_ORDER, SIG_FINISH, SIG_REMOVE):
                cls = "unexplained"
            ctx.violation(replay_obj(scn, r, verdict, text, cls),
                          "C10 %s: %s [scenario %r, fault index %s, stop index %s]" % (verdict, text, scn.get("name"), r.flt, r.stp))
        if ctx.too_many(9):
            break
    # ---- extended schedule: observer failures and truncating writes, compared with Observer.ohistory_*
    probes = [(scn, kind, r) for (scn, kind, r) in probes
              if r.build_error is None and L.representable(r) and not r.observer_raised and r.unknown_phase == 0]
    if probes:
        oreports = evaluate(ctx, [r for (_, _, r) in probes], extended=True)
        orep = oreports[vstar]
        omism = [i for i, w in enumerate(orep) if (w & 63) and not (w & 2048)]
        ctx.count("extended_model_mismatching_cases", len(omism))
        reported = 0
        for i, (scn, kind, r) in enumerate(probes):
            w = orep[i]
            verdict, text = judge(r)
            ctx.count("extended:%s:%s" % (kind, verdict.split(" ")[0]))
            ctx.traces += 1
            ctx.case((kind, sorted(r.pre_tree.items()), r.pre_undo, r.pre_redo, r.op, r.change, r.flt, r.obs, r.obsfail),
                     nontrivial=(verdict == "atomicity"))
            failing = verdict in ("atomicity", "bookkeeping", "swallowed", "preview")
            if failing:
                cls = structural_class(r) if verdict == "atomicity" else "other:" + verdict
                if cls in (SIG_OBSERVER, SIG_PARTIAL, SIG_REMOVE):
                    # attributed only when the extended model predicts exactly this outcome: same error chain,
                    # same tree, same lists, and the model itself raised without restoring the state
                    if not ((w & 63) == 0 and (w & 64) and not (w & 128)):
                        cls = "unexplained"
                    elif cls == SIG_REMOVE and not (w & 256):
                        cls = "unexplained"
                ctx.violation(replay_obj(scn, r, verdict, text, cls),
                              "C10 %s (%s): %s [scenario %r, fault %s, observer read %s, observer %s]" % (
                                  verdict, kind, text, scn.get("name"), r.flt, r.obs, r.obsfail))
            elif i in omism and reported < 3:
                reported += 1
                ctx.violation({"kind": "mismatch", "extended": True, "scenario": r.scenario, "flt": r.flt, "stp": r.stp,
                               "obs": r.obs, "obsfail": r.obsfail, "partial": r.partial, "variant": vstar,
                               "differs": describe_bits(w), "oracle": verdict,
                               "broken": "correspondence RopeVerif.C10.Runner.oreport1 (Observer.ohistory_* vs rope with a failing "
                                         "observer / truncating write): theorems C10_*_observer_free, C10_observer_failure_refuted, "
                                         "C10_partial_write_refuted no longer speak about the code"},
                              "C10: extended model (%s) and rope differ on %s [%s, scenario %r]" % (
                                  vstar, describe_bits(w), kind, scn.get("name")), no_input=True)
            if ctx.too_many(9):
                break
    # oracle-only stream: files with CRLF / CR line ends edited several times inside a failing composite
    from harness import c10_newlines
    c10_newlines.run(ctx, judge, replay_obj)
    ctx.extra["extended_schedule_runs"] = len(probes)
    ctx.extra["statically_certified_cases"] = certified
    ctx.extra["cases_in_theorem_domain"] = in_domain
    ctx.extra["scenarios"] = len(scenarios)
    ctx.extra["model_artefact_cases"] = artefacts
    for i in (0, 1, 2):
        if i < len(runs):
            r = runs[i]
            ctx.sample({"tree": {k: (None if v is None else v.decode()) for k, v in r.pre_tree.items()}, "op": r.op,
                        "change": r.change, "fault_index": r.flt, "stop_index": r.stp, "raised": r.exc_repr,
                        "tree_after": {k: (None if v is None else v.decode()) for k, v in r.post_tree.items()}})
    ctx.assumptions.append("prim_atomic: a raising file-system primitive has no partial effect (named flag of Observer.osched; "
                           "the truncating-write stream runs with the flag off and reproduces C10-partial-write)")
    ctx.assumptions.append("rope's own resource observers are not modelled; an observer that raises is modelled as failure point "
                           "`obs` after the primitive (harness observer, failed automatic_soa reads); C10_*_atomic assume obs = None")
    ctx.assumptions.append("shutil.move's copytree fallback (folder moved below a missing parent) is outside the model")
