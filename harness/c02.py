"""C02 - occurrence finding is exact: all and only the references to the chosen binding.

For every generated module, for EVERY identifier token as the query point:
  * rope: rope.contrib.findit.find_occurrences(project, resource, offset) in a fresh scratch project, canonicalised
    to the sorted list of token ids (token id = index of the NAME token in tokenize order); offsets that are not
    identifier tokens (inside strings, comments, string prefixes) are kept apart as "stray";
  * the module (PyF term), the textual facts the model takes as input (which tokens look like keyword arguments,
    computed from tokenize) and both observations go into a Coq case file; inside Coq (vm_compute)
      MODEL (coq/C02/Occurrences.v) is compared with rope on every modelled token - the whole partition, so query
      independence is compared as well -, SPEC (spec_binding over coq/C15/Scoping.v) with CPython's symtable, and
      inside the theorems' domain MODEL with SPEC; Coq also reports, per token, why it is outside the domain;
  * ORACLE (harness/c02_lib.py: symtable + a static resolver over ast, no rope, no model): two-sided comparison of
    rope's answer with the set of tokens denoting the same binding.  Every verdict must be explained by a token
    that is outside the domain for a recorded reason (open findings) - otherwise it is a VIOLATION.
Streams: fixed (witnesses of the refutation lemmas and hand-written modules), main (harness/c02_gen.py without
features: inside the domain by construction, measured in Coq), plus (one or two departures switched on),
c15 (the foreign generator harness/c15_gen.py: other shapes, mostly outside the domain).
"""
import ast
import os
import re
import warnings

from harness import c02_gen, c02_lib as L, c02_witness, c15, c15_gen

PROPERTY = "C02"
warnings.filterwarnings("ignore")

REASON_FOCUS = {
    1: "inherited:C15-class-scope-lookup",
    3: "header-expression",
    4: "comprehension-first-iterable",
    5: "def-name-absent",
    6: "class-name-own-attribute",
    7: "param-default-of-rebound-def",
    8: "unresolved-import-conflation",
    9: "kwarg-unresolved-callee",
}

CODE_TEXT = {
    1: "the token list of the translation differs from the tokens the harness queried",
    2: "MODEL vs rope: the reported occurrence set differs",
    3: "MODEL vs rope: one raises, the other does not",
    4: "no observation for a token",
    9: "outside the model's domain (cyclic superclasses)",
    11: "SPEC vs CPython: binding of a token differs",
    21: "inside the theorems' domain but MODEL PyName and SPEC binding differ",
}

FIXED = [
    "def h(x, y=0):\n    return x + y\ny = 2\nprint(f'{h(1, y=4)} y', f'{h(x=y, y=y)}', h(y=y))\n",
    'width = 8\nvalue = 3.5\nprint(f"{value:{width}.2f}|{value!r:>{width}}", f"{f\'{width}\'}")\nprint(width)\n',
    "x = 1\ndef f(a, b=2, *c, **d):\n    y = a\n    return y + x\nf(1, b=x)\nprint(f(a=x, b=3))\n",
    ("class A:\n    y = 1\n    def __init__(self, v):\n        self.x = v\n        self.y = v\n    def m(self):\n"
     "        return self.x + self.y + A.y\nclass B(A):\n    def n(self):\n        return self.x\na = A(v=1)\n"
     "print(a.x, A.y, B.y)\nx = 2\n"),
    "x = 1\ndef f():\n    global x\n    x = 2\n    def g():\n        return x\n    return g\nprint(x)\n",
    "x = [1]\ny = [x for x in [2]]\nz = {x: y for x in y for y in x}\nprint(x, y, z)\n",
    "x = 1\ns = 'x = x'  # x\nt = f'{x} x'\ndef f(x):\n    \"\"\"x\"\"\"\n    return x  # x\nprint(f(x=x), \"x\")\n",
    "import ext\ndef f(ext):\n    return ext\ndef g():\n    return ext.x\ntry:\n    pass\nexcept E as e:\n    print(e)\n",
    "def p(y):\n    return y\np(1,\n  y=2)\ny = 3\np(y=y)\n",
    "def deco(f): return f\ny = 5\nclass A(object):\n    @deco\n    def m(self, b: int = 3) -> int:\n        y = b\n        return y\n    z: int = 3\n    def m2(self):\n        return self.z\n",
]


# ============================================================================ Coq
def parse_evals(out):
    """the answers of the Eval commands of a case file, as Python values"""
    res = []
    for m in re.finditer(r"^\s*= (.*?)\n\s*: ", out, re.S | re.M):
        txt = m.group(1).replace("%N", "").replace(";", ",")
        txt = re.sub(r"\s+", " ", txt)
        res.append(ast.literal_eval(txt))
    return res


def case_file(obs):
    return (L.HEADER + "Definition cases : list case := [\n%s\n].\n"
            "Eval vm_compute in (mismatches cases).\nEval vm_compute in (all_stats cases).\n"
            "Eval vm_compute in (all_reasons cases).\nEval vm_compute in (c15_domain cases).\n"
            % ";\n".join(L.case_term(o) for o in obs))


def coq_results(ctx, obs, chunk=40):
    """per observed module: (code, stats, {token id: reason}, in C15 fragment)"""
    bodies = [case_file(obs[i:i + chunk]) for i in range(0, len(obs), chunk)]
    for attempt in range(4):
        try:
            outs = ctx.coq_files_parallel(bodies) if len(bodies) > 1 else [ctx.coq_file(b) for b in bodies]
            break
        except RuntimeError as e:
            # the .vo files of the shared development are being rebuilt by a concurrent build (coqc: Sys_error /
            # inconsistent assumptions): wait and evaluate the same case files again; anything else is an error
            if attempt == 3 or not ("Sys_error" in str(e) or "inconsistent assumptions" in str(e)
                                    or "Cannot find a physical path" in str(e)):
                raise
            import time
            time.sleep(8)
    res = []
    for k, out in enumerate(outs):
        n = len(obs[k * chunk:(k + 1) * chunk])
        ev = parse_evals(out)
        if len(ev) != 4:
            raise RuntimeError("unexpected coqc output:\n" + out[-2000:])
        mism = dict(ev[0])
        for i in range(n):
            res.append((mism.get(i, 0), ev[1][i], dict(ev[2][i]), bool(ev[3][i])))
    return res


# ============================================================================ classification of oracle verdicts
def structural_focus(o, v):
    """explanation of a verdict from structural facts alone (no Coq): stray offsets, exceptions, skipped tokens"""
    src = o.src
    by_id = {t.id: t for t in o.tokens}
    if v["kind"] in ("stray", "exception"):
        return None             # nothing inside strings / comments may be reported, and no query may raise
    for i in v["tokens"]:
        if o.cat[i] == "kw" and o.key[i] == "U":
            return "kwarg-unresolved-callee"
    for i in v["tokens"]:
        if o.cat[i] == "attr" and o.key[i] == "U" and by_id[i].name in o.info.class_global:
            return "global-in-class-body-as-attribute"
    for i in [v["query"]] + list(v["tokens"]):
        k = o.key[i]
        if o.cat[i] == "attr" and isinstance(k, tuple) and k[0] == "var" and (k[1], by_id[i].name) in o.info.hidden_attr:
            return "instance-attribute-assigned-in-for-or-with"
    return None


def classify(o, reasons):
    """{focus: [verdicts]} ; focus None = unexplained"""
    out = {}
    by_id = {t.id: t for t in o.tokens}
    for v in L.judge(o):
        focus = structural_focus(o, v)
        if focus is None and v["kind"] in ("missing", "extra"):
            involved = [v["query"]] + list(v["tokens"])
            # an attribute / keyword token is evaluated through its object / callee name
            involved += [o.info.base_of[i] for i in involved if o.info.base_of.get(i) is not None]
            rs = sorted({reasons.get(i, 0) for i in involved} - {0, 10})
            if rs:
                focus = REASON_FOCUS.get(rs[0])
                if rs[0] == 3:
                    # which flavour of the header rule: a header token whose Python scope is a class body
                    for i in involved:
                        if reasons.get(i) == 3 and class_env(o, by_id[i]):
                            focus = "header-class-attribute"
        out.setdefault(focus, []).append(v)
    return out


def class_env(o, t):
    """the token is evaluated by Python in a class body (header of a method / nested class)"""
    info = o.info
    for n in ast.walk(info.tree):
        if isinstance(n, ast.Name) and (n.lineno, n.col_offset) == (t.line, t.col):
            return isinstance(info.where.scope_of.get(id(n)), ast.ClassDef)
    return False


def patchedast_fails(src):
    """C08's subject: the patched AST cannot be built for this text (MismatchedTokenError and friends)"""
    from rope.refactor import patchedast
    try:
        patchedast.get_patched_ast(src, True)
        return False
    except Exception:
        return True


# ============================================================================ replay / signature
def signature(obj):
    if obj.get("kind") == "history":
        return "answer-depends-on-query-history"
    if obj.get("kind") == "project":
        return obj.get("focus") or None
    if obj.get("kind") != "module":
        return None
    return obj.get("focus") or None


def analyse(ctx, src):
    """(observed, code, stats, reasons, in15, classes) of one module, or None when it is outside the syntax"""
    o = L.observe(src)
    if o is None:
        return None
    (code, stats, reasons, in15), = coq_results(ctx, [o])
    return o, code, stats, reasons, in15, classify(o, reasons)


def replay(ctx, obj):
    """True = the recorded failure still occurs on the current tree"""
    if obj.get("kind") == "history":
        src = obj["src"]
        a1, a3 = L.history_dependent(src, src.index(obj["first"][0]) + obj["first"][1],
                                     src.index(obj["other"][0]) + obj["other"][1])
        return a1 != a3
    if obj.get("kind") == "sequence":
        obs = L.observe_sequence(obj["files"], obj["lib2"])
        files = dict(obj["files"])
        files[L.LIBNAME] = obj["lib2"]
        fresh = L.observe_project(files)
        return obs is None or any(o.rope2[t.id] != fresh[p].rope2[t.id] for p, o in obs.items() for t in o.tokens)
    if obj.get("kind") == "project":
        if obj.get("lib2"):
            obs = L.observe_sequence(obj["files1"], obj["lib2"])
            if obs is None:
                return True
            return bool(L.judge_project(obs)[0])
        obs = L.observe_project(obj["files"])
        if obs is None:
            return True
        verdicts, _keys = L.judge_project(obs)
        return bool(verdicts)
    if obj.get("kind") != "module":
        return True
    r = analyse(ctx, obj["src"])
    if r is None:
        return True
    o, code, stats, reasons, in15, classes = r
    focus = obj.get("focus") or ""
    if focus.startswith("coq:"):
        return code not in (0, 9)
    if focus == "unexplained":
        return None in classes or code not in (0, 9)
    if focus:
        return focus in classes
    return bool(classes) or code not in (0, 9)


def shrink(ctx, src, pred, budget=40):
    cur = src
    progress = True
    while progress and budget > 0:
        progress = False
        try:
            tree = ast.parse(cur)
        except SyntaxError:
            break
        for cand in c15._variants(tree):
            if budget <= 0:
                break
            if len(cand) >= len(cur):
                continue
            budget -= 1
            try:
                if pred(cand):
                    cur = cand
                    progress = True
                    break
            except Exception:
                continue
    return cur


# ============================================================================ run
def check_modules(ctx, sources, stream):
    obs = []
    for src in sources:
        o = L.observe(src)
        if o is None:
            ctx.count("untranslatable:" + stream)
            continue
        if any(isinstance(r, str) for r in o.rope.values()) and patchedast_fails(src):
            # the patched AST cannot be built for this text (MismatchedTokenError and friends): C08's findings
            ctx.count("patchedast-fails(C08):" + stream)
            continue
        obs.append(o)
    results = coq_results(ctx, obs) if obs else []
    for o, (code, stats, reasons, in15) in zip(obs, results):
        ntok = len(o.tokens)
        ctx.case(o.src, nontrivial=ntok >= 6)
        ctx.count("modules:" + stream)
        ctx.count("queries", ntok)
        ctx.traces += stats[1]
        ctx.count("tokens_compared_with_model", stats[1])
        ctx.count("core_tokens", stats[2])
        ctx.count("core_tokens_inside_domain", stats[2] - sum(1 for i, r in reasons.items() if r not in (9, 10)))
        if in15:
            ctx.count("modules_in_fragment_C15:" + stream)
        if stats[0]:
            ctx.count("modules_inside_theorem_domain:" + stream)
        for i, r in reasons.items():
            if r not in (10,):
                ctx.count("out_of_domain_token:" + REASON_FOCUS.get(r, str(r)))
        if len(ctx.samples) < 3 and stats[0] and ntok > 25:
            ctx.sample({"stream": stream, "src": o.src, "tokens": ntok,
                        "partition": sorted({tuple(v) for v in o.rope.values() if not isinstance(v, str) and v})[:12]})
        if not in15:
            # outside C15's fragment rope's scope tree differs from Python's in the ways recorded by C15: the
            # model of C02 is not claimed to follow rope there (the generators avoid these shapes)
            ctx.count("skipped_outside_C15_fragment:" + stream)
            continue
        if code % 100 in (2, 3):
            # the queries of a module are asked one after the other in one project: is the disagreement with the
            # model an effect of the earlier queries?  ask again with a new project for every query
            o2 = L.observe(o.src, fresh=True)
            (code2, stats2, reasons2, _in15), = coq_results(ctx, [o2])
            if code2 == 0 and o2.rope != o.rope:
                diff = [t for t in o.tokens if o.rope[t.id] != o2.rope[t.id]]
                ctx.violation({"kind": "module", "src": o.src, "focus": "answer-depends-on-query-history", "stream": stream,
                               "tokens": [t.id for t in diff][:8]},
                              "the answer for a token changes with the queries asked before (fresh project: model agrees)")
                o, code, stats, reasons = o2, code2, stats2, reasons2
        classes = classify(o, reasons)
        if code not in (0, 9):
            c, tid = code % 100, code // 100
            text = CODE_TEXT.get(c, "code %d" % c)
            if None in classes:
                small = shrink(ctx, o.src, lambda s: (lambda r: r is not None and r[4] and None in r[5])(analyse(ctx, s)), 25)
                ctx.violation({"kind": "module", "src": small, "focus": "unexplained", "stream": stream,
                               "coq": text, "token": tid, "full_src": o.src},
                              "%s (token %d) and rope's answer is wrong by the oracle" % (text, tid))
            else:
                small = shrink(ctx, o.src, lambda s: (lambda r: r is not None and r[4] and r[1] not in (0, 9) and r[1] % 100 == c)(analyse(ctx, s)), 25)
                ctx.violation({"kind": "module", "src": small, "focus": "coq:%d" % c, "stream": stream, "token": tid, "full_src": o.src,
                               "broken": "correspondence of coq/C02/Occurrences.v with rope (%s): C02_sound_partial / "
                                         "C02_complete_partial / C02_query_independent no longer speak about the code" % text},
                              "%s (token %d); the oracle found no failing input" % (text, tid), no_input=True)
            if ctx.too_many():
                return
            continue
        for focus, vs in classes.items():
            if focus is None:
                v = vs[0]
                small = shrink(ctx, o.src, lambda s: (lambda r: r is not None and r[4] and None in r[5])(analyse(ctx, s)), 30)
                ctx.violation({"kind": "module", "src": small, "focus": "unexplained", "stream": stream, "verdict": v, "full_src": o.src},
                              "rope's occurrences differ from the binding map of the oracle (%s, query token %r, tokens %r)"
                              % (v["kind"], v["query"], v.get("tokens")))
            elif focus.startswith("inherited:"):
                ctx.count(focus)
            else:
                ctx.violation({"kind": "module", "src": o.src, "focus": focus, "stream": stream}, "known departure: " + focus)
        if ctx.too_many():
            return


def check_projects(ctx, n):
    """two-module projects: imports resolve. Oracle only (the Coq model is about one module); the reasons a token is
    outside the domain still come from Coq, module by module"""
    for _ in range(n):
        files = c02_gen.gen_project(ctx.rng)
        if files is None:
            continue
        obs = L.observe_project(files)
        if obs is None:
            ctx.count("untranslatable:multi")
            continue
        judge_and_report(ctx, files, obs, "multi")
        if ctx.too_many():
            return


def check_sequences(ctx, n):
    """a live project: all tokens queried, lib.py rewritten through the rope API (a definition the importer already
    uses through `from lib import *` is added), all tokens queried again.  The answers after the edit are judged by
    the oracle on the final text and compared with those of a freshly opened project."""
    for _ in range(n):
        g = c02_gen.gen_sequence(ctx.rng)
        if g is None:
            continue
        files1, lib2 = g
        obs = L.observe_sequence(files1, lib2)
        if obs is None:
            ctx.count("untranslatable:sequence")
            continue
        files = dict(files1)
        files[L.LIBNAME] = lib2
        fresh = L.observe_project(files)
        stale = [(p, t.id) for p, o in obs.items() for t in o.tokens if o.rope2[t.id] != fresh[p].rope2[t.id]]
        ctx.count("sequence_queries_after_edit", sum(len(o.tokens) for o in obs.values()))
        if stale:
            p, i = stale[0]
            ctx.violation({"kind": "sequence", "files": files1, "lib2": lib2, "focus": "stale-after-edit",
                           "module": p, "token": i, "live": obs[p].rope2[i], "fresh": fresh[p].rope2[i]},
                          "after lib.py was rewritten through rope the live project answers differently from a freshly "
                          "opened one (%s token %d: %d stale answers)" % (p, i, len(stale)))
        else:
            judge_and_report(ctx, files, obs, "sequence", extra={"files1": files1, "lib2": lib2})
        if ctx.too_many():
            return


def judge_and_report(ctx, files, obs, stream, extra=None):
    if True:
        if any(isinstance(r, str) for o in obs.values() for r in o.rope2.values()) \
                and any(patchedast_fails(s) for s in files.values()):
            ctx.count("patchedast-fails(C08):" + stream)
            return
        paths = sorted(obs)
        for pth in paths:
            obs[pth].rope = {t.id: [] for t in obs[pth].tokens}      # not compared: only the reasons are used
            obs[pth].stray = {}
        results = coq_results(ctx, [obs[pth] for pth in paths])
        reasons = {pth: r[2] for pth, r in zip(paths, results)}
        if not all(r[3] for r in results):
            ctx.count("skipped_outside_C15_fragment:" + stream)
            return
        ntok = sum(len(o.tokens) for o in obs.values())
        ctx.case(tuple(sorted(files.items())), nontrivial=True)
        ctx.count("modules:" + stream, 2)
        ctx.count("queries", ntok)
        verdicts, keys = L.judge_project(obs)
        cross = sum(1 for o in obs.values() for r in o.rope2.values()
                    if not isinstance(r, str) and len({m for m, _ in r}) > 1)
        ctx.count("multi_queries_with_occurrences_in_both_modules", cross)
        seen = set()
        for v in verdicts:
            o = obs[v["module"]]
            focus = None
            if v["kind"] in ("stray", "exception"):
                focus = None
            else:
                involved = [(v["module"], v["query"])] + list(v["tokens"])
                if focus is None:
                    inv2 = list(involved)
                    for (m, i) in involved:
                        b = obs[m].info.base_of.get(i)
                        if b is not None:
                            inv2.append((m, b))
                    def reason_of(m, i):
                        r = reasons[m].get(i, 0)
                        k = keys.get((m, i))
                        if r == 8 and isinstance(k, tuple) and k[0] in (L.LIBNAME, "module"):
                            return 0        # this import resolves: the conflation of UNRESOLVED imports is no excuse
                        return r
                    rs = sorted({reason_of(m, i) for (m, i) in inv2} - {0, 10})
                    if rs:
                        focus = REASON_FOCUS.get(rs[0])
                        if rs[0] == 3 and any(reason_of(m, i) == 3 and class_env(obs[m], by_tok(obs[m], i)) for (m, i) in inv2):
                            focus = "header-class-attribute"
                if focus is None and same_line_homonym(obs, keys, involved):
                    focus = "imported-name-same-line-homonym"
                if focus is None:
                    for (m, i) in involved:
                        t = by_tok(obs[m], i)
                        if obs[m].cat[i] == "kw" and keys[(m, i)] == "U":
                            focus = "kwarg-unresolved-callee"
                        k = obs[m].key[i]
                        if obs[m].cat[i] == "attr" and isinstance(k, tuple) and k[0] == "var" \
                                and (k[1], t.name) in obs[m].info.hidden_attr:
                            focus = "instance-attribute-assigned-in-for-or-with"
                        if obs[m].cat[i] == "attr" and k == "U" and t.name in obs[m].info.class_global:
                            focus = "global-in-class-body-as-attribute"
            if focus in seen:
                continue
            seen.add(focus)
            if focus is None:
                ctx.violation(dict(extra or {}, kind="project", files=files, focus="unexplained", verdict=v, stream=stream),
                              "two-module project (" + stream + "): rope's occurrences differ from the binding map of the oracle (%s, %s token %r, %r)"
                              % (v["kind"], v["module"], v["query"], v.get("tokens")))
            elif focus.startswith("inherited:"):
                ctx.count(focus)
            else:
                ctx.violation({"kind": "project" if focus == "imported-name-same-line-homonym" else "module",
                               "files": files, "src": files["mod_under_test.py"], "focus": focus, "stream": stream},
                              "known departure: " + focus)


def same_line_homonym(obs, keys, involved):
    """one of the tokens is an import of lib.X (or lib's own module-level X) and another is a token of lib spelled X that
    denotes a different binding one of whose binding tokens stands on a line where the module-level X is bound too
    (same_pyname compares definition locations by line)"""
    lib = obs[L.LIBNAME]
    lines = {}
    for t in lib.tokens:
        if t.kind in ("KStore", "KParam", "KDefName", "KClassName", "KExceptName", "KAlias", "KImportName"):
            lines.setdefault(keys[(L.LIBNAME, t.id)], set()).add(t.line)
    ks = {keys[k] for k in involved}
    for k1 in ks:
        if not (isinstance(k1, tuple) and len(k1) == 3 and k1[0] == L.LIBNAME and k1[1] == ("var", ())):
            continue
        for k2 in ks:
            if isinstance(k2, tuple) and len(k2) == 3 and k2[0] == L.LIBNAME and k2[2] == k1[2] and k2 != k1 \
                    and lines.get(k1, set()) & lines.get(k2, set()):
                return True
    return False


def by_tok(o, i):
    for t in o.tokens:
        if t.id == i:
            return t
    return None


def run(ctx):
    ctx.rule = ("modules from harness/c02_gen.py (tiny shared identifier pool for variables, parameters, attributes and "
                "keyword arguments; comments / strings / f-strings containing the identifiers), from the foreign "
                "generator harness/c15_gen.py, and fixed modules; for every identifier token of every module "
                "find_occurrences is called and the whole partition is compared with the Coq model and with the "
                "symtable-based oracle. Non-trivial = at least 6 identifier tokens; distinct by source text.")
    n_main = ctx.scale(150, 1500)
    n_plus = ctx.scale(60, 600)
    n_c15 = ctx.scale(50, 500)
    fixed = list(FIXED) + [c02_witness.EXAMPLE] + [s for (s, _t) in c02_witness.WITNESSES.values()]
    check_modules(ctx, fixed, "fixed")
    rng = ctx.rng

    def batch(gen, n, stream, size=120):
        done = 0
        while done < n and not ctx.too_many():
            srcs = []
            for _ in range(min(size, n - done)):
                s = gen()
                if s:
                    srcs.append(s)
            done += size
            check_modules(ctx, srcs, stream)

    batch(lambda: c02_gen.gen_module(rng, ()), n_main, "main")

    def plus():
        k = 1 if rng.random() < 0.7 else 2
        return c02_gen.gen_module(rng, tuple(rng.sample(c02_gen.FEATURES, k)))

    batch(plus, n_plus, "plus")
    batch(lambda: c15_gen.gen_module(rng, ()), n_c15, "c15")
    if not ctx.too_many():
        check_projects(ctx, ctx.scale(25, 200))
    if not ctx.too_many():
        check_sequences(ctx, ctx.scale(12, 100))
    ctx.extra["streams"] = {"main": n_main, "plus": n_plus, "c15": n_c15, "fixed": len(fixed)}
    ctx.assumptions.append("imports never resolve (one-module scratch project); keyword arguments and attributes are "
                           "compared with the model only where no type inference is involved")
