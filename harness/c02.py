"""C02 - occurrence finding is exact: all and only the references to the chosen binding.

For every generated module, for EVERY identifier token as the query point:
  * rope: rope.contrib.findit.find_occurrences(project, resource, offset) in a fresh scratch project, canonicalised
    to the sorted list of token ids (token id = index of the NAME token in tokenize order); offsets that are not
    identifier tokens (inside strings, comments, string prefixes) are kept apart as "stray";
  * the module (PyF term), the textual facts the model takes as input (which tokens look like keyword arguments,
    computed from tokenize) and both observations go into a Coq case file; inside Coq (vm_compute)
      MODEL (coq/C02/Occurrences.v) is compared with rope on every modelled token - the whole partition, so query
      independence is compared as well -, SPEC (spec_binding over coq/C15/Scoping.v) with CPython's symtable, and
      inside the theorems' domain MODEL with SPEC; Coq also reports, per token, why it is outside the domain;
  * ORACLE (harness/c02_lib.py: symtable + a static resolver over ast, no rope, no model): two-sided comparison of
    rope's answer with the set of tokens denoting the same binding.  Every verdict must be explained by a token
    that is outside the domain for a recorded reason (open findings) - otherwise it is a VIOLATION.
Streams: fixed (witnesses of the refutation lemmas and hand-written modules), main (harness/c02_gen.py without
features: inside the domain by construction, measured in Coq), plus (one or two departures switched on),
c15 (the foreign generator harness/c15_gen.py: other shapes, mostly outside the domain).
"""
import ast
import os
import re
import warnings

from harness import c02_gen, c02_lib as L, c02_witness, c15, c15_gen

PROPERTY = "C02"
warnings.filterwarnings("ignore")

REASON_FOCUS = {
    1: "inherited:C15-class-scope-lookup",
    3: "header-expression",
    4: "comprehension-first-iterable",
    5: "def-name-absent",
    6: "class-name-own-attribute",
    7: "param-default-of-rebound-def",
    8: "unresolved-import-conflation",
    9: "kwarg-unresolved-callee",
}

CODE_TEXT = {
    1: "the token list of the translation differs from the tokens the harness queried",
    2: "MODEL vs rope: the reported occurrence set differs",
    3: "MODEL vs rope: one raises, the other does not",
    4: "no observation for a token",
    9: "outside the model's domain (cyclic superclasses)",
    11: "SPEC vs CPython: binding of a token differs",
    21: "inside the theorems' domain but MODEL PyName and SPEC binding differ",
}

FIXED = [
    "def h(x, y=0):\n    return x + y\ny = 2\nprint(f'{h(1, y=4)} y', f'{h(x=y, y=y)}', h(y=y))\n",
    'width = 8\nvalue = 3.5\nprint(f"{value:{width}.2f}|{value!r:>{width}}", f"{f\'{width}\'}")\nprint(width)\n',
    "x = 1\ndef f(a, b=2, *c, **d):\n    y = a\n    return y + x\nf(1, b=x)\nprint(f(a=x, b=3))\n",
    ("class A:\n    y = 1\n    def __init__(self, v):\n        self.x = v\n        self.y = v\n    def m(self):\n"
     "        return self.x + self.y + A.y\nclass B(A):\n    def n(self):\n        return self.x\na = A(v=1)\n"
     "print(a.x, A.y, B.y)\nx = 2\n"),
    "x = 1\ndef f():\n    global x\n    x = 2\n    def g():\n        return x\n    return g\nprint(x)\n",
    "x = [1]\ny = [x for x in [2]]\nz = {x: y for x in y for y in x}\nprint(x, y, z)\n",
    "x = 1\ns = 'x = x'  # x\nt = f'{x} x'\ndef f(x):\n    \"\"\"x\"\"\"\n    return x  # x\nprint(f(x=x), \"x\")\n",
    "import ext\ndef f(ext):\n    return ext\ndef g():\n    return ext.x\ntry:\n    pass\nexcept E as e:\n    print(e)\n",
    "def p(y):\n    return y\np(1,\n  y=2)\ny = 3\np(y=y)\n",
    "def deco(f): return f\ny = 5\nclass A(object):\n    @deco\n    def m(self, b: int = 3) -> int:\n        y = b\n        return y\n    z: int = 3\n    def m2(self):\n        return self.z\n",
]


# ============================================================================ Coq
def parse_evals(out):
    """the answers of the Eval commands of a case file, as Python values"""
    res = []
    for m in re.finditer(r"^\s*= (.*?)\n\s*: ", out, re.S | re.M):
        txt = m.group(1).replace("%N", "").replace(";", ",")
        txt = re.sub(r"\s+", " ", txt)
        res.append(ast.literal_eval(txt))
    return res


def case_file(obs):
    return (L.HEADER + "Definition cases : list case := [\n%s\n].\n"
            "Eval vm_compute in (mismatches cases).\nEval vm_compute in (all_stats cases).\n"
            "Eval vm_compute in (all_reasons cases).\nEval vm_compute in (c15_domain cases).\n"
            % ";\n".join(L.case_term(o) for o in obs))


def coq_results(ctx, obs, chunk=40):
    """per observed module: (code, stats, {token id: reason}, in C15 fragment)"""
    bodies = [case_file(obs[i:i + chunk]) for i in range(0, len(obs), chunk)]
    for attempt in range(4):
        try:
            outs = ctx.coq_files_parallel(bodies) if len(bodies) > 1 else [ctx.coq_file(b) for b in bodies]
            break
        except RuntimeError as e:
            # the .vo files of the shared development are being rebuilt by a concurrent build (coqc: Sys_error /
            # inconsistent assumptions): wait and evaluate the same case files again; anything else is an error
            if attempt == 3 or not ("Sys_error" in str(e) or "inconsistent assumptions" in str(e)
                                    or "Cannot find a physical path" in str(e)):
                raise
            import time
            time.sleep(8)
    res = []
    for k, out in enumerate(outs):
        n = len(obs[k * chunk:(k + 1) * chunk])
        ev = parse_evals(out)
        if len(ev) != 4:
            raise RuntimeError("unexpected coqc output:\n" + out[-2000:])
        mism = dict(ev[0])
        for i in range(n):
            res.append((mism.get(i, 0), ev[1][i], dict(ev[2][i]), bool(ev[3][i])))
    return res


# ============================================================================ classification of oracle verdicts
def explain_pair(o, reasons, kind, q, w):
    """the finding a single disagreement is attributed to, or None.  `kind` is missing / extra, q the query token, w the
    token that is wrongly absent from / present in rope's answer for q.  A disagreement is attributed to a finding only
    (1) by an exact structural shape of these two tokens, or (2) when the Coq model speaks about both tokens (neither is
    PUnmodelled / skipped) - the model has been compared with rope on this module and predicts this very answer - and
    Coq reports one of the two tokens (or the object / callee name an attribute / keyword is evaluated through) outside
    the theorems' domain for a recorded reason."""
    by_id = {t.id: t for t in o.tokens}
    # (1) exact shapes the model does not speak about
    if kind == "extra" and o.cat[w] == "kw" and o.key[w] == "U":
        return "kwarg-unresolved-callee"       # a keyword of a callee that is not static, reported for a non-parameter
    for i in (q, w):
        k = o.key[i]
        if o.cat[i] == "attr" and k == "U" and by_id[i].name in o.info.class_global and kind == "extra":
            return "global-in-class-body-as-attribute"
        if o.cat[i] == "attr" and isinstance(k, tuple) and k[0] == "var" and (k[1], by_id[i].name) in o.info.hidden_attr:
            return "instance-attribute-assigned-in-for-or-with"
    # (2) predicted by the model
    for i in (q, w):
        # an attribute / keyword token the model is silent about, evaluated through an object / callee name that the
        # model does speak about and puts outside the domain: the disagreement follows that name
        b = o.info.base_of.get(i)
        if (reasons.get(i) == 10 or i in o.skip) and b is not None and reasons.get(b, 0) not in (0, 10) and b not in o.skip:
            r = reasons[b]
            if r == 3 and class_env(o, by_id[b]):
                return "header-class-attribute"
            return REASON_FOCUS.get(r)
    if reasons.get(w, 0) not in (0, 10) and w not in o.skip:
        # the model puts the token w itself outside the domain (its PyName is not the one of its binding): it is missing
        # from the answers for its binding and may turn up in others, whoever asks
        r = reasons[w]
        return "header-class-attribute" if (r == 3 and class_env(o, by_id[w])) else REASON_FOCUS.get(r)
    if reasons.get(q) == 10 or q in o.skip:
        return None
    if kind == "missing" and reasons.get(q, 0) not in (0, 10):
        # the model puts the QUERY token outside the domain (its PyName is not the one of its binding): every token of
        # its binding is then missing from the answer, whatever the model says about that token
        r = reasons[q]
        return "header-class-attribute" if (r == 3 and class_env(o, by_id[q])) else REASON_FOCUS.get(r)
    if reasons.get(w) == 10 or w in o.skip:
        # the model is silent about w.  Only when the oracle has no expectation for w either (its binding is not
        # static) may the disagreement follow the query token, which the model puts outside the domain
        r = reasons.get(q, 0)
        return REASON_FOCUS.get(r) if (o.key[w] == "U" and kind == "extra" and r not in (0, 10)) else None
    involved = [q, w] + [o.info.base_of[i] for i in (q, w) if o.info.base_of.get(i) is not None]
    rs = sorted({reasons.get(i, 0) for i in involved} - {0, 10})
    if not rs:
        return None
    focus = REASON_FOCUS.get(rs[0])
    if rs[0] == 3 and any(reasons.get(i) == 3 and class_env(o, by_id[i]) for i in involved):
        focus = "header-class-attribute"       # the header token's Python scope is a class body
    return focus


def classify(o, reasons):
    """{focus: [verdicts]} ; focus None = unexplained.  Every single (query, token) disagreement is explained on its own;
    stray offsets and exceptions are never explained."""
    out = {}
    for v in L.judge(o):
        if v["kind"] == "exception" and v["exc"] == "EXC:AttributeError" \
                and o.skip.get(v["query"]) == "inherited-import-attribute-hint-crash":
            out.setdefault("inherited-import-attribute-hint-crash", []).append(v)
            continue
        if v["kind"] in ("stray", "exception"):
            out.setdefault(None, []).append(v)
            continue
        for w in v["tokens"]:
            focus = explain_pair(o, reasons, v["kind"], v["query"], w)
            out.setdefault(focus, []).append({"kind": v["kind"], "query": v["query"], "tokens": [w]})
    return out


def class_env(o, t):
    """the token is evaluated by Python in a class body (header of a method / nested class)"""
    info = o.info
    for n in ast.walk(info.tree):
        if isinstance(n, ast.Name) and (n.lineno, n.col_offset) == (t.line, t.col):
            return isinstance(info.where.scope_of.get(id(n)), ast.ClassDef)
    return False


def imports_resolvable(tree):
    import importlib.util
    for n in ast.walk(tree):
        tops = []
        if isinstance(n, ast.Import):
            tops = [a.name.split(".")[0] for a in n.names]
        elif isinstance(n, ast.ImportFrom) and not n.level and n.module:
            tops = [n.module.split(".")[0]]
        for t in tops:
            try:
                if importlib.util.find_spec(t) is not None:
                    return True
            except (ImportError, ValueError):
                pass
    return False


def self_named_base(tree):
    for n in ast.walk(tree):
        if isinstance(n, ast.ClassDef) and any(isinstance(b, ast.Name) and b.id == n.name for b in n.bases):
            return True
    return False


def patchedast_fails(src):
    """C08's subject: the patched AST cannot be built for this text (MismatchedTokenError and friends)"""
    from rope.refactor import patchedast
    try:
        patchedast.get_patched_ast(src, True)
        return False
    except Exception:
        return True


# ============================================================================ replay / signature
def signature(obj):
    if obj.get("kind") == "history":
        return "answer-depends-on-query-history"
    if obj.get("kind") in ("project", "sequence"):
        return obj.get("focus") or None
    if obj.get("kind") != "module":
        return None
    return obj.get("focus") or None


def analyse(ctx, src):
    """(observed, code, stats, reasons, in15, classes) of one module, or None when it is outside the syntax"""
    o = L.observe(src)
    if o is None:
        return None
    (code, stats, reasons, in15), = coq_results(ctx, [o])
    return o, code, stats, reasons, in15, classify(o, reasons)


def replay(ctx, obj):
    """True = the recorded failure still occurs on the current tree"""
    if obj.get("kind") == "history":
        src = obj["src"]
        a1, a3 = L.history_dependent(src, src.index(obj["first"][0]) + obj["first"][1],
                                     src.index(obj["other"][0]) + obj["other"][1])
        return a1 != a3
    if obj.get("kind") == "sequence":
        obs = L.observe_sequence(obj["files"], obj["lib2"])
        files = dict(obj["files"])
        files[L.LIBNAME] = obj["lib2"]
        if obs is None:
            return True
        fresh = L.observe_project(files)
        control = L.observe_project(files, passes=2)
        bad_live = {(v["module"], v["query"]) for v in L.judge_project(obs)[0]}
        bad_control = {(v["module"], v["query"]) for v in L.judge_project(control)[0]}
        return any(o.rope2[t.id] != fresh[p].rope2[t.id] and o.rope2[t.id] != control[p].rope2[t.id]
                   and (p, t.id) in bad_live and (p, t.id) not in bad_control for p, o in obs.items() for t in o.tokens)
    if obj.get("kind") == "project":
        if obj.get("lib2"):
            obs = L.observe_sequence(obj["files1"], obj["lib2"])
            if obs is None:
                return True
            return bool(L.judge_project(obs)[0])
        obs = L.observe_project(obj["files"])
        if obs is None:
            return True
        verdicts, _keys = L.judge_project(obs)
        return bool(verdicts)
    if obj.get("kind") != "module":
        return True
    r = analyse(ctx, obj["src"])
    if r is None:
        return True
    o, code, stats, reasons, in15, classes = r
    focus = obj.get("focus") or ""
    if focus.startswith("coq:"):
        return code not in (0, 9)
    if focus == "unexplained":
        return None in classes or code not in (0, 9)
    if focus:
        return focus in classes
    return bool(classes) or code not in (0, 9)


def shrink(ctx, src, pred, budget=40):
    cur = src
    progress = True
    while progress and budget > 0:
        progress = False
        try:
            tree = ast.parse(cur)
        except SyntaxError:
            break
        for cand in c15._variants(tree):
            if budget <= 0:
                break
            if len(cand) >= len(cur):
                continue
            budget -= 1
            try:
                if pred(cand):
                    cur = cand
                    progress = True
                    break
            except Exception:
                continue
    return cur


# ============================================================================ run
def check_modules(ctx, sources, stream):
    obs = []
    for src in sources:
        o = L.observe(src)
        if o is None:
            ctx.count("untranslatable:" + stream)
            continue
        if any(isinstance(r, str) for r in o.rope.values()) and patchedast_fails(src):
            # the patched AST cannot be built for this text (MismatchedTokenError and friends): C08's findings
            ctx.count("patchedast-fails(C08):" + stream)
            continue
        if stream == "c15" and imports_resolvable(o.tr.tree):
            # the one-module model is about projects in which no import resolves (a `from __future__ import ..` of the
            # foreign generator does resolve, into the standard library)
            ctx.count("skipped_resolvable_import:" + stream)
            continue
        if self_named_base(o.tr.tree):
            # `class x(x)` inside a scope that has another x: the superclass relation rope builds depends on the order
            # its inference runs in (C15 keeps cyclic superclass relations out of its model too)
            ctx.count("skipped_self_named_base:" + stream)
            continue
        obs.append(o)
    results = coq_results(ctx, obs) if obs else []
    for o, (code, stats, reasons, in15) in zip(obs, results):
        ntok = len(o.tokens)
        ctx.case(o.src, nontrivial=ntok >= 6)
        ctx.count("modules:" + stream)
        ctx.count("queries", ntok)
        ctx.traces += stats[1]
        ctx.count("tokens_compared_with_model", stats[1])
        ctx.count("core_tokens", stats[2])
        ctx.count("core_tokens_inside_domain", stats[2] - sum(1 for i, r in reasons.items() if r not in (9, 10)))
        if in15:
            ctx.count("modules_in_fragment_C15:" + stream)
        if stats[0]:
            ctx.count("modules_inside_theorem_domain:" + stream)
        for i, r in reasons.items():
            if r not in (10,):
                ctx.count("out_of_domain_token:" + REASON_FOCUS.get(r, str(r)))
        if len(ctx.samples) < 3 and stats[0] and ntok > 25:
            ctx.sample({"stream": stream, "src": o.src, "tokens": ntok,
                        "partition": sorted({tuple(v) for v in o.rope.values() if not isinstance(v, str) and v})[:12]})
        if not in15:
            # outside C15's fragment rope's scope tree differs from Python's in the ways recorded by C15: the
            # model of C02 is not claimed to follow rope there (the generators avoid these shapes)
            ctx.count("skipped_outside_C15_fragment:" + stream)
            continue
        if code % 100 in (2, 3):
            # the queries of a module are asked one after the other in one project: is the disagreement with the
            # model an effect of the earlier queries?  ask again with a new project for every query
            o2 = L.observe(o.src, fresh=True)
            (code2, stats2, reasons2, _in15), = coq_results(ctx, [o2])
            if code2 == 0 and o2.rope != o.rope:
                diff = [t for t in o.tokens if o.rope[t.id] != o2.rope[t.id]]
                ctx.violation({"kind": "module", "src": o.src, "focus": "answer-depends-on-query-history", "stream": stream,
                               "tokens": [t.id for t in diff][:8]},
                              "the answer for a token changes with the queries asked before (fresh project: model agrees)")
                o, code, stats, reasons = o2, code2, stats2, reasons2
        classes = classify(o, reasons)
        if code not in (0, 9):
            c, tid = code % 100, code // 100
            text = CODE_TEXT.get(c, "code %d" % c)
            if None in classes:
                small = shrink(ctx, o.src, lambda s: (lambda r: r is not None and r[4] and None in r[5])(analyse(ctx, s)), 25)
                ctx.violation({"kind": "module", "src": small, "focus": "unexplained", "stream": stream,
                               "coq": text, "token": tid, "full_src": o.src},
                              "%s (token %d) and rope's answer is wrong by the oracle" % (text, tid))
            else:
                small = shrink(ctx, o.src, lambda s: (lambda r: r is not None and r[4] and r[1] not in (0, 9) and r[1] % 100 == c)(analyse(ctx, s)), 25)
                ctx.violation({"kind": "module", "src": small, "focus": "coq:%d" % c, "stream": stream, "token": tid, "full_src": o.src,
                               "broken": "correspondence of coq/C02/Occurrences.v with rope (%s): C02_sound_partial / "
                                         "C02_complete_partial / C02_query_independent no longer speak about the code" % text},
                              "%s (token %d); the oracle found no failing input" % (text, tid), no_input=True)
            if ctx.too_many():
                return
            continue
        for focus, vs in classes.items():
            if focus is None:
                v = vs[0]
                small = shrink(ctx, o.src, lambda s: (lambda r: r is not None and r[4] and None in r[5])(analyse(ctx, s)), 30)
                ctx.violation({"kind": "module", "src": small, "focus": "unexplained", "stream": stream, "verdict": v, "full_src": o.src},
                              "rope's occurrences differ from the binding map of the oracle (%s, query token %r, tokens %r)"
                              % (v["kind"], v["query"], v.get("tokens")))
            elif focus.startswith("inherited:"):
                ctx.count(focus)
            else:
                ctx.violation({"kind": "module", "src": o.src, "focus": focus, "stream": stream}, "known departure: " + focus)
        if ctx.too_many():
            return


def project_model_results(ctx, items, chunk=6):
    """[(code, set of encoded unmodelled tokens)] of coq/C02/ProjectRunner.v for the observed projects"""
    bodies = []
    for i in range(0, len(items), chunk):
        terms = [L.project_case_term(obs, L.project_keys(obs)) for (_files, obs) in items[i:i + chunk]]
        bodies.append(L.HEADER2 + "Definition cases : list case2 := [\n%s\n].\nEval vm_compute in (mismatches2 cases).\n"
                      "Eval vm_compute in (all_unmodelled2 cases).\n" % ";\n".join(terms))
    outs = None
    for attempt in range(4):
        try:
            outs = ctx.coq_files_parallel(bodies) if len(bodies) > 1 else [ctx.coq_file(b) for b in bodies]
            break
        except RuntimeError as e:
            if attempt == 3 or not ("Sys_error" in str(e) or "inconsistent assumptions" in str(e)):
                raise
            import time
            time.sleep(8)
    res = []
    for k, out in enumerate(outs):
        ev = parse_evals(out)
        mism = dict(ev[0])
        for j, un in enumerate(ev[1]):
            res.append((mism.get(j, 0), set(un)))
    return res


def check_projects(ctx, n):
    """two-module projects: imports of lib resolve.  The two-module MODEL (coq/C02/Project.v) is compared with rope's
    answers over both files; the oracle judges every answer; the reasons a token is outside the theorems' domain come
    from the one-module model, module by module"""
    items = []
    for k in range(n + 1):
        # the example project of the non-vacuity lemma first, then generated ones
        files = dict(c02_witness.EXAMPLE_PROJECT) if k == 0 else c02_gen.gen_project(ctx.rng)
        if files is None:
            continue
        if k % 3 == 1:
            # package layout: the importing module lives in a package that has a module called lib of its own;
            # `import lib` is absolute and still means the top-level lib.py (project.find_module: source folders first)
            # (the decoy binds the same top-level names and nothing else: no builtins, no imports - any hit in it is wrong)
            tops = []
            for st in ast.parse(files[L.LIBNAME]).body:
                if isinstance(st, (ast.FunctionDef, ast.ClassDef)):
                    tops.append(st.name)
                elif isinstance(st, ast.Assign):
                    tops += [t_.id for t_ in st.targets if isinstance(t_, ast.Name)]
            decoy = "".join("%s = 0\n" % x for x in sorted(set(tops)))
            files = {L.LIBNAME: files[L.LIBNAME], "pkg/__init__.py": "", "pkg/lib.py": decoy,
                     "pkg/" + L.MODNAME: files[L.MODNAME]}
            ctx.count("multi_projects_package_layout")
        obs = L.observe_project(files)
        if obs is None:
            ctx.count("untranslatable:multi")
            continue
        items.append((files, obs))
    results = project_model_results(ctx, items) if items else []
    for (files, obs), pm in zip(items, results):
        judge_and_report(ctx, files, obs, "multi", project_model=pm)
        if ctx.too_many():
            return


def check_sequences(ctx, n):
    """a live project: all tokens queried, lib.py rewritten through the rope API (a definition the importer already
    uses through `from lib import *` is added), all tokens queried again.  The answers after the edit are judged by
    the oracle on the final text and compared with those of a freshly opened project."""
    for _ in range(n):
        g = c02_gen.gen_sequence(ctx.rng)
        if g is None:
            continue
        files1, lib2 = g
        obs = L.observe_sequence(files1, lib2)
        if obs is None:
            ctx.count("untranslatable:sequence")
            continue
        files = dict(files1)
        files[L.LIBNAME] = lib2
        fresh = L.observe_project(files)
        ctx.count("sequence_queries_after_edit", sum(len(o.tokens) for o in obs.values()))
        differing = [(p, t.id) for p, o in obs.items() for t in o.tokens if o.rope2[t.id] != fresh[p].rope2[t.id]]
        ignore = set()
        if differing:
            # is it the edit, or only the fact that the project has answered queries before (open finding
            # answer-depends-on-query-history)?  control: the final text in a project that answered every query once
            control = L.observe_project(files, passes=2)
            bad_live = {(v["module"], v["query"]) for v in L.judge_project(obs)[0]}
            bad_control = {(v["module"], v["query"]) for v in L.judge_project(control)[0]}
            stale = [(p, i) for (p, i) in differing
                     if obs[p].rope2[i] != control[p].rope2[i] and (p, i) in bad_live and (p, i) not in bad_control]
            ignore = {k for k in differing if k not in stale}
            ctx.count("sequence_answers_depending_on_history", len(ignore))
            if stale:
                # attribute tokens go through rope's object inference, whose stored call information survives the edit
                # (open finding stale-attribute-after-edit); any other token is a binding the edit cannot change
                only_attr = all(obs[p].cat[i] == "attr" for (p, i) in stale)
                p, i = stale[0]
                ctx.violation({"kind": "sequence", "files": files1, "lib2": lib2,
                               "focus": "stale-attribute-after-edit" if only_attr else "stale-after-edit",
                               "module": p, "token": i, "live": obs[p].rope2[i], "fresh": fresh[p].rope2[i]},
                              "after lib.py was rewritten through rope the live project answers wrongly where a freshly "
                              "opened one and one that answered the same queries before answer rightly "
                              "(%s token %d: %d stale answers)" % (p, i, len(stale)))
                if ctx.too_many():
                    return
                continue
        judge_and_report(ctx, files, obs, "sequence", extra={"files1": files1, "lib2": lib2}, ignore=ignore)
        if ctx.too_many():
            return


def judge_and_report(ctx, files, obs, stream, extra=None, project_model=None, ignore=()):
    if True:
        if any(isinstance(r, str) for o in obs.values() for r in o.rope2.values()) \
                and any(patchedast_fails(s) for s in files.values()):
            ctx.count("patchedast-fails(C08):" + stream)
            return
        paths = sorted(obs)
        for pth in paths:
            obs[pth].rope = {t.id: [] for t in obs[pth].tokens}      # not compared: only the reasons are used
            obs[pth].stray = {}
        results = coq_results(ctx, [obs[pth] for pth in paths])
        reasons = {pth: r[2] for pth, r in zip(paths, results)}
        if not all(r[3] for r in results):
            ctx.count("skipped_outside_C15_fragment:" + stream)
            return
        ntok = sum(len(o.tokens) for o in obs.values())
        unmodelled = None
        if project_model is not None:
            code2, unmodelled = project_model
            ctx.traces += ntok - len(unmodelled)
            ctx.count("multi_tokens_compared_with_project_model", ntok - len(unmodelled))
            if code2 not in (0, 9):
                # the oracle first: a wrong answer is reported with the project as the failing input
                for v in L.judge_project(obs)[0]:
                    if v["kind"] in ("stray", "exception", "rename", "missing"):
                        ctx.violation(dict(extra or {}, kind="project", files=files, focus="unexplained", verdict=v, stream=stream),
                                      "two-module project (" + stream + "): the model and rope disagree and rope's answer is "
                                      "wrong by the oracle (%s, %s token %r, %r)"
                                      % (v["kind"], v["module"], v["query"], (v.get("tokens") or v.get("offsets") or [None])[0]))
                        return
                c2, tok2 = code2 % 100, code2 // 100
                ctx.violation(dict(extra or {}, kind="project", files=files, focus="coq2:%d" % c2, token=tok2, stream=stream,
                                   broken="correspondence of coq/C02/Project.v with rope (%s): "
                                          "C02_project_query_independent no longer speaks about the code"
                                          % CODE_TEXT.get(c2, c2)),
                              "two-module MODEL vs rope: %s (encoded token %d)" % (CODE_TEXT.get(c2, c2), tok2),
                              no_input=True)
                return
        ctx.case(tuple(sorted(files.items())), nontrivial=True)
        ctx.count("modules:" + stream, 2)
        ctx.count("queries", ntok)
        verdicts, keys = L.judge_project(obs)
        cross = sum(1 for o in obs.values() for r in o.rope2.values()
                    if not isinstance(r, str) and len({m for m, _ in r}) > 1)
        ctx.count("multi_queries_with_occurrences_in_both_modules", cross)
        def reason_of(m, i):
            r = reasons[m].get(i, 0)
            k = keys.get((m, i))
            if r == 8 and isinstance(k, tuple) and k[0] in (L.LIBNAME, "module"):
                return 0        # this import resolves: the conflation of UNRESOLVED imports is no excuse
            return r

        def silent(m, i):
            """the model does not speak about the token"""
            # (the tokens kept out of the two-module comparison because of a same-line homonym are still tokens the
            # one-module model speaks about)
            one = reasons[m].get(i) == 10 or i in obs[m].skip
            if unmodelled is not None:
                return one and L.enc(m, i) in unmodelled     # silent only if neither model speaks about it
            return one

        def explain(kind, q, w):
            """as explain_pair, for tokens of two modules: q, w are (module, token id)"""
            (mq, iq), (mw, iw) = q, w
            if kind == "extra" and obs[mw].cat[iw] == "kw" and keys[w] == "U":
                return "kwarg-unresolved-callee"
            for (m, i) in (q, w):
                t = by_tok(obs[m], i)
                k = obs[m].key[i]
                if obs[m].cat[i] == "attr" and k == "U" and t.name in obs[m].info.class_global and kind == "extra":
                    return "global-in-class-body-as-attribute"
                if obs[m].cat[i] == "attr" and isinstance(k, tuple) and k[0] == "var" \
                        and (k[1], t.name) in obs[m].info.hidden_attr:
                    return "instance-attribute-assigned-in-for-or-with"
                pk = keys.get((m, i))
                if obs[m].cat[i] == "attr" and isinstance(pk, tuple) and len(pk) == 3 and pk[0] in obs \
                        and isinstance(pk[1], tuple) and pk[1][0] == "var" \
                        and (pk[1][1], pk[2]) in obs[pk[0]].info.hidden_attr:
                    return "instance-attribute-assigned-in-for-or-with"     # the attribute of a class of the other module
            if same_line_homonym(obs, keys, [q, w]):
                return "imported-name-same-line-homonym"
            for (m, i) in (q, w):
                b = obs[m].info.base_of.get(i)
                if silent(m, i) and b is not None and not silent(m, b) and reason_of(m, b) not in (0, 10):
                    r = reason_of(m, b)
                    if r == 3 and class_env(obs[m], by_tok(obs[m], b)):
                        return "header-class-attribute"
                    return REASON_FOCUS.get(r)
            if not silent(*w) and reason_of(*w) not in (0, 10):
                r = reason_of(*w)
                return "header-class-attribute" if (r == 3 and class_env(obs[w[0]], by_tok(obs[w[0]], w[1]))) \
                    else REASON_FOCUS.get(r)
            if silent(*q):
                return None
            if kind == "missing" and reason_of(*q) not in (0, 10):
                r = reason_of(*q)
                return "header-class-attribute" if (r == 3 and class_env(obs[q[0]], by_tok(obs[q[0]], q[1]))) \
                    else REASON_FOCUS.get(r)
            if silent(*w):
                r = reason_of(*q)
                return REASON_FOCUS.get(r) if (keys[w] == "U" and kind == "extra" and r not in (0, 10)) else None
            inv = [q, w]
            for (m, i) in (q, w):
                b = obs[m].info.base_of.get(i)
                if b is not None:
                    inv.append((m, b))
            rs = sorted({reason_of(m, i) for (m, i) in inv} - {0, 10})
            if not rs:
                return None
            if rs[0] == 3 and any(reason_of(m, i) == 3 and class_env(obs[m], by_tok(obs[m], i)) for (m, i) in inv):
                return "header-class-attribute"
            return REASON_FOCUS.get(rs[0])

        seen = set()
        for v in verdicts:
            if (v["module"], v["query"]) in ignore:
                ctx.violation({"kind": "history", "focus": "answer-depends-on-query-history"}, "known departure: history")
                continue
            pairs = [(None, None)] if v["kind"] in ("stray", "exception", "rename") else \
                [((v["module"], v["query"]), tuple(w)) for w in v["tokens"]]
            for (q, w) in pairs:
                focus = None if q is None else explain(v["kind"], q, w)
                if focus in seen:
                    continue
                seen.add(focus)
                if focus is None:
                    ctx.violation(dict(extra or {}, kind="project", files=files, focus="unexplained", verdict=v, stream=stream),
                                  "two-module project (" + stream + "): rope's occurrences differ from the binding map of the "
                                  "oracle (%s, %s token %r, %r)" % (v["kind"], v["module"], v["query"], w))
                elif focus.startswith("inherited:"):
                    ctx.count(focus)
                else:
                    ctx.violation({"kind": "project" if focus == "imported-name-same-line-homonym" else "module",
                                   "files": files, "src": [v_ for k_, v_ in files.items() if k_.endswith(L.MODNAME)][0], "focus": focus, "stream": stream},
                                  "known departure: " + focus)


def same_line_homonym(obs, keys, involved):
    """one of the tokens is an import of lib.X (or lib's own module-level X) and another is a token of lib spelled X that
    denotes a different binding one of whose binding tokens stands on a line where the module-level X is bound too
    (same_pyname compares definition locations by line)"""
    lib = obs[L.LIBNAME]
    lines = {}
    for t in lib.tokens:
        if t.kind in ("KStore", "KParam", "KDefName", "KClassName", "KExceptName", "KAlias", "KImportName"):
            lines.setdefault(keys[(L.LIBNAME, t.id)], set()).add(t.line)
    ks = {keys[k] for k in involved}
    for k1 in ks:
        if not (isinstance(k1, tuple) and len(k1) == 3 and k1[0] == L.LIBNAME and k1[1] == ("var", ())):
            continue
        for k2 in ks:
            if isinstance(k2, tuple) and len(k2) == 3 and k2[0] == L.LIBNAME and k2[2] == k1[2] and k2 != k1 \
                    and lines.get(k1, set()) & lines.get(k2, set()):
                return True
    return False


def by_tok(o, i):
    for t in o.tokens:
        if t.id == i:
            return t
    return None


def ensure_project_runner():
    """the proof gate builds Props/C02.vo and C02/Runner.vo; the two-module runner is built here when it is missing or
    older than its source"""
    from harness import common
    vo = os.path.join(common.COQ, "C02", "ProjectRunner.vo")
    src = os.path.join(common.COQ, "C02", "ProjectRunner.v")
    deps = [os.path.join(common.COQ, "C02", f) for f in ("Project.v", "Occurrences.v", "Runner.v")] + [src]
    if not os.path.exists(vo) or any(os.path.getmtime(d) > os.path.getmtime(vo) for d in deps):
        rc, out = common.sh([os.path.join(common.COQ, "build.sh"), "C02/ProjectRunner.vo"], timeout=1800)
        if rc != 0:
            raise RuntimeError("cannot build C02/ProjectRunner.vo:\n" + out[-2000:])


def run(ctx):
    ensure_project_runner()
    ctx.rule = ("modules from harness/c02_gen.py (tiny shared identifier pool for variables, parameters, attributes and "
                "keyword arguments; comments / strings / f-strings containing the identifiers), from the foreign "
                "generator harness/c15_gen.py, and fixed modules; for every identifier token of every module "
                "find_occurrences is called and the whole partition is compared with the Coq model and with the "
                "symtable-based oracle. Non-trivial = at least 6 identifier tokens; distinct by source text.")
    n_main = ctx.scale(150, 1500)
    n_plus = ctx.scale(60, 600)
    n_c15 = ctx.scale(50, 500)
    fixed = list(FIXED) + [c02_witness.EXAMPLE] + [s for (s, _t) in c02_witness.WITNESSES.values()]
    check_modules(ctx, fixed, "fixed")
    rng = ctx.rng

    def batch(gen, n, stream, size=120):
        done = 0
        while done < n and not ctx.too_many():
            srcs = []
            for _ in range(min(size, n - done)):
                s = gen()
                if s:
                    srcs.append(s)
            done += size
            check_modules(ctx, srcs, stream)

    batch(lambda: c02_gen.gen_module(rng, ()), n_main, "main")

    def plus():
        k = 1 if rng.random() < 0.7 else 2
        return c02_gen.gen_module(rng, tuple(rng.sample(c02_gen.FEATURES, k)))

    batch(plus, n_plus, "plus")
    def foreign():
        for _ in range(6):
            src = c15_gen.gen_module(rng, ())
            try:
                if src and not imports_resolvable(ast.parse(src)):
                    return src
            except SyntaxError:
                pass
        return None

    batch(foreign, n_c15, "c15")
    if not ctx.too_many():
        check_projects(ctx, ctx.scale(25, 200))
    if not ctx.too_many():
        check_sequences(ctx, ctx.scale(12, 100))
    ctx.extra["streams"] = {"main": n_main, "plus": n_plus, "c15": n_c15, "fixed": len(fixed)}
    ctx.assumptions.append("imports never resolve (one-module scratch project); keyword arguments and attributes are "
                           "compared with the model only where no type inference is involved")
