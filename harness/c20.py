"""C20 — completion and definition lookup are sound at every cursor position.

For every generated module (harness/c20_gen.py: harness/c15_gen with respelled identifiers), in a worker process:
  * rope is asked at EVERY offset of the module: Worder.get_splitted_primary_before, code_assist with
    later_locals True and False, fixsyntax._logical_start for every line, get_definition_location at every
    plain name token;
  * the independent oracle (harness/c20_oracle.py: CPython symtable + ast + keyword + builtins) judges every
    answer: each proposal extends the typed prefix and is visible (or a keyword); each visible name with the
    prefix is proposed; the definition line is a line where the binding is written.  Deviations explained by
    an open C15 finding are counted as inherited, the C20-specific ones carry a structural signature;
  * the module, the observations and the CPython view go into a Coq case (coq/C20/Runner.v) where the MODEL
    (coq/C20/Split.v, Complete.v on coq/C15/RopeScopes.v) is compared with rope, the SPEC with CPython and -
    inside the theorems' domain - the model with the spec;
  * the exhaustive part (harness/c20_sweep.py): every offset and every truncation of the cursor's line, maxfixes
    0/1/3, both later_locals values, the five entry points, resource=None: no internal error.
Streams: "main" (inside C15's fragment by construction), "plus" (one or two PyF+ productions switched on),
"scenario" (harness/c20_gen.gen_scenario: names imported from a module that exists in the project, dedented
continuation lines inside methods, comparisons as call arguments of a callee with a like-named parameter, blanks and
line breaks after the dot of an attribute access on a statically known receiver).
"""
import ast
import json
import keyword
import multiprocessing
import os
import re
import traceback
import warnings

from harness import c15, c15_gen, c20_gen, c20_oracle, c20_sweep
from harness.common import g_list, g_text, g_N, g_bool

PROPERTY = "C20"
warnings.filterwarnings("ignore", category=SyntaxWarning)

SCOPE_CODE = {"local": 1, "global": 2, "builtin": 3, "imported": 4, "keyword": 5}
PY_BUILTINS = c20_oracle.PY_BUILTINS

HEADER = ("From Coq Require Import List NArith Bool.\nImport ListNotations.\n"
          "From RopeVerif.C15 Require Import Syntax Scoping RopeScopes Fragment.\n"
          "From RopeVerif.C20 Require Import Split Complete Runner.\n")

CODE_TEXT = {
    1: "MODEL vs rope: get_splitted_primary_before differs at some offset",
    2: "MODEL vs rope: logical start of a line differs",
    3: "MODEL vs rope: proposals differ (later_locals=True)",
    4: "MODEL vs rope: proposals differ (later_locals=False)",
    5: "MODEL vs rope: definition line differs",
    6: "MODEL vs rope: an undotted position of rope is not one of the model",
    7: "MODEL vs rope: attribute proposals differ (receiver the model knows to be a class)",
    9: "outside the model's domain (cyclic superclasses)",
    11: "SPEC vs CPython: visible names of a scope differ",
    21: "inside the theorems' domain but the model's proposals and the SPEC's visible names differ",
}

# C20's own findings that the oracle / the correspondence recognise structurally (signature -> see findings.d)
OWN_CAUSES = ("C20:definition-line-unknown", "C20:definition-line-of-value", "C20:later-import-kept")


# ============================================================================ rope on one (valid) module
def _props(ps):
    return {(p.name, p.scope) for p in ps}


def observe_rope(src):
    """everything rope says about the cursor positions of src (resource-backed string module, so that relative
    imports have a folder).  Exceptions are kept as ('EXC', signature, entry)."""
    from rope.base import worder
    from rope.contrib import codeassist, fixsyntax
    pr = c15.project()
    res = c15._resource
    w = worder.Worder(src, True)
    n = len(src)
    out = {"splits": [], "T": [], "F": [], "lstarts": [], "exc": []}

    def guarded(entry, o, f):
        try:
            with c20_sweep.time_limit():
                return f()
        except Exception as e:  # noqa: BLE001
            if not os.path.isfile(os.path.join(c15._project_dir, "d1", "d2", "d3", "mod.py")):
                raise c20_sweep.ScratchGone(c15._project_dir)
            sig = c20_sweep.signature_of(entry, e, e.__traceback__, src, o)
            out["exc"].append({"kind": "sweep", "entry": entry, "text": src, "offset": o, "maxfixes": 1,
                               "truncated": False, "with_resource": True, "focus": sig,
                               "exception": type(e).__name__,
                               "traceback": "".join(traceback.format_exception(e))[-1500:]})
            return ("EXC", sig)

    for o in range(n + 1):
        out["splits"].append(guarded("starting_offset", o, lambda: w.get_splitted_primary_before(o)))
        out["T"].append(guarded("code_assist", o, lambda: _props(
            codeassist.code_assist(pr, src, o, resource=res, maxfixes=1, later_locals=True))))
        out["F"].append(guarded("code_assist_nolater", o, lambda: _props(
            codeassist.code_assist(pr, src, o, resource=res, maxfixes=1, later_locals=False))))
    lines = src.split("\n")
    for l in range(1, len(lines) + 1):
        out["lstarts"].append(fixsyntax._logical_start(lines, l))
    return out


def name_tokens(tree, src):
    """(offset, ast.Name) of every Name node (ASCII sources: columns are characters)"""
    starts = [0]
    for line in src.split("\n"):
        starts.append(starts[-1] + len(line) + 1)
    out = []
    for n in ast.walk(tree):
        if isinstance(n, ast.Name):
            out.append((starts[n.lineno - 1] + n.col_offset, n))
    out.sort(key=lambda t: t[0])
    return out


def observe_definitions(src, tree):
    """get_definition_location and findit.find_definition at every Name token: (offset, node, line, same module,
    exception record, find_definition answer = None | (lineno, text at its region, resource is ours))"""
    from rope.contrib import codeassist, findit
    pr = c15.project()
    res = c15._resource
    out = []
    for (o, node) in name_tokens(tree, src):
        entry = "get_definition_location"
        try:
            with c20_sweep.time_limit():
                r, line = codeassist.get_definition_location(pr, src, o, resource=res, maxfixes=1)
            same = r is None or r == res
            entry = "find_definition"
            with c20_sweep.time_limit():
                loc = findit.find_definition(pr, src, o, resource=res, maxfixes=1)
            fd = None
            if loc is not None:
                ours = loc.resource is None or loc.resource == res
                fd = (loc.lineno, src[loc.region[0]:loc.region[1]] if ours else None, ours)
            out.append((o, node, line, same, None, fd))
        except Exception as e:  # noqa: BLE001
            if not os.path.isfile(os.path.join(c15._project_dir, "d1", "d2", "d3", "mod.py")):
                raise c20_sweep.ScratchGone(c15._project_dir)
            sig = c20_sweep.signature_of(entry, e, e.__traceback__, src, o)
            out.append((o, node, None, True, {"kind": "sweep", "entry": entry, "text": src,
                                              "offset": o, "maxfixes": 1, "truncated": False,
                                              "with_resource": True, "focus": sig,
                                              "exception": type(e).__name__,
                                              "traceback": "".join(traceback.format_exception(e))[-1500:]}, None))
    return out


# ============================================================================ one module, in a worker
def in_header(facts, node):
    """the Name lies in a decorator, default, annotation, base class or keyword of a def / class statement"""
    n = node
    while n in facts.parent:
        p = facts.parent[n]
        if isinstance(p, (ast.FunctionDef, ast.AsyncFunctionDef, ast.ClassDef)):
            return not any(n is b for b in p.body)
        if isinstance(p, (ast.arguments, ast.arg)):
            return True
        if isinstance(p, ast.Lambda):
            return True
        if isinstance(p, ast.stmt):
            return False
        n = p
    return False


def c02_position(facts, node, src, o):
    """the Name token is in a position where eval_location is known to resolve in the wrong scope or to take the
    name for a keyword argument (open C02 findings); such tokens are counted, not judged"""
    if in_header(facts, node):
        return "C02:header-expression"
    n = node
    while n in facts.parent:
        p = facts.parent[n]
        if isinstance(p, ast.comprehension) and p.iter is n:
            comp = facts.parent[p]
            if comp.generators[0] is p:
                return "C02:comprehension-first-iterable"
        if isinstance(p, ast.stmt):
            break
        n = p
    # looks like a keyword argument: preceded by , or ( and followed by = (not ==)
    end = o + len(node.id)
    after = src[end:end + 40].lstrip(" \t")
    before = src[max(0, o - 40):o].rstrip(" \t")
    if after.startswith("=") and not after.startswith("==") and before[-1:] in (",", "("):
        return "C02:tuple-target-as-keyword"
    return None


def region_scope_path(facts, node, rope_by_key):
    """path (in rope's tree) of the innermost scope node whose source region contains the Name, or None"""
    n = node
    while n in facts.parent:
        n = facts.parent[n]
        if isinstance(n, c15.SCOPE_NODES) or isinstance(n, ast.Module):
            if isinstance(n, ast.Lambda):
                return None
            r = rope_by_key.get(c15.node_key(n))
            return None if r is None or r.dup else r.path
    return None


def value_on_statement_line(tree):
    """the model takes the line of a statement for the line of the assigned value / iterable / context"""
    for n in ast.walk(tree):
        if isinstance(n, ast.Assign) and n.value.lineno != n.lineno:
            return False
        if isinstance(n, ast.AnnAssign) and n.value is not None and n.value.lineno != n.lineno:
            return False
        if isinstance(n, (ast.For, ast.AsyncFor)) and n.iter.lineno != n.lineno:
            return False
        if isinstance(n, (ast.With, ast.AsyncWith)) and any(i.context_expr.lineno != n.lineno for i in n.items):
            return False
        if isinstance(n, ast.ExceptHandler) and n.type is not None:
            t = n.type.elts[0] if isinstance(n.type, ast.Tuple) and n.type.elts else n.type
            if t.lineno != n.lineno:
                return False
        if isinstance(n, c15.COMP_NODES) and n.lineno != n.end_lineno:
            return False
        if isinstance(n, ast.Attribute) and isinstance(n.ctx, ast.Store) and n.lineno != n.end_lineno:
            return False
    return True


NAME_BEFORE = tuple("([{,=+-*/%<>:&|^~@!")


def truncation_expectation(orc, src):
    """completeness oracle for the sweep: on a truncated line that stands for a whole simple statement (or is still
    valid), at a position where a name can be typed, every name visible from the statement's scope whose spelling
    extends the typed prefix is offered - the names bound by the statement itself aside (the repair comments it out)"""
    bound_cache = {}

    def bound_on(ls):
        if ls not in bound_cache:
            out = set()
            st = orc._stmt_at.get(ls)
            if st is not None:
                for n in orc._own_expr_nodes(st):
                    if isinstance(n, ast.Name) and isinstance(n.ctx, (ast.Store, ast.Del)):
                        out.add(n.id)
                    elif isinstance(n, ast.alias):
                        out.add(n.asname or n.name.split(".")[0])
                    elif isinstance(n, (ast.FunctionDef, ast.AsyncFunctionDef, ast.ClassDef)):
                        out.add(n.name)
                    elif isinstance(n, (ast.Global, ast.Nonlocal)):
                        out.update(n.names)
            bound_cache[ls] = out
        return bound_cache[ls]

    def expect(text, offset, got):
        ls0 = text.rfind("\n", 0, offset) + 1
        before = text[ls0:offset]
        if any(ch in before for ch in "'\"#\\") or before.strip() == "":
            return None                      # strings / comments; a blank line takes the scope of what follows
        prefix = c20_oracle.ID_RE.search(before).group()
        head = before[:len(before) - len(prefix)].rstrip(" \t")
        if prefix[:1].isdigit() or head.endswith(".") or re.search(r"(^|\s)(from|import|global|nonlocal|def|class|as)(\s|$)", head):
            return None
        if head:
            word = c20_oracle.ID_RE.search(head).group()
            if not (head.endswith(NAME_BEFORE) or (word and keyword.iskeyword(word) and word not in ("None", "True", "False"))):
                return None
        line = text.count("\n", 0, offset) + 1
        ls = orc.logical_start(line)
        if ls is None or ls != line:
            return None                      # continuation and blank lines: the scope of the repaired text may differ
        names = {p.name for p in got if p.scope not in ("keyword", "parameter_keyword")}
        skip = bound_on(ls)
        best = None
        for c in orc.candidates(line):
            missing = [x for x in sorted(orc.visible_set(c, prefix) - skip - names) if orc.attributed(x, c) is None]
            if best is None or len(missing) < len(best):
                best = missing
        if best:
            return "truncated-line:visible-name-missing"
        return None

    return expect


def ensure_helper_module():
    """the scenario stream imports from a module that exists in the scratch project (at its root)"""
    c15.project()
    path = os.path.join(c15._project_dir, c20_gen.HELPER_MODULE + ".py")
    if not os.path.exists(path):
        with open(path, "w") as f:
            f.write(c20_gen.HELPER_SOURCE)


HELPERS = {c20_gen.HELPER_MODULE: c20_gen.HELPER_SOURCE}


def check_module(args):
    """worker: (index, src, stream, do_sweep, sweep_full) -> result dict (picklable).  Started again when the scratch
    project directory was removed from outside while the module was being observed."""
    for attempt in range(3):
        res = _check_module(args)
        if "ScratchGone" not in (res.get("crash") or "") or attempt == 2:
            return res
    return res


def _check_module(args):
    idx, src, stream, do_sweep, sweep_full = args
    res = {"idx": idx, "src": src, "stream": stream, "counts": {}, "problems": [], "inherited": {},
           "exceptions": [], "case": None, "sweep": None, "model_domain": False, "note": None}
    cnt = res["counts"]

    def count(k, n=1):
        cnt[k] = cnt.get(k, 0) + n

    try:
        ensure_helper_module()
        try:
            o15 = c15.observe(src)
        except Exception as e:  # noqa: BLE001 - C15's own open finding (superclass inference crash) or worse
            res["note"] = "c15.observe raised %r" % (e,)
            o15 = None
        expect = None
        if o15 is not None:
            orc = _check_observed(src, o15, res, count)
            if not orc.scope_causes and not orc.star_names:
                expect = truncation_expectation(orc, src)
        if do_sweep:
            st, found = c20_sweep.sweep_module(src, full=sweep_full, expect=expect)
            res["sweep"] = (st, found)
    except Exception:  # noqa: BLE001
        res["crash"] = traceback.format_exc()
    finally:
        c15.close_project()
    return res


def _check_observed(src, o15, res, count):
    tr = o15.tr
    orc = c20_oracle.Oracle(src, o15, HELPERS)
    rp = observe_rope(src)
    res["exceptions"].extend(rp["exc"])
    defs = observe_definitions(src, tr.tree)
    n = len(src)
    inherited = res["inherited"]

    def inherit(cause, k=1):
        inherited[cause] = inherited.get(cause, 0) + k

    # ---- oracle over every offset
    items = {}
    ditems = {}
    vline = value_on_statement_line(tr.tree)
    for o in range(n + 1):
        pos = orc.position(o)
        sp = rp["splits"][o]
        pt, pf = rp["T"][o], rp["F"][o]
        count("offsets")
        if isinstance(sp, tuple) and sp and sp[0] == "EXC":
            continue
        # starting_offset: the text between it and the cursor is what is replaced
        expr, starting, so = sp
        if not (0 <= so <= o and src[so:o] == starting):
            res["problems"].append({"focus": "starting-offset", "offset": o, "detail": repr(sp)})
        for ll, got in ((True, pt), (False, pf)):
            if isinstance(got, tuple):
                continue
            for (nm, sc) in got:
                base = nm[:-1] if sc == "parameter_keyword" else nm
                if not base.startswith(starting):
                    res["problems"].append({"focus": "proposal-does-not-extend-starting", "offset": o,
                                            "later_locals": ll, "detail": nm})
        for ll, got in ((True, pt), (False, pf)):
            if isinstance(got, set) and any(sc == "parameter_keyword" for (_n, sc) in got) and not pos.in_ignored:
                count("offsets:with-name=-proposals")
                params = orc.call_params(o)
                if params is not None:
                    for (nm, sc) in got:
                        if sc == "parameter_keyword" and nm[:-1] not in params:
                            res["problems"].append({"focus": "parameter-keyword-not-a-parameter", "offset": o,
                                                    "later_locals": ll, "detail": nm})
        if pos.in_ignored:
            count("offsets:in-string-or-comment")
        if not pos.dotted and not pos.in_ignored:
            for ll, got in ((True, pt), (False, pf)):
                if isinstance(got, set) and any(sc == "attribute" for (_n, sc) in got):
                    res["problems"].append({"focus": "attribute-proposal-without-dot", "offset": o,
                                            "later_locals": ll, "detail": repr(sp)})
        if pos.dotted and not pos.in_ignored and not pos.from_import:
            # something is dotted: keywords are never attributes
            for ll, got in ((True, pt), (False, pf)):
                if isinstance(got, set) and any(sc == "keyword" for (_n, sc) in got):
                    res["problems"].append({"focus": "keyword-proposal-after-dot", "offset": o,
                                            "later_locals": ll, "detail": repr(sp)})
        if pos.dotted and not pos.in_ignored and not pos.from_import and pos.receiver is not None:
            for ll, got in ((True, pt), (False, pf)):
                if isinstance(got, set):
                    probs = orc.judge_dotted(pos, got)
                    if probs is not None:
                        count("offsets:dotted-with-static-receiver")
                        for pb in probs:
                            res["problems"].append({"focus": "dotted:" + pb[0], "offset": o, "later_locals": ll,
                                                    "detail": repr(pb[1:])})
        if pos.from_import and not pos.in_ignored:
            # the list of names of a single-line from-import: names of the module (the helper module exists)
            before = src[src.rfind("\n", 0, o) + 1:o]
            for ll, got in ((True, pt), (False, pf)):
                if isinstance(got, set):
                    sig = c20_sweep.from_import_oracle(before, got)
                    if sig is not None:
                        count("offsets:from-import-names")
                    if sig:
                        res["problems"].append({"focus": sig, "offset": o, "later_locals": ll,
                                                "detail": repr(sorted(got)[:6])})
        if pos.dotted or pos.from_import or pos.in_ignored or not pos.name_position:
            count("offsets:oracle-prefix-only")
            cls = "dotted" if pos.dotted else ("from-import" if pos.from_import else (
                "ignored" if pos.in_ignored else "not-a-name-position"))
            count("offsets:" + cls)
        else:
            count("offsets:undotted")
            rope_undotted = expr.strip() == ""
            if not rope_undotted or starting != pos.prefix:
                # rope sees a dotted expression where the text has none (or another prefix)
                res["problems"].append({"focus": "split", "offset": o, "detail": repr(sp), "want": pos.prefix})
            else:
                for ll, got in ((True, pt), (False, pf)):
                    if isinstance(got, tuple):
                        continue
                    probs, inh, cand = orc.judge_undotted(pos, got, ll, pt if isinstance(pt, set) else None)
                    for (what, x, cause) in inh:
                        inherit(cause)
                    for pb in probs:
                        res["problems"].append({"focus": "proposals:" + pb[0], "offset": o, "later_locals": ll,
                                                "detail": repr(pb[1:]), "scope": list(cand.key)})
        # dotted items for the Coq case: the receiver is a plain name (the model decides whether it is a class)
        if isinstance(pt, set) and expr.isidentifier() and not keyword.iskeyword(expr) and not pos.from_import \
                and not pos.in_ignored:
            ditems.setdefault((src.count("\n", 0, so) + 1, expr, starting, frozenset(pt)), o)
        # items for the Coq case: undotted (as rope sees it), not a from-import line
        if isinstance(pt, set) and isinstance(pf, set) and expr.strip() == "" and not pos.from_import:
            line = src.count("\n", 0, so) + 1
            for ll, got in ((True, pt), (False, pf)):
                if ll or vline:          # the model's definition lines are statement lines
                    key = (line, starting, ll, frozenset(got))
                    items.setdefault(key, o)

    # ---- definition lines
    rope_by_key = {}
    for r in o15.rope_scopes:
        r.dup = r.key in rope_by_key
        rope_by_key.setdefault(r.key, r)
    gdefs = []
    for (o, node, line, same, exc, fd) in defs:
        count("definition-lookups")
        if exc is not None:
            res["exceptions"].append(exc)
            continue
        c02 = c02_position(orc.facts, node, src, o)
        if c02:
            inherit(c02)
            continue
        pb, cause = orc.judge_definition(node, line, same)
        if cause:
            inherit(cause)
        if pb:
            res["problems"].append({"focus": "definition-line", "offset": o, "detail": repr(pb)})
        # findit.find_definition = the first occurrence of the name at or after its definition line; judged where
        # the definition line itself is right
        if pb is None and cause is None:
            bad = None
            if line is None:
                bad = fd is not None and "a location although the definition line is unknown"
            elif fd is None:
                if same and orc.defined_by_statement_name(node, line):
                    inherit("C02:class-name-own-attribute")      # the name in its own def / class header
                elif same:
                    bad = "no location although the definition line is %d" % line
            elif same and (not fd[2] or fd[1] != node.id):
                bad = "the location is not an occurrence of the name"
            elif fd[0] < line:
                bad = "line %d, before the definition line %d" % (fd[0], line)
            elif fd[0] > line and same:
                inherit("C02:occurrence-on-definition-line-unmatched")
            if bad:
                res["problems"].append({"focus": "find-definition", "offset": o, "detail": "%s: %s" % (node.id, bad)})
        if same and vline:
            path = region_scope_path(orc.facts, node, rope_by_key)
            if path is not None:
                gdefs.append((path, node.id, line))

    # ---- the Coq case
    model_ok = not (o15.unknown_owner or not c15.simple_bases(o15))
    res["model_domain"] = model_ok
    if not src.isascii() or orc.star_names:
        model_ok = False                 # names brought by a star import that resolves are not in the model's tables
    if model_ok:
        res["case"] = case_term(src, o15, rp, items, gdefs, ditems)
        res["n_ditems"] = len(ditems)
        res["n_items"] = len(items)
        res["n_defs"] = len(gdefs)
    return orc


# ============================================================================ Gallina case
def case_term(src, o15, rp, items, gdefs, ditems=None):
    from rope.base import simplify
    tr = o15.tr
    universe = list(o15.idents)
    for x in sorted(PY_BUILTINS):
        if x not in universe:
            universe.append(x)
    for k in keyword.kwlist:
        if k not in universe:
            universe.append(k)
    for x in universe:
        tr.intern(x)
    known = set(tr.idents)
    code = simplify.real_code(src)
    regions = [(a, b) for (a, b, _g) in simplify.ignored_regions(src)]
    splits = []
    for sp in rp["splits"]:
        if isinstance(sp, tuple) and sp and sp[0] == "EXC":
            splits.append("None")
        else:
            splits.append("(Some (%s, %s, %s))" % (g_text(sp[0]), g_text(sp[1]), g_N(sp[2])))
    g_items = []
    for (line, starting, ll, got), o in sorted(items.items(), key=lambda kv: (kv[1], not kv[0][2])):
        obs = []
        for (nm, sc) in sorted(got, key=lambda e: (tr.intern(e[0]) if e[0] in known else -1, e[1])):
            if sc in SCOPE_CODE and nm in known:
                obs.append("(%s, %s)" % (tr.g_ident(nm), g_N(SCOPE_CODE[sc])))
        g_items.append("(%s, %s, %s)" % (g_N(o), g_bool(ll), g_list(obs)))
    g_defs = ["(%s, %s, %s)" % (c15.g_path(p), tr.g_ident(x), "None" if l is None else "(Some %s)" % g_N(l))
              for (p, x, l) in gdefs]
    pyvis = []
    if not any(v == "?" for p in o15.py_scopes for v in p.resolve.values()):
        for p in o15.py_scopes:
            pyvis.append("(%s, %s)" % (c15.g_path(p.path), tr.g_idents(
                [x for x in o15.idents if p.resolve[x] is not None])))
    g_ditems = []
    for (_line, _e, _st, got), o in sorted((ditems or {}).items(), key=lambda kv: kv[1]):
        obs = []
        for (nm, sc) in sorted(got, key=lambda e: (tr.intern(e[0]) if e[0] in known else -1, e[1])):
            if nm in known and sc in ("attribute", "imported"):
                obs.append("(%s, %s)" % (tr.g_ident(nm), g_N(6 if sc == "attribute" else 4)))
        g_ditems.append("(%s, %s)" % (g_N(o), g_list(obs)))
    spell = g_list([g_text(s) for s in tr.idents])
    return ("{| c_prog := %s;\n c_layout := %s;\n c_builtins := %s;\n c_idents := %s;\n c_spell := %s;\n c_kws := %s;\n"
            " c_code := %s;\n c_raw := %s;\n c_regions := %s;\n c_splits := %s;\n c_lstarts := %s;\n c_items := %s;\n"
            " c_defs := %s;\n c_py_visible := %s;\n c_ditems := %s |}" % (
                tr.prog, tr.layout, tr.g_idents([x for x in tr.idents if x in PY_BUILTINS]),
                tr.g_idents(o15.idents), spell, g_list([g_text(k) for k in keyword.kwlist]),
                g_text(code), g_text(src), g_list(["(%s, %s)" % (g_N(a), g_N(b)) for a, b in regions]),
                g_list(splits), g_list([g_N(s) for s in rp["lstarts"]]), g_list(g_items), g_list(g_defs),
                g_list(pyvis), g_list(g_ditems)))


def coq_codes(ctx, terms):
    """run the cases through coq/C20/Runner.v; returns ({index: code}, [in-domain flags])"""
    bodies = []
    shard = 4
    for s in range(0, len(terms), shard):
        bodies.append(HEADER + "Definition cases : list case := [\n%s\n].\nEval vm_compute in (mismatches cases).\n"
                      "Eval vm_compute in (in_domain cases).\nEval vm_compute in (dotted_covered cases).\n"
                      % ";\n".join(terms[s:s + shard]))
    outs = ctx.coq_files_parallel(bodies, jobs=8) if bodies else []
    codes, dom = {}, []
    for si, out in enumerate(outs):
        pairs = ctx.parse_pairs(out)
        for (i, code) in (pairs[0] if pairs else []):
            codes[si * shard + i] = code
        nums = ctx.parse_nums(out)
        dom.extend(nums[-2] if len(nums) >= 2 else [])
        ctx.extra["dotted_items_compared_with_the_model"] = ctx.extra.get(
            "dotted_items_compared_with_the_model", 0) + (sum(nums[-1]) if nums else 0)
    return codes, dom


# ============================================================================ signature / replay
def signature(obj):
    if obj.get("kind") in ("sweep", "module", "corpus", "session"):
        return obj.get("focus")
    return None


def replay(ctx, obj):
    """True = the recorded failure still occurs on the current tree"""
    kind = obj.get("kind")
    if kind == "session":
        return run_session(obj) is not None
    if kind == "sweep":
        if obj.get("with_resource"):
            return _replay_with_resource(obj)
        return c20_sweep.replay_one(obj) is not None
    if kind == "module":
        r = check_module((0, obj["src"], "replay", False, False))
        focus = obj.get("focus") or ""
        if r.get("crash"):
            return True
        if focus.startswith("coq:"):
            if r["case"] is None:
                return False
            codes, _dom = coq_codes(ctx, [r["case"]])
            return codes.get(0, 0) not in (0, 9)
        if focus.startswith("inherited:"):
            return r["inherited"].get(focus[len("inherited:"):], 0) > 0
        if focus.startswith("exc:"):
            return any(e["focus"] == focus for e in r["exceptions"])
        if focus:
            return any(p["focus"] == focus for p in r["problems"])
        # no focus (regression inputs of fixed defects): anything the run would report
        if r["problems"] or r["exceptions"]:
            return True
        if r["case"] is not None:
            codes, _dom = coq_codes(ctx, [r["case"]])
            return codes.get(0, 0) not in (0, 9)
        return False
    return True


def _replay_with_resource(obj):
    from rope.contrib import codeassist
    try:
        pr = c15.project()
        res = c15._resource
        e = obj["entry"]
        try:
            with c20_sweep.time_limit():
                if e.startswith("code_assist"):
                    codeassist.code_assist(pr, obj["text"], obj["offset"], resource=res,
                                           maxfixes=obj.get("maxfixes", 1), later_locals=(e == "code_assist"))
                elif e == "get_definition_location":
                    codeassist.get_definition_location(pr, obj["text"], obj["offset"], resource=res)
                elif e == "find_definition":
                    from rope.contrib import findit
                    findit.find_definition(pr, obj["text"], obj["offset"], resource=res)
                else:
                    codeassist.starting_offset(obj["text"], obj["offset"])
        except Exception as ex:  # noqa: BLE001
            valid = c20_sweep.is_valid(obj["text"])
            ids = c20_sweep.identifier_offsets(obj["text"]) if valid else set()
            return c20_sweep.judge(obj["entry"], ex, valid, obj["offset"] in ids) is not None
        return False
    finally:
        c15.close_project()


# ============================================================================ run
FIXED = [
    # every binding form; later locals; a class body; nested functions; a comprehension line
    ("import os\nalpha = 1\ndef fo(al, be=2):\n    alp = al\n    \n    zz = 1\n    for it, (ja, jb) in al:\n        with al as wa:\n"
     "            pass\n    try:\n        pass\n    except Exception as ex:\n        pass\n    def inner():\n        return alp + zz\n"
     "    res = [qa for qa in alp if qa]\n    return res\nclass Kl:\n    ka = 1\n    def me(self):\n        self.kb = 2\n        return fo\nalpha.real\n"),
    "xa = 1\nxab = 2\ndef fo():\n    global xa\n    xa = 3\n    xab = xa\n    return xab\nfo(xa)\n",
    "al = 1\nbe = al.real \nbe = (al, be) \n",
    "def fo(al):\n    (wa := al)\n    an: int\n    an = wa\n    return wa, an\n",
    "fo = (\n    1)\nfor al in (\n        fo):\n    pass\nprint(fo, al)\n",
    "sa = ''\nisa = sa.isa\nprint(sa.isa, isa)\n",
    # the dot of a float literal followed by a keyword is no attribute access (repo commit 06a46a8)
    "xa = 1 if 3. else 2\nal = (xa) if 3.  in [xa] else 4.\nisa = al.real if 2. is xa else xa\n",
    # keyword-argument proposals for a callee that is statically known
    "def go(al, alp=0, *va, **kw):\n    return al\nres = go(1, alp=2)\nres = go(al=3)\n",
    # a try statement that runs to the end of the file (the repair path patches a dangling try:)
    "al = 1\ndef fo():\n    try:\n        be = al\n    except Exception:\n        be = 2\n    return be\ntry:\n    xa = fo()\nfinally:\n    xa = 0\n",
]


def run(ctx):
    ctx.rule = ("modules from harness/c15_gen (every binding construct, nesting, layout noise; identifiers respelled "
                "so that they are prefixes of each other / of builtins / of keywords); stream main = no PyF+ production, "
                "plus = one or two productions for known departures; a case = one (module, offset, later_locals) "
                "query of code_assist, one definition lookup, or one swept call; non-trivial = an undotted position on "
                "a code line whose typed prefix is non-empty or whose holding scope is not the module; distinct by "
                "(module text, offset, later_locals)")
    n_main = ctx.scale(10, 100)
    n_plus = ctx.scale(4, 40)
    size = ctx.scale(7, 10)
    sweep_all = ctx.scale(10, 60)        # generated main modules that get the exhaustive sweep (+ the fixed ones)
    sources = [(s, "fixed") for s in FIXED]
    for _ in range(n_main):
        s = c20_gen.gen_source(ctx.rng, (), size)
        if s:
            sources.append((s, "main"))
    for _ in range(n_plus):
        feats = tuple(ctx.rng.sample(c15_gen.FEATURES, ctx.rng.randint(1, 2)))
        s = c20_gen.gen_source(ctx.rng, feats, size)
        if s:
            sources.append((s, "plus"))
    for i in range(ctx.scale(5, 40)):
        s, star = c20_gen.gen_scenario(ctx.rng, star=(i % 3 == 2))
        if s:
            sources.append((s, "scenario-star" if star else "scenario"))
    tasks = []
    swept = 0
    for i, (s, stream) in enumerate(sources):
        do_sweep = stream == "fixed" or (stream == "main" and swept < sweep_all) or (
            stream.startswith("scenario") and i % 2 == 0)
        swept += 1 if (do_sweep and stream == "main") else 0
        tasks.append((i, s, stream, do_sweep, True))
    c15.close_project()
    jobs = int(os.environ.get("VERIF_JOBS", "8"))
    with multiprocessing.Pool(jobs) as pool:
        results = pool.map(check_module, tasks, chunksize=1)
    report(ctx, results)
    run_sessions(ctx)


def report(ctx, results):
    terms, owners = [], []
    for r in results:
        stream = r["stream"]
        ctx.count("modules:" + stream)
        if r.get("crash"):
            ctx.violation({"kind": "harness-crash", "traceback": r["crash"][-3000:], "src": r["src"],
                           "broken": "correspondence run of C20 could not be completed"},
                          "C20 worker crashed", no_input=True)
            continue
        if r.get("note"):
            ctx.count("modules:not-observable(C15 finding)")
        for k, v in r["counts"].items():
            ctx.count(k, v)
        for cause, k in r["inherited"].items():
            ctx.count("inherited:" + cause, k)
            if cause.startswith("C20:"):
                # an own finding met on a generated module: goes through the known-finding channel
                ctx.violation({"kind": "module", "src": r["src"], "focus": "inherited:" + cause},
                              "C20: %s" % cause)
        nt = r["counts"].get("offsets:undotted", 0)
        src = r["src"]
        ctx.evaluations += 2 * r["counts"].get("offsets", 0) + r["counts"].get("definition-lookups", 0)
        for o in range(nt):
            ctx.nontrivial.add(hash((src, o)))
        ctx.traces += r["counts"].get("offsets", 0)
        for p in r["problems"][:3]:
            ctx.violation({"kind": "module", "src": src, "focus": p["focus"], "offset": p.get("offset"),
                           "later_locals": p.get("later_locals"), "detail": p.get("detail")},
                          "C20 oracle: %s at offset %s of a %s module: %s" % (
                              p["focus"], p.get("offset"), stream, str(p.get("detail"))[:160]))
        seen = set()
        for e in r["exceptions"]:
            ctx.count("valid-module-exception:" + e["focus"])
            if e["focus"] in seen:
                continue
            seen.add(e["focus"])
            ctx.violation(e, "C20: %s raised %s (%s) on a valid module at offset %d" % (
                e["entry"], e["exception"], e["focus"], e["offset"]))
        if r["sweep"] is not None:
            st, found = r["sweep"]
            for k, v in st.items():
                ctx.count("sweep:" + k, v)
            ctx.evaluations += st.get("calls", 0)
            for sig, rec in found.items():
                ctx.violation(rec, "C20 sweep: %s (%s) in %s at offset %d, maxfixes=%d%s" % (
                    rec["why"], sig, rec["entry"], rec["offset"], rec["maxfixes"],
                    ", truncated line" if rec["truncated"] else ""))
        if r["case"] is not None:
            terms.append(r["case"])
            owners.append(r)
            ctx.count("modules:in-model-domain")
        else:
            ctx.count("modules:outside-model-domain")
        if ctx.too_many(60):
            break
    codes, dom = coq_codes(ctx, terms)
    ctx.extra["modules_in_theorem_domain"] = int(sum(dom))
    ctx.extra["coq_cases"] = len(terms)
    for i, r in enumerate(owners):
        code = codes.get(i, 0)
        if code == 9:
            ctx.count("coq:outside-model(cyclic superclasses)")
            continue
        if code == 0:
            ctx.count("coq:agree")
            continue
        ctx.count("coq:code-%d" % code)
        what = CODE_TEXT.get(code, "code %d" % code)
        had_input = bool(r["problems"])
        ctx.violation({"kind": "module", "src": r["src"], "focus": "coq:%d" % code, "mismatch": what,
                       "broken": "correspondence RopeVerif.C20.Runner.run_case (model coq/C20/Split.v + Complete.v vs "
                                 "rope/contrib/codeassist.py, rope/base/worder.py); the C20 theorems no longer speak "
                                 "about the code"},
                      "C20: %s (%s module)" % (what, r["stream"]), no_input=not had_input)
    for r in results[:2]:
        ctx.sample({"stream": r["stream"], "src": r["src"][:400], "counts": r["counts"]})


# ============================================================================ witnesses for coq/C20/Witnesses.v
WITNESSES = [
    ("demo", "a global declared in a function, a later local, nested scopes",
     "xa = 1\nxab = 2\ndef fo(al):\n    global xa\n    xa = al\n    xab = xa\n    return xab\nfo(xa)\n"),
    ("later_import", "later_locals=False keeps an import written after the cursor line (and drops the assignment)",
     "def fo():\n    pass\n    import os\n    zz = 1\n"),
    ("klass", "a class with a class attribute, a method and an instance attribute, used as a receiver",
     "class Kl:\n    ka = 1\n    def me(self):\n        self.kb = 2\n        return self\nxa = Kl.ka\n"),
    ("line_unknown", "a walrus target and a name first declared by a bare annotation have no definition line",
     "def fo(al):\n    (wa := al)\n    an: int\n    an = wa\n    return wa, an\n"),
]


def write_witnesses(path=None):
    """regenerate coq/C20/Witnesses.v from WITNESSES (run by hand: python -c 'from harness import c20; c20.write_witnesses()')"""
    path = path or os.path.join(os.path.dirname(os.path.dirname(os.path.abspath(__file__))), "coq", "C20", "Witnesses.v")
    out = ["(* Witness programs of the C20 examples and [_refuted] lemmas.  GENERATED by harness/c20.py:write_witnesses\n"
           "   with harness/c15_gen.py:to_gallina from the sources quoted below. *)\n"
           "From Coq Require Import List NArith Bool.\nFrom RopeVerif.Lib Require Import Text.\n"
           "From RopeVerif.C15 Require Import Syntax RopeScopes.\nImport ListNotations.\n"]
    for (name, title, src) in WITNESSES:
        tr = c15_gen.to_gallina(src)
        idents = sorted(set(c15.all_idents(tr.tree)))
        for x in idents:
            tr.intern(x)
        for x in ("len", "os", "print"):
            tr.intern(x)
        quoted = "\n".join("     | " + l for l in src.rstrip("\n").split("\n"))
        out.append("(* %s\n   source:\n%s\n   identifiers: %s *)" % (
            title, quoted, ", ".join("%d=%s" % (i, s) for i, s in enumerate(tr.idents))))
        out.append("Definition w_%s : program :=\n  %s." % (name, tr.prog))
        out.append("Definition lay_%s : list lineinfo :=\n  %s." % (name, tr.layout))
        out.append("Definition ids_%s : list ident := %s." % (name, tr.g_idents(tr.idents)))
        out.append("Definition bi_%s : list ident := %s." % (name, tr.g_idents([x for x in tr.idents if x in PY_BUILTINS])))
        out.append("Definition spell_%s (x : ident) : text :=\n  nth (N.to_nat x) %s []." % (
            name, g_list([g_text(s) for s in tr.idents])))
        out.append("")
    with open(path, "w") as f:
        f.write("\n".join(out))
    return path


# ============================================================================ sessions (a live project)
# A saved, unchanged module that star-imports a library module is queried with resource= given and the text equal
# to the file (so the project's cached PyModule answers); the library is rewritten THROUGH rope between queries.
# Oracle: the live project answers like a project freshly opened on the same files, and offers / resolves exactly
# the public names of the library's current text.
SESSION_NAMES = ["circle", "cirque", "cone", "cube", "curve", "square", "sphere", "spline"]


SHADOWED = ["colorsys", "bisect", "keyword", "textwrap"]        # small stdlib modules found on the python path


def _lib_text(rng, names):
    body = []
    for i, n in enumerate(names):
        body.append(rng.choice(["def %s(al):\n    return al\n", "%s = %d\n" % ("%s", i), "class %s:\n    size = 1\n"]) % n)
        if rng.random() < 0.4:
            body.append("\n# note\n")
    return "".join(body)


def gen_session(rng, kind=None):
    """a session = files of a project, the unchanged module use.py that is asked about, and steps that change the
    OTHER files between the requests:
      rewrite  the library that use.py star-imports is rewritten through rope (names come and go)
      broken   the library that use.py star- / from-imports gets a syntax error, a request is made, it is repaired
      shadow   use.py imports a stdlib module; a project module of that name is created (empty, through rope) and
               later filled from outside rope"""
    kind = kind or rng.choice(["rewrite", "broken", "shadow"])
    names = list(SESSION_NAMES)
    rng.shuffle(names)
    cur = names[:rng.randint(2, 4)]
    if kind == "shadow":
        mod = rng.choice(SHADOWED)
        attr = {"colorsys": "rgb_to_hls", "bisect": "insort", "keyword": "iskeyword", "textwrap": "dedent"}[mod]
        use = "import %s\n\n\ndef fo(al):\n    return %s.%s(al)\n\nxa = %s.%s\n" % (mod, mod, attr, mod, attr[:3])
        steps = [{"op": "create", "path": mod + ".py"}]
        prefs = {}
        r = rng.random()
        text = _lib_text(rng, cur) + "%s = 1\n" % attr[:3]
        if r < 0.35:
            steps.append({"op": "write_outside", "path": mod + ".py", "text": text})
        elif r < 0.7:
            prefs = {"automatic_soa": False}
            steps.append({"op": "write", "path": mod + ".py", "text": text})
        if rng.random() < 0.4:
            steps.append({"op": "remove", "path": mod + ".py"})
        return {"kind": "session", "session": kind, "files": {}, "use": use, "steps": steps, "prefs": prefs}
    picks = rng.sample(SESSION_NAMES, 3)
    if kind == "broken" and rng.random() < 0.5:
        imp = "from shapes import %s" % ", ".join(cur[:2])
        used = [cur[0], cur[1], cur[0]]
    else:
        imp = "from shapes import *"
        used = [picks[0][:2], picks[1][:3], picks[2]]
    use = "%s\n\n\ndef fo(al):\n    alp = %s\n    return alp, al, %s\n\nxa = %s\n" % (imp, used[0], used[1], used[2])
    files = {"shapes.py": _lib_text(rng, cur)}
    steps = []
    for _ in range(rng.randint(1, 2)):
        if kind == "broken":
            bad = _lib_text(rng, cur) + rng.choice(["def (:\n", "x = (1,\n", "class :\n    pass\n", "  return 1\n"])
            steps.append({"op": "write", "path": "shapes.py", "text": bad})
            if rng.random() < 0.5:
                cur = [n for n in cur if rng.random() < 0.8] + [n for n in names if n not in cur and rng.random() < 0.3]
                cur = cur or names[:2]
        else:
            nxt = [n for n in cur if rng.random() < 0.75]
            nxt += [n for n in names if n not in cur and rng.random() < 0.4]
            cur = nxt or names[:2]
        steps.append({"op": "write", "path": "shapes.py", "text": _lib_text(rng, cur)})
    return {"kind": "session", "session": kind, "files": files, "use": use, "steps": steps}


def run_session(obj):
    """returns None or a description of the first deviation"""
    import shutil
    import tempfile
    from rope.base import exceptions
    from rope.base.project import Project
    from rope.contrib import codeassist, findit
    if "versions" in obj:                                  # the format of earlier replay files
        obj = dict(obj, files={"shapes.py": obj["versions"][0]},
                   steps=[{"op": "write", "path": "shapes.py", "text": t} for t in obj["versions"][1:]])
    use = obj["use"]
    offsets = [m.end() for m in re.finditer(r"[A-Za-z_]+", use)]
    d = tempfile.mkdtemp(prefix="ropeverif-c20x-")

    def one(f):
        try:
            with c20_sweep.time_limit():
                return f()
        except exceptions.ModuleSyntaxError:
            return "ModuleSyntaxError"

    def ask(project):
        res = project.get_resource("use.py")
        out = []
        for o in offsets:
            out.append(("assist", o, one(lambda: tuple(sorted(
                (p.name, p.scope) for p in codeassist.code_assist(project, use, o, resource=res))))))

            def definition():
                r, line = codeassist.get_definition_location(project, use, o - 1, resource=res)
                return (None if r is None else r.path, line)

            def find():
                loc = findit.find_definition(project, use, o - 1, resource=res)
                return None if loc is None else (loc.resource.path if loc.resource else None, loc.lineno)

            out.append(("definition", o, one(definition)))
            out.append(("find", o, one(find)))
        return out

    def all_valid():
        for fn in os.listdir(d):
            if fn.endswith(".py") and not c20_sweep.is_valid(open(os.path.join(d, fn)).read()):
                return False
        return True

    def compare(label):
        got = ask(live)
        if not all_valid():
            return None                                   # a broken library: a refusal or an answer, both fine
        fresh = Project(d, ropefolder=None)
        try:
            want = ask(fresh)
        finally:
            fresh.close()
        for g, w in zip(got, want):
            if g != w:
                return "%s, %s at offset %d: live project %r, fresh project %r" % (label, g[0], g[1], g[2], w[2])
        lib = os.path.join(d, "shapes.py")
        if use.startswith("from shapes import *") and os.path.exists(lib):
            public = set(c20_oracle.Oracle.public_names(open(lib).read()))
            for (what, o, val) in got:
                if what == "assist" and val != "ModuleSyntaxError":
                    pre = re.search(r"[A-Za-z_]*$", use[:o]).group()
                    line_start = use.rfind("\n", 0, o) + 1
                    if use[line_start:o].lstrip().startswith(("from", "def")) or use[:o].endswith("."):
                        continue
                    names = {n for (n, _s) in val}
                    for x in sorted(public):
                        if x.startswith(pre) and x not in names:
                            return "%s the star-imported %s is not offered for %r at offset %d" % (label, x, pre, o)
                    for x in sorted(set(SESSION_NAMES) - public):
                        if x in names:
                            return "%s the removed name %s is still offered at offset %d" % (label, x, o)
        return None

    try:
        live = Project(d, ropefolder=None, **obj.get("prefs", {}))
        try:
            for path, text in obj["files"].items():
                live.root.create_file(path).write(text)
            live.root.create_file("use.py").write(use)
            dev = compare("at the start")                  # also warms the caches
            if dev:
                return dev
            for k, st in enumerate(obj["steps"]):
                path = st["path"]
                if st["op"] == "write":
                    (live.get_resource(path) if live.root.has_child(path) else live.root.create_file(path)).write(st["text"])
                elif st["op"] == "create":
                    live.root.create_file(path)
                elif st["op"] == "write_outside":
                    with open(os.path.join(d, path), "w") as f:
                        f.write(st["text"])
                    live.validate(live.root)               # rope's way of learning about changes made outside
                elif st["op"] == "remove":
                    live.get_resource(path).remove()
                dev = compare("after step %d (%s %s)" % (k + 1, st["op"], path))
                if dev:
                    return dev
        finally:
            live.close()
    finally:
        shutil.rmtree(d, ignore_errors=True)
    return None


def run_sessions(ctx):
    n = ctx.scale(9, 45)
    for i in range(n):
        obj = gen_session(ctx.rng, kind=("rewrite", "broken", "shadow")[i % 3])
        ctx.count("sessions:" + obj["session"])
        ctx.case(("session", obj["use"], repr(obj["steps"])), nontrivial=True)
        dev = None
        for attempt in range(2):
            try:
                dev = run_session(obj)
                break
            except (FileNotFoundError, OSError):
                dev = "the scratch directory vanished twice"      # removed from outside: once more
            except Exception as e:  # noqa: BLE001
                dev = "exception %r" % (e,)
                break
        if dev:
            ctx.violation(dict(obj, focus="session", observed=dev), "C20 session: " + dev[:300])
