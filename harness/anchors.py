"""Drift sentinel (DESIGN 2.3): normalised-AST hashes of every function/class in the files a property is
anchored in.  `coq/anchors.json` holds the hashes of the tree the models were last brought in line with;
on each run they are recomputed from the tree under check.  A changed hash is NOT a verdict (a harmless
rewrite changes it): it is listed in the evidence ("source_drift") and printed as a '# drift' line so a
reader of a VIOLATION knows which mirrored functions were edited.  The verdict is always behavioural."""
import ast
import glob
import hashlib
import json
import os

VERIF = os.path.dirname(os.path.dirname(os.path.abspath(__file__)))
ANCHORS = os.path.join(VERIF, "coq", "anchors.json")


def property_files(prop):
    for line in open(os.path.join(VERIF, "properties.jsonl")):
        d = json.loads(line)
        if d["id"] == prop:
            return list(d.get("anchors", {}).get("files", []))
    return []


def _strip_docstrings(node):
    for n in ast.walk(node):
        body = getattr(n, "body", None)
        if isinstance(body, list) and body and isinstance(body[0], ast.Expr) and \
                isinstance(getattr(body[0], "value", None), ast.Constant) and isinstance(body[0].value.value, str):
            n.body = body[1:] or [ast.Pass()]
    return node


def file_hashes(path):
    """qualified name -> hash of the definition's own code (nested definitions hashed separately too)."""
    try:
        tree = ast.parse(open(path, encoding="utf-8").read())
    except (OSError, SyntaxError, UnicodeDecodeError) as e:
        return {"<file>": "unreadable:%s" % type(e).__name__}
    out = {}

    def walk(node, prefix):
        for child in ast.iter_child_nodes(node):
            if isinstance(child, (ast.FunctionDef, ast.AsyncFunctionDef, ast.ClassDef)):
                q = prefix + child.name
                if isinstance(child, ast.ClassDef):
                    # a class hashes its non-definition statements only; its methods are separate entries
                    own = [s for s in child.body if not isinstance(s, (ast.FunctionDef, ast.AsyncFunctionDef, ast.ClassDef))]
                    dump = ast.dump(ast.Module(body=own, type_ignores=[])) + repr([ast.dump(b) for b in child.bases])
                else:
                    dump = ast.dump(_strip_docstrings(child))
                out[q] = hashlib.sha256(dump.encode()).hexdigest()[:16]
                walk(child, q + ".")
    walk(_strip_docstrings(tree), "")
    top = [s for s in tree.body if not isinstance(s, (ast.FunctionDef, ast.AsyncFunctionDef, ast.ClassDef))]
    out["<module level>"] = hashlib.sha256(ast.dump(ast.Module(body=top, type_ignores=[])).encode()).hexdigest()[:16]
    return out


def snapshot(repo, prop):
    snap = {}
    for pat in property_files(prop):
        for p in sorted(glob.glob(os.path.join(repo, pat))):
            snap[os.path.relpath(p, repo)] = file_hashes(p)
    return snap


def drift(repo, prop):
    """list of 'file:qualname (changed|added|removed)' relative to coq/anchors.json; None if no baseline."""
    try:
        base = json.load(open(ANCHORS)).get(prop)
    except (OSError, ValueError):
        base = None
    if base is None:
        return None
    now = snapshot(repo, prop)
    out = []
    for f in sorted(set(base) | set(now)):
        b, n = base.get(f), now.get(f)
        if b is None:
            out.append("%s (file added)" % f)
        elif n is None:
            out.append("%s (file removed)" % f)
        else:
            for q in sorted(set(b) | set(n)):
                if b.get(q) != n.get(q):
                    out.append("%s:%s (%s)" % (f, q, "added" if q not in b else "removed" if q not in n else "changed"))
    return out
