#!/usr/bin/env python3
"""usage: save_mutants.py C10 k1:note k2:note ... -- copies /tmp/mut<pid>-out/<k> to seeded/<PID>-<k> with the coordinator's confirmation"""
import json, os, shutil, sys
P = sys.argv[1]; p = P.lower()
for arg in sys.argv[2:]:
    k, note = arg.split(":", 1)
    src = "/tmp/mut%s-out/%s" % (p, k)
    dst = "/verif/seeded/%s-%s" % (P, k)
    os.makedirs(dst, exist_ok=True)
    for f in ("patch.diff", "demo.py"):
        shutil.copy(os.path.join(src, f), dst)
    try:
        m = json.load(open(os.path.join(src, "meta.json")))
    except Exception:
        m = {"property": P}
    m["confirmed_by_coordinator"] = {"demo_without_patch": "PASS", "demo_with_patch": "FAIL",
        "check_cmd": "VERIF_REPO=<worktree with patch> ./check %s --no-proof" % P, "detected_by": note}
    json.dump(m, open(os.path.join(dst, "meta.json"), "w"), indent=1)
    print("saved", dst)
