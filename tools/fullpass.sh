#!/bin/sh
# usage: tools/fullpass.sh quick|thorough [jobs]   -- runs every registered check on the unchanged tree, prints a summary
TIER=${1:-quick}; J=${2:-4}
cd /verif; mkdir -p build/fullpass
ids=$(python3 -c "import json; print(' '.join(c['property_id'] for c in json.load(open('MANIFEST.json'))['checks']))")
echo $ids | tr ' ' '\n' | xargs -P $J -I{} sh -c "/usr/bin/time -f '%e s' ./check {} --tier $TIER > build/fullpass/{}_$TIER.log 2>&1; echo {} exit=\$? \$(tail -1 build/fullpass/{}_$TIER.log) viol=\$(grep -c '^VIOLATION' build/fullpass/{}_$TIER.log) known=\$(grep -c '^KNOWN-FINDING' build/fullpass/{}_$TIER.log)"
