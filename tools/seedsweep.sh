#!/bin/sh
# usage: tools/seedsweep.sh "C04 C06 ..." "11 12 13" [jobs]  -- quick --no-proof runs over seeds; prints only failures
PROPS=$1; SEEDS=$2; J=${3:-5}
cd /verif; mkdir -p build/sweep
for s in $SEEDS; do for P in $PROPS; do echo "$P $s"; done; done | xargs -P $J -L 1 sh -c 'P=$0; s=$1; VERIF_SEED=$s ./check $P --no-proof > build/sweep/${P}_$s.log 2>&1; rc=$?; if [ $rc -ne 0 ]; then echo "FAIL $P seed=$s: $(grep -B1 "^VIOLATION" build/sweep/${P}_$s.log | grep "^#" | head -2 | cut -c1-220)"; fi'
echo "sweep done: $PROPS / $SEEDS"
