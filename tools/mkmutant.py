#!/usr/bin/env python3
"""usage: mkmutant.py PID N -> prints the prompt for a mutation sub-agent (and prepares nothing)."""
import json, sys
pid, n = sys.argv[1], sys.argv[2]
tag = "mut" + pid.lower()
wt = "/tmp/%s-wt" % tag
for l in open('/verif/properties.jsonl'):
    p = json.loads(l)
    if p['id'] == pid:
        break
a = p['anchors']
anchors = "files: " + ", ".join(a.get('files', [])) + "\nmechanisms: " + "; ".join("%s (%s)" % (m['name'], m['where']) for m in a.get('mechanism', [])) + "\nobserve at: " + "; ".join(a.get('observe_at', []))
import glob, os
known = []
for d in sorted(glob.glob('/verif/seeded/%s-*' % pid)):
    try:
        m = json.load(open(os.path.join(d, 'meta.json')))
        known.append("- %s (%s)" % (m.get('title', '?'), ", ".join(m.get('files_touched', []) or [])))
    except Exception:
        pass
t = open('/verif/tools/mutant_brief.md').read()
if known:
    t += "\n\nChanges of the following kinds have ALREADY been produced by an earlier run; do not repeat them or close variants of them — find different mechanisms, different files where possible, and different trigger conditions:\n" + "\n".join(known) + "\n"
print(t.replace('{WT}', wt).replace('{TAG}', tag).replace('{N}', n).replace('{PID}', pid).replace('{TITLE}', p['title']).replace('{STATEMENT}', p['statement'] + "\n(quantifier: " + str(p.get('quantifier')) + ")").replace('{ANCHORS}', anchors))
