#!/usr/bin/env python3
"""usage: mkmutant.py PID N -> prints the prompt for a mutation sub-agent (and prepares nothing)."""
import json, sys
pid, n = sys.argv[1], sys.argv[2]
tag = "mut" + pid.lower()
wt = "/tmp/%s-wt" % tag
for l in open('/verif/properties.jsonl'):
    p = json.loads(l)
    if p['id'] == pid:
        break
a = p['anchors']
anchors = "files: " + ", ".join(a.get('files', [])) + "\nmechanisms: " + "; ".join("%s (%s)" % (m['name'], m['where']) for m in a.get('mechanism', [])) + "\nobserve at: " + "; ".join(a.get('observe_at', []))
t = open('/verif/tools/mutant_brief.md').read()
print(t.replace('{WT}', wt).replace('{TAG}', tag).replace('{N}', n).replace('{PID}', pid).replace('{TITLE}', p['title']).replace('{STATEMENT}', p['statement'] + "\n(quantifier: " + str(p.get('quantifier')) + ")").replace('{ANCHORS}', anchors))
