#!/usr/bin/env python3
import sys
pid, notes = sys.argv[1], sys.argv[2]
t = open('/verif/tools/agent_brief.md').read()
print(t.replace('{PID}', pid).replace('{pid}', pid.lower()).replace('{NOTES}', notes))
