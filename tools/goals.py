#!/usr/bin/env python3
"""usage: tools/goals.py coq/Cxx/File.v LINE  -- prints the proof state after LINE (file truncated there)."""
import sys, subprocess, os, tempfile
f, line = sys.argv[1], int(sys.argv[2])
src = open(f).read().split('\n')
d = tempfile.mkdtemp(prefix="ropeverif-goals-")
p = os.path.join(d, os.path.basename(f))
open(p, 'w').write('\n'.join(src[:line]) + '\nShow.\n')
coq = os.path.join(os.path.dirname(os.path.dirname(os.path.abspath(__file__))), "coq")
r = subprocess.run(['coqc', '-w', '-all', '-Q', coq, 'RopeVerif', p], capture_output=True, text=True, timeout=600)
print((r.stdout + r.stderr)[-8000:])
import shutil; shutil.rmtree(d, ignore_errors=True)
