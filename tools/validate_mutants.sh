#!/bin/sh
# usage: tools/validate_mutants.sh C10   -- runs the demos and ./check against every mutant in /tmp/mut<pid>-out
P=$1; p=$(echo $P | tr 'A-Z' 'a-z'); WT=/tmp/mut$p-wt; OUT=/tmp/mut$p-out
cd /verif
for d in $OUT/*/; do
  k=$(basename $d)
  git -C $WT checkout -q -- . ; git -C $WT clean -fdq
  base=$(cd /tmp && PYTHONPATH=$WT timeout 600 /venv/bin/python $d/demo.py >/dev/null 2>&1; echo $?)
  if git -C $WT apply $d/patch.diff 2>/dev/null; then
    withp=$(cd /tmp && PYTHONPATH=$WT timeout 600 /venv/bin/python $d/demo.py >/dev/null 2>&1; echo $?)
    VERIF_REPO=$WT timeout 1800 ./check $P --no-proof > build/mut_${P}_$k.log 2>&1
    rc=$?
    nv=$(grep -c '^VIOLATION' build/mut_${P}_$k.log)
    ni=$(grep '^VIOLATION' build/mut_${P}_$k.log | grep -vc 'no-failing-input-found')
    first=$(grep -B1 '^VIOLATION' build/mut_${P}_$k.log | grep '^#' | head -1 | cut -c1-200)
    echo "$P-$k demo_base=$base demo_patched=$withp check_rc=$rc violations=$nv with_input=$ni :: $first"
  else
    echo "$P-$k PATCH DOES NOT APPLY"
  fi
done
git -C $WT checkout -q -- . ; git -C $WT clean -fdq
