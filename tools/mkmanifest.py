#!/usr/bin/env python3
"""Assemble MANIFEST.json from manifest.d/*.json (one fragment per property) and validate it."""
import glob, json, os, sys
V = os.path.dirname(os.path.dirname(os.path.abspath(__file__)))
props = [json.loads(l)["id"] for l in open(os.path.join(V, "properties.jsonl")) if l.strip()]
checks, na = [], []
for p in props:
    f = os.path.join(V, "manifest.d", p + ".json")
    if not os.path.exists(f):
        na.append({"property_id": p, "reason": "no check is registered yet for this property (model not built in the time available); see DESIGN.md section 7"})
        continue
    frag = json.load(open(f))
    if "not_applicable" in frag:
        na.append({"property_id": p, "reason": frag["not_applicable"]})
        continue
    c = {
        "property_id": p,
        "quick_cmd": "./check %s --tier quick" % p,
        "thorough_cmd": "./check %s --tier thorough" % p,
        "evidence_file": "evidence/%s.json" % p,
        "replay_cmd_template": "./check %s --replay {path}" % p,
        "engine": "coq-model+correspondence",
        "level_claimed": {"category": "proof", "text": frag["level_text"], "design_ref": frag.get("design_ref", "DESIGN.md section 4, " + p)},
        "level_note": frag["level_note"],
        "technique": frag.get("technique", "Coq 8.16 theorems about a hand-written executable Gallina model + differential correspondence (vm_compute) against rope on generated inputs + independent oracle"),
    }
    checks.append(c)
m = {
    "version": 1,
    "setup_cmd": "./coq/build.sh -k; /venv/bin/python tools/selftest.py",
    "hooks": {
        "guard": "ROPE_VERIF",
        "enable": "ROPE_VERIF=1 in the environment of ./check (set by the check itself); rope is pure Python and is imported from /repo's working tree",
        "baseline_off_cmd": "cd /repo && /venv/bin/python -m pytest -ra -q -p no:cacheprovider --timeout=900 --continue-on-collection-errors",
        "source_commits": json.load(open(os.path.join(V, "manifest.d", "_hooks.json")))["source_commits"] if os.path.exists(os.path.join(V, "manifest.d", "_hooks.json")) else [],
        "add_only": True,
    },
    "engines": [{"name": "coq-model+correspondence", "path": "check", "serves_properties": [c["property_id"] for c in checks],
                 "kind_free_text": "Coq 8.16.1 development under coq/ (models, proofs, Props/Cxx.v with Print Assumptions) + Python harness under harness/ that runs rope from /repo and the model (vm_compute) on the same generated inputs"}],
    "checks": checks,
    "not_applicable": na,
    "notes": "See DESIGN.md. known_findings.json lists recorded defects; seeded/ holds confirmed breaking changes used to validate the checks.",
}
json.dump(m, open(os.path.join(V, "MANIFEST.json"), "w"), indent=1)
kf = {"open": [], "fixed": []}
for f in sorted(glob.glob(os.path.join(V, "findings.d", "*.json"))):
    frag = json.load(open(f))
    kf["open"].extend(frag.get("open", [])); kf["fixed"].extend(frag.get("fixed", []))
json.dump(kf, open(os.path.join(V, "known_findings.json"), "w"), indent=1)
try:
    import jsonschema
    jsonschema.validate(m, json.load(open("/root/.vp/MANIFEST.schema.json")))
    print("MANIFEST.json valid: %d checks, %d not_applicable" % (len(checks), len(na)))
except ImportError:
    print("MANIFEST.json written (jsonschema not available): %d checks" % len(checks))
import subprocess
subprocess.call(["python3", os.path.join(V, "tools", "mkfindings_md.py")])
subprocess.call(["python3", os.path.join(V, "tools", "mkseeded_md.py")])
subprocess.call(["python3", os.path.join(V, "tools", "mktheorems_md.py")])
subprocess.call(["python3", os.path.join(V, "tools", "mkasbuilt.py")])
