#!/bin/sh
# usage: tools/commit_prop.sh C10 "message"  -- stages only the files owned by that property and commits
P=$1; p=$(echo $P | tr 'A-Z' 'a-z'); shift
cd /verif
python3-vt tools/mkmanifest.py >/dev/null
for x in coq/$P coq/Props/$P.v harness/${p}.py harness/${p}_*.py manifest.d/$P.json findings.d/$P.json findings/$P-* corpus/$P proposed_fixes/$P-* evidence/$P.json MANIFEST.json known_findings.json; do
  [ -e "$x" ] && git add -A "$x"
done
git commit -qm "$*" >/dev/null 2>&1 && echo "committed $P" || echo "nothing to commit for $P"
