#!/venv/bin/python
"""Rewrite coq/anchors.json from /repo's current tree (run after the models were brought in line with it)."""
import json, os, sys
V = os.path.dirname(os.path.dirname(os.path.abspath(__file__)))
sys.path.insert(0, V)
from harness import anchors
props = [json.loads(l)["id"] for l in open(os.path.join(V, "properties.jsonl"))]
data = {p: anchors.snapshot("/repo", p) for p in props}
json.dump(data, open(anchors.ANCHORS, "w"), indent=0, sort_keys=True)
print("anchors:", sum(len(h) for s in data.values() for h in s.values()), "definitions in", len(data), "properties")
