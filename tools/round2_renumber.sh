#!/bin/sh
# usage: tools/round2_renumber.sh C12 OFFSET -- renames /tmp/mutc12-out/{1..4} to {1+OFFSET..}
P=$1; off=$2; p=$(echo $P | tr 'A-Z' 'a-z')
for k in 4 3 2 1; do [ -d /tmp/mut$p-out/$k ] && mv /tmp/mut$p-out/$k /tmp/mut$p-out/$((k+off)); done; ls /tmp/mut$p-out
