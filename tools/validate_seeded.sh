#!/bin/sh
# usage: tools/validate_seeded.sh C17 [k ...]  -- applies each seeded/<P>-k/patch.diff to a scratch worktree of /repo HEAD,
# runs the demo (must FAIL) and ./check P --no-proof (must report a VIOLATION); prints one line per mutant.
P=$1; shift; p=$(echo $P | tr 'A-Z' 'a-z'); WT=/tmp/seedwt-$p
cd /verif
git -C /repo worktree remove --force $WT >/dev/null 2>&1
git -C /repo worktree add --detach $WT HEAD >/dev/null 2>&1 || { echo "cannot create worktree"; exit 2; }
ks="$@"; [ -z "$ks" ] && ks=$(ls -d seeded/$P-* | sed "s|seeded/$P-||")
for k in $ks; do
  d=seeded/$P-$k
  git -C $WT checkout -q -- . ; git -C $WT clean -fdq
  if git -C $WT apply $PWD/$d/patch.diff 2>/dev/null; then
    withp=$(cd /tmp && PYTHONPATH=$WT timeout 900 /venv/bin/python /verif/$d/demo.py >/dev/null 2>&1; echo $?)
    VERIF_REPO=$WT timeout 2400 ./check $P --no-proof > build/seed_${P}_$k.log 2>&1
    rc=$?
    nv=$(grep -c '^VIOLATION' build/seed_${P}_$k.log)
    ni=$(grep '^VIOLATION' build/seed_${P}_$k.log | grep -vc 'no-failing-input-found')
    first=$(grep -B1 '^VIOLATION' build/seed_${P}_$k.log | grep '^#' | head -1 | cut -c1-160)
    echo "$P-$k demo_patched=$withp check_rc=$rc violations=$nv with_input=$ni :: $first"
  else
    echo "$P-$k PATCH DOES NOT APPLY to HEAD"
  fi
done
git -C /repo worktree remove --force $WT >/dev/null 2>&1
