#!/venv/bin/python
"""Dry self-test run by setup_cmd: rope is imported from /repo, the harness modules import.
A harness module that does not import is reported here and fails its own check later; setup itself only
fails when the framework cannot run at all."""
import importlib, json, os, sys, traceback
V = os.path.dirname(os.path.dirname(os.path.abspath(__file__)))
sys.path.insert(0, V); sys.path.insert(0, "/repo")
from harness import common
common.ensure_repo_on_path()
m = json.load(open(os.path.join(V, "MANIFEST.json")))
bad = 0
for c in m["checks"]:
    try:
        importlib.import_module("harness." + c["property_id"].lower())
    except Exception:
        bad += 1
        traceback.print_exc()
print("selftest: %d checks, %d harness modules failed to import" % (len(m["checks"]), bad))
