#!/venv/bin/python
"""Dry self-test run by setup_cmd: the harness modules import, rope is imported from /repo."""
import importlib, json, os, sys
V = os.path.dirname(os.path.dirname(os.path.abspath(__file__)))
sys.path.insert(0, V); sys.path.insert(0, "/repo")
from harness import common
common.ensure_repo_on_path()
m = json.load(open(os.path.join(V, "MANIFEST.json")))
for c in m["checks"]:
    importlib.import_module("harness." + c["property_id"].lower())
print("selftest ok: %d checks importable" % len(m["checks"]))
