#!/usr/bin/env python3
"""Record the outcome of tools/validate_seeded.sh (build/validate/Cxx.txt) in seeded/<id>/meta.json
(field confirmed_by_coordinator.revalidated) so that SEEDED.md shows which check catches which change now."""
import glob, json, os, re, subprocess, sys
V = os.path.dirname(os.path.dirname(os.path.abspath(__file__)))
head = subprocess.run(["git", "-C", "/repo", "rev-parse", "--short", "HEAD"], capture_output=True, text=True).stdout.strip()
pat = re.compile(r"^(C\d\d-\d+) demo_patched=(\d+) check_rc=(\d+) violations=(\d+) with_input=(\d+) :: ?(.*)$")
n = 0
for f in sorted(glob.glob(os.path.join(V, "build", "validate", "C*.txt"))):
    for line in open(f, errors="replace"):
        m = pat.match(line.rstrip("\n"))
        if not m:
            continue
        sid, demo, rc, nv, ni, first = m.groups()
        p = os.path.join(V, "seeded", sid, "meta.json")
        if not os.path.exists(p):
            continue
        meta = json.load(open(p))
        c = meta.setdefault("confirmed_by_coordinator", {})
        c["revalidated"] = {
            "repo_head": head,
            "demo_with_patch": "FAIL" if demo != "0" else "PASS",
            "check_exit": int(rc), "violations": int(nv), "violations_with_failing_input": int(ni),
            "first_report": first.lstrip("# ")[:200],
        }
        json.dump(meta, open(p, "w"), indent=1)
        n += 1
print("recorded", n)
