#!/usr/bin/env python3
"""Generate SEEDED.md from seeded/*/meta.json: which check catches which seeded change."""
import glob, json, os
V = os.path.dirname(os.path.dirname(os.path.abspath(__file__)))
rows = []


def reval(c):
    r = c.get("revalidated")
    if not r:
        return ""
    s = "%s: %d violation(s), %d with a failing input" % (
        "DETECTED" if r["check_exit"] == 1 and r["violations"] else ("not property-breaking on this HEAD" if r["demo_with_patch"] == "PASS" else "NOT DETECTED"), r["violations"],
        r["violations_with_failing_input"])
    if r["demo_with_patch"] == "PASS":
        s += " (demo no longer fails on this HEAD: " + c.get("status_on_current_head", "")[:120] + ")"
    return s + " @" + r["repo_head"]


for d in sorted(glob.glob(os.path.join(V, "seeded", "*"))):
    try:
        m = json.load(open(os.path.join(d, "meta.json")))
    except Exception:
        continue
    c = m.get("confirmed_by_coordinator", {})
    rows.append((os.path.basename(d), m.get("title", "?"), m.get("what_it_needs_to_manifest", m.get("needs", "?")),
                 c.get("detected_by", "?"), c.get("after_strengthening", ""), reval(c)))
out = ["# Seeded property-breaking changes (generated from seeded/*/meta.json by tools/mkseeded_md.py)\n",
       "Each change was written by an independent sub-agent that saw only the property text and its own scratch worktree;",
       "it keeps the package importable and rope's 2104 tests passing, and comes with a demo that passes without and fails",
       "with the patch. The coordinator confirmed each (demo PASS/FAIL) and ran `VERIF_REPO=<worktree+patch> ./check <P> --no-proof`.",
       "`first run` = detected by the check as it was when the change was produced; `MISSED` entries led to strengthening the",
       "generator/oracle/model (column 5), after which the change is detected. Re-validate with `tools/validate_seeded.sh <P>`.\n",
       "",
       "| id | change | needs to manifest | detection at first run | after strengthening | last re-validation (`tools/validate_seeded.sh`, quick tier, seed 0) |", "|---|---|---|---|---|---|"]
for r in rows:
    out.append("| " + " | ".join(str(x).replace("|", "/").replace("\n", " ")[:400] for x in r) + " |")
missed = sum(1 for r in rows if "MISSED" in r[3])
out.insert(6, "Totals: %d changes, %d detected at first run, %d missed at first run (%d of those now detected).\n" % (
    len(rows), len(rows) - missed, missed, sum(1 for r in rows if "MISSED" in r[3] and (r[4] or r[5].startswith("DETECTED")))) +
    "Last re-validation: %d of %d re-validated changes detected.\n" % (
        sum(1 for r in rows if r[5].startswith("DETECTED")), sum(1 for r in rows if r[5])))
open(os.path.join(V, "SEEDED.md"), "w").write("\n".join(out) + "\n")
print("SEEDED.md: %d changes" % len(rows))
