#!/usr/bin/env python3
"""Generate FINDINGS.md (human-readable list of recorded defects) from findings.d/*.json."""
import glob, json, os
V = os.path.dirname(os.path.dirname(os.path.abspath(__file__)))
out = ["# Recorded findings (generated from findings.d/ by tools/mkfindings_md.py)\n",
       "Open findings are genuine defects of python-rope/rope that the checks reproduce on the unchanged tree on every run",
       "(printed as `KNOWN-FINDING:` lines, exit status unaffected); each has a replay under `findings/` and a structural",
       "signature so that a different violation of the same property is still reported. Fixed findings were repaired by a",
       "`fix:` commit in /repo; their replays live under `corpus/<id>/` and are replayed first on every run, so a returning",
       "defect is a VIOLATION.\n"]
nopen = nfixed = 0
for f in sorted(glob.glob(os.path.join(V, "findings.d", "*.json"))):
    frag = json.load(open(f))
    pid = os.path.basename(f)[:-5]
    out.append("## %s\n" % pid)
    if frag.get("fixed"):
        out.append("Fixed:\n")
        for s in frag["fixed"]:
            nfixed += 1
            out.append("* " + s.replace("\n", " "))
        out.append("")
    if frag.get("open"):
        out.append("Open:\n")
        for e in frag["open"]:
            nopen += 1
            extra = ""
            if e.get("proposed_fix"):
                extra = " (proposed, not applied: `%s`)" % e["proposed_fix"]
            out.append("* **%s** — %s [replay `%s`]%s" % (e["id"], e["title"].replace("\n", " "), e.get("replay", "?"), extra))
        out.append("")
out.insert(6, "Totals: %d open, %d fixed.\n" % (nopen, nfixed))
open(os.path.join(V, "FINDINGS.md"), "w").write("\n".join(out) + "\n")
print("FINDINGS.md: %d open, %d fixed" % (nopen, nfixed))
