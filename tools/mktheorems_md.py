#!/usr/bin/env python3
"""Generate THEOREMS.md: every statement of coq/Props/Cxx.v (name, kind, the comment above it, the statement)."""
import glob, os, re
V = os.path.dirname(os.path.dirname(os.path.abspath(__file__)))
out = ["# Property theorems (generated from coq/Props/*.v by tools/mktheorems_md.py)\n",
       "Every statement below is checked by `coqc` on every run of the corresponding check (proof gate) and is followed in its",
       "file by `Print Assumptions`; the gate fails if anything other than a standard-library axiom is reported (none is used:",
       "all print `Closed under the global context`). `_partial` = proved under the stated extra hypothesis, full statement kept",
       "as a comment; `_refuted` = the faithful model of the code (or of the code before a fix) does not satisfy the full",
       "statement, with a computed witness that is replayed on rope.\n"]
total = 0
for f in sorted(glob.glob(os.path.join(V, "coq", "Props", "C*.v"))):
    src = open(f).read()
    pid = os.path.basename(f)[:-2]
    items = re.findall(r"((?:\(\*(?:(?!\*\)).)*\*\)\s*)?)\b(Theorem|Lemma|Corollary|Example)\s+([A-Za-z0-9_']+)\s*((?:(?!\bProof\b).)*?)\.\s*\n\s*Proof\b", src, re.S)
    out.append("## %s (%d statements)\n" % (pid, len(items)))
    for com, kind, name, stmt in items:
        total += 1
        stmt = re.sub(r"\s+", " ", stmt.strip())
        if len(stmt) > 700:
            stmt = stmt[:700] + " …"
        out.append("* **%s** `%s`  \n  `%s`" % (kind, name, stmt.replace("`", "'")))
    out.append("")
out.insert(6, "Total: %d statements.\n" % total)
open(os.path.join(V, "THEOREMS.md"), "w").write("\n".join(out) + "\n")
print("THEOREMS.md: %d statements" % total)
