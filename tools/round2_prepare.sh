#!/bin/sh
# usage: tools/round2_prepare.sh C12 ... -- worktree + prompt for a second-round mutation agent
for P in "$@"; do p=$(echo $P | tr 'A-Z' 'a-z'); git -C /repo worktree remove --force /tmp/mut$p-wt >/dev/null 2>&1; rm -rf /tmp/mut$p-out; git -C /repo worktree add --detach /tmp/mut$p-wt HEAD >/dev/null 2>&1; python3 /verif/tools/mkmutant.py $P 4 > /tmp/mut$p-prompt.txt; echo "prepared $P"; done
