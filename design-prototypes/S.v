From Coq Require Import List ZArith Lia Bool.
Import ListNotations.
(* reduced serializer: ints, lists, dicts with int keys (all keys go through the reference table) *)
Inductive pyval := PInt (z:Z) | PList (l:list pyval) | PDict (kvs: list (Z * pyval)).
Inductive jsval := JInt (z:Z) | JArr (l:list jsval) | JObj (kvs: list (nat * jsval)).
Definition refs := list jsval.

Fixpoint py2js (v:pyval) (r:refs) {struct v} : jsval * refs :=
  match v with
  | PInt z => (JInt z, r)
  | PList l =>
      let fix go (l:list pyval) (r:refs) : list jsval * refs :=
        match l with [] => ([], r)
        | x::xs => let '(jx, r1) := py2js x r in let '(js, r2) := go xs r1 in (jx::js, r2) end in
      let '(js, r') := go l r in (JArr js, r')
  | PDict kvs =>
      let fix go (kvs:list (Z*pyval)) (r:refs) : list (nat*jsval) * refs :=
        match kvs with [] => ([], r)
        | (k,x)::xs =>
            let id := length r in
            let r0 := r ++ [JInt k] in
            let '(jx, r1) := py2js x r0 in
            let '(js, r2) := go xs r1 in ((id,jx)::js, r2) end in
      let '(js, r') := go kvs r in (JObj js, r')
  end.

Fixpoint js2py (fuel:nat) (j:jsval) (r:refs) : option pyval :=
  match fuel with O => None | S f =>
  match j with
  | JInt z => Some (PInt z)
  | JArr l =>
      option_map PList ((fix go (l:list jsval) : option (list pyval) :=
        match l with [] => Some [] | x::xs =>
          match js2py f x r, go xs with Some a, Some b => Some (a::b) | _,_ => None end end) l)
  | JObj kvs =>
      option_map PDict ((fix go (kvs:list (nat*jsval)) : option (list (Z*pyval)) :=
        match kvs with [] => Some [] | (id,x)::xs =>
          match nth_error r id, js2py f x r, go xs with
          | Some (JInt k), Some a, Some b => Some ((k,a)::b) | _,_,_ => None end end) kvs)
  end end.
