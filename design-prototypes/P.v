From Coq Require Import List ZArith Lia Bool.
Import ListNotations.
Require Import S.

Section Ind.
  Variable P : pyval -> Prop.
  Hypothesis Hint : forall z, P (PInt z).
  Hypothesis Hlist : forall l, Forall P l -> P (PList l).
  Hypothesis Hdict : forall kvs, Forall (fun kv => P (snd kv)) kvs -> P (PDict kvs).
  Fixpoint pyval_ind' (v:pyval) : P v :=
    match v with
    | PInt z => Hint z
    | PList l => Hlist l ((fix go l : Forall P l := match l with [] => Forall_nil _ | x::xs => Forall_cons _ (pyval_ind' x) (go xs) end) l)
    | PDict kvs => Hdict kvs ((fix go l : Forall (fun kv => P (snd kv)) l :=
         match l with [] => Forall_nil _ | (k,x)::xs => Forall_cons (k,x) (pyval_ind' x) (go xs) end) kvs)
    end.
End Ind.

Fixpoint jsize (j:jsval) : nat :=
  match j with
  | JInt _ => 1
  | JArr l => S (fold_right (fun x n => jsize x + n) 0 l)
  | JObj kvs => S (fold_right (fun kx n => jsize (snd kx) + n) 0 kvs)
  end.

Fixpoint enc_list (l:list pyval) (r:refs) : list jsval * refs :=
  match l with [] => ([], r)
  | x::xs => let '(jx, r1) := py2js x r in let '(js, r2) := enc_list xs r1 in (jx::js, r2) end.
Fixpoint enc_dict (kvs:list (Z*pyval)) (r:refs) : list (nat*jsval) * refs :=
  match kvs with [] => ([], r)
  | (k,x)::xs => let id := length r in let r0 := r ++ [JInt k] in
      let '(jx, r1) := py2js x r0 in let '(js, r2) := enc_dict xs r1 in ((id,jx)::js, r2) end.
Lemma py2js_list l r : py2js (PList l) r = let '(js,r') := enc_list l r in (JArr js, r').
Proof.
  cbn [py2js].
  match goal with |- (let '(_,_) := ?g l r in _) = _ => assert (H: forall l0 r0, g l0 r0 = enc_list l0 r0) end.
  { clear. induction l0 as [|x xs IH]; intros r0; cbn [enc_list]; [reflexivity|].
    destruct (py2js x r0) as [jx r1]. rewrite IH. reflexivity. }
  rewrite H. reflexivity.
Qed.
Lemma py2js_dict l r : py2js (PDict l) r = let '(js,r') := enc_dict l r in (JObj js, r').
Proof.
  cbn [py2js].
  match goal with |- (let '(_,_) := ?g l r in _) = _ => assert (H: forall l0 r0, g l0 r0 = enc_dict l0 r0) end.
  { clear. induction l0 as [|[k x] xs IH]; intros r0; cbn [enc_dict]; [reflexivity|].
    destruct (py2js x (r0 ++ [JInt k])) as [jx r1]. rewrite IH. reflexivity. }
  rewrite H. reflexivity.
Qed.

Fixpoint dec_list f r (l:list jsval) : option (list pyval) :=
  match l with [] => Some [] | x::xs =>
    match js2py f x r, dec_list f r xs with Some a, Some b => Some (a::b) | _,_ => None end end.
Fixpoint dec_dict f r (kvs:list (nat*jsval)) : option (list (Z*pyval)) :=
  match kvs with [] => Some [] | (id,x)::xs =>
    match nth_error r id, js2py f x r, dec_dict f r xs with
    | Some (JInt k), Some a, Some b => Some ((k,a)::b) | _,_,_ => None end end.
Lemma js2py_arr f l r : js2py (S f) (JArr l) r = option_map PList (dec_list f r l).
Proof. cbn [js2py]. f_equal. induction l; cbn; [reflexivity|]. rewrite IHl. reflexivity. Qed.
Lemma js2py_obj f l r : js2py (S f) (JObj l) r = option_map PDict (dec_dict f r l).
Proof. cbn [js2py]. f_equal. induction l as [|[id x] l IH]; cbn; [reflexivity|]. rewrite IH. reflexivity. Qed.

Definition good (v:pyval) : Prop :=
  forall r j r', py2js v r = (j, r') ->
    (exists ext, r' = r ++ ext) /\
    forall more f, jsize j <= f -> js2py f j (r' ++ more) = Some v.

Lemma good_all v : good v.
Proof.
  induction v as [z|l IH|kvs IH] using pyval_ind'; unfold good; intros r j r' E.
  - inversion E; subst. split; [exists []; now rewrite app_nil_r|].
    intros more f Hf. destruct f; [cbn in Hf; lia|]. reflexivity.
  - rewrite py2js_list in E. destruct (enc_list l r) as [js r2] eqn:EL. inversion E; subst j r'. clear E.
    assert (H: (exists ext, r2 = r ++ ext) /\ forall more f, fold_right (fun x n => jsize x + n) 0 js <= f -> dec_list f (r2 ++ more) js = Some l).
    { revert r js r2 EL. induction IH as [|x xs Hx _ IHxs]; intros r js r2 EL; cbn in EL.
      - inversion EL; subst. split; [exists []; now rewrite app_nil_r|]. reflexivity.
      - destruct (py2js x r) as [jx r1] eqn:E1. destruct (enc_list xs r1) as [js' r2'] eqn:E2. inversion EL; subst. clear EL.
        destruct (Hx _ _ _ E1) as [[e1 ->] D1]. destruct (IHxs _ _ _ E2) as [[e2 ->] D2].
        split; [exists (e1 ++ e2); now rewrite app_assoc|].
        intros more f Hf. cbn in Hf. cbn [dec_list].
        rewrite <- app_assoc. rewrite D1 by lia. rewrite app_assoc. rewrite D2 by lia. reflexivity. }
    destruct H as [Hext Hdec]. split; [exact Hext|].
    intros more f Hf. destruct f; [cbn in Hf; lia|]. rewrite js2py_arr. cbn in Hf. rewrite Hdec by lia. reflexivity.
  - rewrite py2js_dict in E. destruct (enc_dict kvs r) as [js r2] eqn:EL. inversion E; subst j r'. clear E.
    assert (H: (exists ext, r2 = r ++ ext) /\ forall more f, fold_right (fun kx n => jsize (snd kx) + n) 0 js <= f -> dec_dict f (r2 ++ more) js = Some kvs).
    { revert r js r2 EL. induction IH as [|[k x] xs Hx _ IHxs]; intros r js r2 EL; cbn in EL.
      - inversion EL; subst. split; [exists []; now rewrite app_nil_r|]. reflexivity.
      - destruct (py2js x (r ++ [JInt k])) as [jx r1] eqn:E1. destruct (enc_dict xs r1) as [js' r2'] eqn:E2. inversion EL; subst. clear EL.
        cbn in Hx. destruct (Hx _ _ _ E1) as [[e1 ->] D1]. destruct (IHxs _ _ _ E2) as [[e2 ->] D2].
        split; [exists ([JInt k] ++ e1 ++ e2); now rewrite <- !app_assoc|].
        intros more f Hf. cbn in Hf. cbn [dec_dict].
        replace (nth_error ((((r ++ [JInt k]) ++ e1) ++ e2) ++ more) (length r)) with (Some (JInt k)).
        2:{ rewrite <- !app_assoc. rewrite nth_error_app2 by lia. rewrite Nat.sub_diag. reflexivity. }
        rewrite <- (app_assoc _ e2 more). rewrite D1 by lia. rewrite (app_assoc _ e2 more). rewrite D2 by lia. reflexivity. }
    destruct H as [Hext Hdec]. split; [exact Hext|].
    intros more f Hf. destruct f; [cbn in Hf; lia|]. rewrite js2py_obj. cbn in Hf. rewrite Hdec by lia. reflexivity.
Qed.

Theorem roundtrip v : forall j r, py2js v [] = (j, r) -> js2py (jsize j) j r = Some v.
Proof. intros j r E. destruct (good_all v [] j r E) as [_ D]. specialize (D [] (jsize j) (le_n _)). now rewrite app_nil_r in D. Qed.
Print Assumptions roundtrip.
