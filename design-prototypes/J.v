From stdpp Require Import gmap list.
From Coq Require Import ZArith Lia.
Require Import G.

(* ---------- leaves ---------- *)
Definition is_leaf (c:change) := match c with CS _ => False | _ => True end.

Lemma leaf_inverse c m m1 k1 c1 :
  is_leaf c -> (forall p n o, c = CC p n o -> o = None) ->
  leaf None Do c m = Ok m1 k1 c1 ->
  k1 = None /\ exists c2, leaf None Undo c1 m1 = Ok m None c2.
Proof.
  intros Hl Hfresh H. destruct c as [p new old|p q|p|cs]; cbn [leaf prim] in H.
  - rewrite (Hfresh _ _ _ eq_refl) in H. unfold p_write in H.
    destruct (m !! p) as [[o|]|] eqn:Ep; cbn in H; try discriminate.
    inversion H; subst; clear H. split; [reflexivity|]. cbn [leaf prim]. unfold p_write.
    rewrite lookup_insert. cbn. rewrite insert_insert, (insert_id _ _ _ Ep). eauto.
  - unfold p_move in H. destruct (m !! p) as [n|] eqn:Ep; cbn in H; try discriminate.
    destruct (m !! q) as [n'|] eqn:Eq; cbn in H; try discriminate.
    inversion H; subst; clear H. split; [reflexivity|]. cbn [leaf prim]. unfold p_move.
    assert (p <> q) by (intros ->; congruence).
    rewrite lookup_insert, (lookup_insert_ne _ q p) by done. rewrite lookup_delete. cbn.
    rewrite delete_insert by (rewrite lookup_delete_ne; done).
    rewrite insert_delete by done. eauto.
  - unfold p_create in H. destruct (m !! p) eqn:Ep; cbn in H; try discriminate.
    inversion H; subst; clear H. split; [reflexivity|]. cbn [leaf prim]. unfold p_remove.
    rewrite lookup_insert. cbn. rewrite (delete_insert _ _ _ Ep). eauto.
  - destruct Hl.
Qed.

(* a leaf that fails leaves the file system unchanged and the schedule exhausted or unchanged *)
Lemma leaf_fail_frame k d c m m1 k1 x : leaf k d c m = Err m1 k1 x -> m1 = m.
Proof.
  destruct c, d; cbn [leaf]; unfold prim, lift;
  repeat match goal with
  | |- context [match ?k with Some _ => _ | None => _ end] => destruct k
  | |- context [match ?n with O => _ | S _ => _ end] => destruct n
  | |- context [match ?o with Some _ => _ | None => _ end] => destruct o eqn:?
  end; intros H; try discriminate; try (inversion H; reflexivity).
Qed.
