From Coq Require Import List NArith Bool Lia.
Import ListNotations.
Notation ident := N.

(* targets: names and nested tuples; other targets (attr/subscript) bind nothing *)
Inductive target := TName (x:ident) | TTuple (ts:list target) | TOther.
Inductive stmt :=
| SAssign (ts:list target)
| SAug (t:target)
| SExpr
| SIf (body orelse:list stmt)
| SWhile (body orelse:list stmt)
| SFor (t:target) (body orelse:list stmt)
| SDef (name:ident) (params:list ident) (kwonly:list ident) (body:list stmt)
| SClass (name:ident) (body:list stmt)
| SImport (bound:ident)
| SGlobal (xs:list ident).

Fixpoint tnames (t:target) : list ident :=
  match t with TName x => [x] | TTuple ts => flat_map tnames ts | TOther => [] end.

(* ---- SPEC: names bound directly in a block (CPython symtable), not entering nested scopes ---- *)
Fixpoint spec_binds (s:stmt) : list ident :=
  match s with
  | SAssign ts => flat_map tnames ts
  | SAug t => tnames t
  | SExpr => []
  | SIf b o | SWhile b o => flat_map spec_binds b ++ flat_map spec_binds o
  | SFor t b o => tnames t ++ flat_map spec_binds b ++ flat_map spec_binds o
  | SDef n _ _ _ => [n]
  | SClass n _ => [n]
  | SImport x => [x]
  | SGlobal xs => xs          (* declared here; kind handled separately *)
  end.
Definition spec_fun_names (params kwonly:list ident) (body:list stmt) := params ++ kwonly ++ flat_map spec_binds body.

(* ---- MODEL of rope's _ScopeVisitor: explicit handlers, generic_visit for If/While, _AugAssign = pass,
        parameters = args only ---- *)
Fixpoint rope_visit (s:stmt) : list ident :=
  match s with
  | SAssign ts => flat_map tnames ts                         (* _Assign -> _AssignVisitor *)
  | SAug _ => []                                             (* _AugAssign: pass *)
  | SExpr => []
  | SIf b o | SWhile b o => flat_map rope_visit b ++ flat_map rope_visit o   (* generic_visit *)
  | SFor t b o => tnames t ++ flat_map rope_visit b ++ flat_map rope_visit o  (* _For: body + orelse *)
  | SDef n _ _ _ => [n]
  | SClass n _ => [n]
  | SImport x => [x]
  | SGlobal xs => xs
  end.
Definition rope_fun_names (params kwonly:list ident) (body:list stmt) := flat_map rope_visit body ++ params.

(* fragment predicate: no augmented assignment of a name, no keyword-only parameters, everywhere *)
Fixpoint frag (s:stmt) : bool :=
  match s with
  | SAug t => match tnames t with [] => true | _ => false end
  | SIf b o | SWhile b o => forallb frag b && forallb frag o
  | SFor _ b o => forallb frag b && forallb frag o
  | SDef _ _ kw body => match kw with [] => forallb frag body | _ => false end
  | SClass _ body => forallb frag body
  | _ => true
  end.

Definition same_set (a b:list ident) := forall x, In x a <-> In x b.

Section StmtInd.
  Variable P : stmt -> Prop.
  Hypothesis H1 : forall ts, P (SAssign ts).
  Hypothesis H2 : forall t, P (SAug t).
  Hypothesis H3 : P SExpr.
  Hypothesis H4 : forall b o, Forall P b -> Forall P o -> P (SIf b o).
  Hypothesis H5 : forall b o, Forall P b -> Forall P o -> P (SWhile b o).
  Hypothesis H6 : forall t b o, Forall P b -> Forall P o -> P (SFor t b o).
  Hypothesis H7 : forall n ps kw b, Forall P b -> P (SDef n ps kw b).
  Hypothesis H8 : forall n b, Forall P b -> P (SClass n b).
  Hypothesis H9 : forall x, P (SImport x).
  Hypothesis H10 : forall xs, P (SGlobal xs).
  Fixpoint stmt_ind' (s:stmt) : P s :=
    let fix all (l:list stmt) : Forall P l :=
      match l with [] => Forall_nil _ | x::xs => Forall_cons _ (stmt_ind' x) (all xs) end in
    match s with
    | SAssign ts => H1 ts | SAug t => H2 t | SExpr => H3
    | SIf b o => H4 b o (all b) (all o) | SWhile b o => H5 b o (all b) (all o)
    | SFor t b o => H6 t b o (all b) (all o)
    | SDef n ps kw b => H7 n ps kw b (all b) | SClass n b => H8 n b (all b)
    | SImport x => H9 x | SGlobal xs => H10 xs end.
End StmtInd.

Lemma flat_map_ext_frag (f g:stmt -> list ident) l :
  Forall (fun s => frag s = true -> f s = g s) l -> forallb frag l = true -> flat_map f l = flat_map g l.
Proof.
  induction 1 as [|s l Hs _ IH]; cbn; [reflexivity|]. intros H. apply andb_prop in H as [H1 H2].
  rewrite Hs by exact H1. rewrite IH by exact H2. reflexivity.
Qed.

Lemma visit_agrees s : frag s = true -> rope_visit s = spec_binds s.
Proof.
  induction s as [ts|t| |b o Hb Ho|b o Hb Ho|t b o Hb Ho|n ps kw b Hb|n b Hb|x|xs] using stmt_ind'; cbn [frag rope_visit spec_binds]; intros Hf; try reflexivity.
  - destruct (tnames t); [reflexivity|discriminate].
  - apply andb_prop in Hf as [F1 F2]. now rewrite (flat_map_ext_frag _ _ _ Hb F1), (flat_map_ext_frag _ _ _ Ho F2).
  - apply andb_prop in Hf as [F1 F2]. now rewrite (flat_map_ext_frag _ _ _ Hb F1), (flat_map_ext_frag _ _ _ Ho F2).
  - apply andb_prop in Hf as [F1 F2]. now rewrite (flat_map_ext_frag _ _ _ Hb F1), (flat_map_ext_frag _ _ _ Ho F2).
Qed.

Theorem fun_names_agree ps body : forallb frag body = true ->
  same_set (rope_fun_names ps [] body) (spec_fun_names ps [] body).
Proof.
  intros Hf x. unfold rope_fun_names, spec_fun_names. cbn [app].
  assert (E: flat_map rope_visit body = flat_map spec_binds body).
  { apply flat_map_ext_frag; [|exact Hf]. apply Forall_forall. intros s _. apply visit_agrees. }
  rewrite E, !in_app_iff. tauto.
Qed.

(* refutations: witnesses computed *)
Example kwonly_refuted : exists ps kw body x, In x (spec_fun_names ps kw body) /\ ~ In x (rope_fun_names ps kw body).
Proof. exists [1%N], [2%N], [SExpr], 2%N. cbn. split; [tauto|]. intros [H|H]; [discriminate|exact H]. Qed.
Example augassign_refuted : exists body x, In x (spec_fun_names [] [] body) /\ ~ In x (rope_fun_names [] [] body).
Proof. exists [SAug (TName 7%N)], 7%N. cbn. split; [tauto|]. tauto. Qed.
Print Assumptions fun_names_agree.
