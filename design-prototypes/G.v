From stdpp Require Import gmap list.
From Coq Require Import ZArith Lia.

Definition path := list positive.
Inductive node := File (c:Z) | Dir.
Notation fs := (gmap path node).
Inductive err := Fault | Exists | Missing | NotDone | OutOfFuel.

(* fault schedule = countdown: None never faults; Some 0 faults at the next primitive and becomes None *)
Notation sched := (option nat).
Inductive res (A:Type) := Ok (m:fs) (k:sched) (a:A) | Err (m:fs) (k:sched) (x:err).
Arguments Ok {A}. Arguments Err {A}.

Definition prim (k:sched) (m:fs) (f: fs -> option fs) (x:err) : (fs*sched) + (fs*sched*err) :=
  match k with
  | Some O => inr (m, None, Fault)
  | _ => let k' := match k with Some (S n) => Some n | _ => None end in
         match f m with Some m' => inl (m', k') | None => inr (m, k', x) end
  end.

Definition p_write (p:path) (c:Z) (m:fs) : option fs :=
  match m !! p with Some (File _) => Some (<[p := File c]> m) | _ => None end.
Definition p_create (p:path) (m:fs) : option fs :=
  match m !! p with None => Some (<[p := File 0%Z]> m) | Some _ => None end.
Definition p_remove (p:path) (m:fs) : option fs :=
  match m !! p with Some _ => Some (delete p m) | None => None end.
Definition p_move (p q:path) (m:fs) : option fs :=
  match m !! p, m !! q with Some n, None => Some (<[q := n]> (delete p m)) | _, _ => None end.

Inductive change :=
| CC (p:path) (new:Z) (old:option Z)
| MV (p q:path)
| CF (p:path)
| CS (cs:list change).
Inductive dir := Do | Undo.
Definition opp d := match d with Do => Undo | Undo => Do end.

Definition lift (c:change) (r:(fs*sched) + (fs*sched*err)) : res change :=
  match r with inl (m,k) => Ok m k c | inr (m,k,x) => Err m k x end.

Definition leaf (k:sched) (d:dir) (c:change) (m:fs) : res change :=
  match c, d with
  | CC p new old, Do =>
      let old' := match old with Some o => Some o | None => match m !! p with Some (File o) => Some o | _ => None end end in
      lift (CC p new old') (prim k m (p_write p new) Missing)
  | CC p new old, Undo =>
      match old with None => Err m k NotDone | Some o => lift c (prim k m (p_write p o) Missing) end
  | MV p q, Do => lift c (prim k m (p_move p q) Missing)
  | MV p q, Undo => lift c (prim k m (p_move q p) Missing)
  | CF p, Do => lift c (prim k m (p_create p) Exists)
  | CF p, Undo => lift c (prim k m (p_remove p) Missing)
  | CS _, _ => Err m k OutOfFuel
  end.

Section run.
Variable rollback_reversed : bool.
Fixpoint run (fuel:nat) (k:sched) (d:dir) (c:change) (m:fs) : res change :=
  match fuel with O => Err m k OutOfFuel | S f =>
  match c with
  | CS cs =>
      let fix loop (l:list change) (m:fs) (k:sched) (done:list change) : res (list change) :=
        match l with
        | [] => Ok m k done
        | c::rest =>
            match run f k d c m with
            | Ok m' k' c' => loop rest m' k' (c'::done)
            | Err m' k' x =>
                let fix back (l:list change) (m:fs) (k:sched) : fs * sched :=
                  match l with [] => (m,k)
                  | c::rest => match run f k (opp d) c m with Ok m'' k'' _ => back rest m'' k'' | Err m'' k'' _ => (m'',k'') end end in
                let '(mb,kb) := back (if rollback_reversed then done else rev done) m' k' in
                Err mb kb x
            end
        end in
      match loop (match d with Do => cs | Undo => rev cs end) m k [] with
      | Ok m' k' done => Ok m' k' (CS (match d with Do => rev done | Undo => done end))
      | Err m' k' x => Err m' k' x
      end
  | _ => leaf k d c m
  end end.
End run.

Definition a : path := [1%positive]. Definition b : path := [2%positive].
Definition w := CS [CC a 2 None; CC a 3 None; CF a].
Definition show (r:res change) := match r with Ok m _ _ => (true, map_to_list m) | Err m _ _ => (false, map_to_list m) end.
Eval vm_compute in (show (run false 5 None Do w (list_to_map [(a, File 1)])), show (run true 5 None Do w (list_to_map [(a, File 1)]))).
